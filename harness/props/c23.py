"""C23 — Record transfer between repositories preserves the call graph."""
from __future__ import annotations

import json
import os
import subprocess
import sys
import tempfile
from collections import defaultdict
from concurrent.futures import ThreadPoolExecutor
from pathlib import Path

from harness import lib
from harness.lib import GEN, VERIF, Finding, PropertyCheck, TranslateError, run_bool_cases
from translate import astutil, tr_transfer

DRIVER = Path(__file__).with_name("c23_driver.py")
KINDS = ["fan", "twice", "files", "inline", "apply", "chain", "caught", "mix", "boom", "multi", "nested"]
SUBTASKS = ["combine", "combine", "multi", "nested_multi", "left", "fan", "twice", "add", "chain"]

K_REORDER = "transfer:call:child-edges-reordered"
K_CACHE = "cache:transferred-node-served-but-source-refuses"
K_E2E = "cache:e2e-stale-result-after-push"


# ------------------------------------------------------------------ dumps -> record bundles
def bundle(d):
    """Raw table dump -> ({id: entity tuple}, [anomalies]).  Entity tuples are normalised:
    set-valued sub-tables sorted, call edges in call order."""
    an = []
    ents = {}

    def put(i, e):
        if i in ents:
            an.append(f"id {i} is a primary key of two tables")
        ents[i] = e

    for i, args, job in d["execution"]:
        put(i, ("exec", args, job))
    for r in d["job"]:
        put(r[0], ("job", r[1], r[2], r[3], bool(r[4]), r[5], r[6], r[7]))
    calls = {r[0] for r in d["call_node"]}
    edges = defaultdict(list)
    for p, c, o in d["call_edge"]:
        edges[p].append((o, c))
    ups = defaultdict(list)
    argh = set()
    args = defaultdict(list)
    for ah, ch, vh, pos, key in d["argument"]:
        argh.add(ah)
        if (pos is None) == (key is None):
            an.append(f"argument {ah}: position and key both set or both missing")
        if key is not None and (key == "" or key.isdigit()):
            an.append(f"argument {ah}: keyword name {key!r} outside the modelled domain")
        args[ch].append((ah, vh, pos, key))
    for ah, rc in d["argument_result"]:
        ups[ah].append(rc)
        if ah not in argh:
            an.append(f"argument_result for missing argument {ah}")
    subtree = defaultdict(list)
    for ch, th in d["call_subtree_task"]:
        subtree[ch].append(th)
    for name, tab in (("call_edge", edges), ("argument", args), ("call_subtree_task", subtree)):
        for k in tab:
            if k not in calls:
                an.append(f"orphan {name} rows for call node {k}")
    for ch, name, th, ah, vh, ts in d["call_node"]:
        put(ch, ("call", name, th, ah, vh, ts, tuple(sorted(edges[ch])),
                 tuple(sorted((a, v, p, k, tuple(sorted(ups[a]))) for a, v, p, k in args[ch])),
                 tuple(sorted(subtree[ch]))))
    vals = {r[0] for r in d["value"]}
    subs = defaultdict(list)
    for c, p in d["subvalue"]:
        subs[p].append(c)
        if p not in vals:
            an.append(f"orphan subvalue rows for value {p}")
    files = {v: p for v, p in d["file"]}
    tasks = {r[0]: tuple(r[1:]) for r in d["task"]}
    for k in list(files) + list(tasks):
        if k not in vals:
            an.append(f"file/task row without value row {k}")
    for vh, ty, fmt, data in d["value"]:
        if vh in files and vh in tasks:
            an.append(f"value {vh} has both a file and a task row")
        st = ("file", files[vh]) if vh in files else (("task",) + tasks[vh] if vh in tasks else ("none",))
        put(vh, ("value", ty, fmt, data, tuple(sorted(subs[vh])), st))
    tags = {r[0] for r in d["tag"]}
    parents = defaultdict(list)
    for p, c in d["tag_edit"]:
        parents[c].append(p)
        if c not in tags:
            an.append(f"orphan tag_edit rows for tag {c}")
    for th, et, eid, key, val, cur in d["tag"]:
        put(th, ("tag", et, eid, key, val, tuple(sorted(parents[th])), bool(cur)))
        if key == "redun.context":
            an.append(f"context tag {th} present (the context filter of _get_call_node is outside the model)")
    if d.get("handle"):
        an.append("handle rows present (outside the modelled record kinds)")
    return ents, an


def ids_of(e):
    k = e[0]
    if k == "exec":
        return [e[2]]
    if k == "job":
        return [x for x in (e[3], e[5], e[6], e[7]) if x is not None]
    if k == "call":
        out = [e[2], e[3], e[4]] + [c for _, c in e[6]] + list(e[8])
        for a, v, p, kk, up in e[7]:
            out += [a, v] + list(up)
        return out
    if k == "value":
        return list(e[4])
    return [e[2]] + list(e[5])


def payloads_of(e):
    k = e[0]
    if k == "exec":
        return [e[1]]
    if k == "job":
        return [e[1], e[2]]
    if k == "call":
        return [e[1], e[5]] + [kk for _, _, _, kk, _ in e[7] if kk is not None]
    if k == "value":
        return [e[1], e[2], e[3]] + list(e[5][1:])
    return [e[1], e[3], e[4]]


class Lits:
    """ids -> N by string order (so N order = sqlite BINARY order); payloads -> N by sorted repr."""

    def __init__(self, bundles, extra_ids=()):
        ids, pays = set(extra_ids), set()
        for b in bundles:
            for i, e in b.items():
                ids.add(i)
                ids.update(ids_of(e))
                pays.update(self.pk(p) for p in payloads_of(e))
        self.idn = {s: n + 1 for n, s in enumerate(sorted(ids))}
        self.payn = {s: n + 1 for n, s in enumerate(sorted(pays))}

    @staticmethod
    def pk(p):
        return f"{type(p).__name__}:{p}"

    def i(self, s):
        return str(self.idn[s])

    def p(self, v):
        return str(self.payn[self.pk(v)])

    def oi(self, s):
        return "None" if s is None else f"(Some {self.i(s)})"

    def il(self, l):
        return "[" + "; ".join(self.i(x) for x in l) + "]"

    def ent(self, e):
        k = e[0]
        if k == "exec":
            return f"EExec (mkExec {self.p(e[1])} {self.i(e[2])})"
        if k == "job":
            end = "None" if e[2] is None else f"(Some {self.p(e[2])})"
            return (f"EJob (mkJob {self.p(e[1])} {end} {self.i(e[3])} {'true' if e[4] else 'false'} "
                    f"{self.oi(e[5])} {self.oi(e[6])} {self.i(e[7])})")
        if k == "call":
            edges = "[" + "; ".join(f"({o}%nat, {self.i(c)})" for o, c in e[6]) + "]"
            args = "[" + "; ".join(
                f"mkArg {self.i(a)} {self.i(v)} " + (f"(APos {p}%nat)" if p is not None else f"(AKey {self.p(kk)})")
                + f" {self.il(up)}" for a, v, p, kk, up in e[7]) + "]"
            return (f"ECall (mkCall {self.p(e[1])} {self.i(e[2])} {self.i(e[3])} {self.i(e[4])} {self.p(e[5])} "
                    f"{edges} {args} {self.il(e[8])})")
        if k == "value":
            st = e[5]
            sub = "SubNone" if st[0] == "none" else (f"(SubFile {self.p(st[1])})" if st[0] == "file" else
                                                     f"(SubTask {self.p(st[1])} {self.p(st[2])} {self.p(st[3])})")
            return f"EValue (mkValue {self.p(e[1])} {self.p(e[2])} {self.p(e[3])} {self.il(e[4])} {sub})"
        return (f"ETag (mkTag {self.p(e[1])} {self.i(e[2])} {self.p(e[3])} {self.p(e[4])} {self.il(e[5])} "
                f"{'true' if e[6] else 'false'})")

    def repo(self, b):
        items = sorted(b.items(), key=lambda kv: self.idn[kv[0]])
        return "([" + ";\n  ".join(f"({self.i(i)}, {self.ent(e)})" for i, e in items) + "])%N"


# ------------------------------------------------------------------ scenarios
def gen_scenarios(rng, count):
    out = []
    for k in range(count):
        ty = k % 5
        repos = ["a", "b", "c"] if ty in (2, 4) else ["a", "b"]
        setup = []

        def runs(repo, n):
            for _ in range(n):
                setup.append({"op": "run", "repo": repo, "kind": rng.choice(KINDS if rng.random() < 0.8 else ["mix"]),
                              "n": rng.randint(2, 5), "seed": rng.randint(0, 4)})

        tagged = []      # (repo, target, key) that some earlier op of this history wrote

        def tag_ops(repo, nexec, n, into):
            """add / update / rm; most updates and removals hit a tag an earlier op wrote (and that
            an earlier transfer may already have copied), so they create child tags / delete markers"""
            for _ in range(n):
                mine = [t for t in tagged if t[0] == repo]
                if mine and rng.random() < 0.65:
                    _, tgt, key = rng.choice(mine)
                    cmd = rng.choice(["update", "update", "rm", "add"])
                else:
                    tgt = [rng.choice(["exec", "exec", "job", "value", "call"]), rng.randrange(nexec)]
                    key = rng.choice(["k", "q"])
                    cmd = rng.choice(["add", "add", "update", "update", "rm"])
                if cmd != "rm":
                    tagged.append((repo, tgt, key))
                if cmd == "rm":
                    kv = ["--", key] if rng.random() < 0.5 else [f"{key}={rng.randint(1, 3)}"]
                else:
                    kv = [f"{key}={rng.randint(1, 3)}"]
                    if rng.random() < 0.3:
                        kv.append('r=["x",%d]' % rng.randint(1, 2))
                into.append({"op": "tag", "repo": repo, "cmd": cmd, "target": tgt, "kv": kv})

        na = rng.randint(3, 4)
        runs("a", na)
        setup.append({"op": "run", "repo": "a", "kind": "mix", "n": rng.randint(2, 4), "seed": rng.randint(0, 4)})
        na += 1
        if rng.random() < 0.7:      # a cached re-run
            setup.append(dict(setup[rng.randrange(na)]))
            na += 1
        tag_ops("a", na, rng.randint(4, 8), setup)
        steps = []
        some = [["exec", rng.randrange(na)] for _ in range(rng.randint(1, 2))]
        def source_ops(n):
            """what happens in the source between two transfers"""
            nonlocal na
            if rng.random() < 0.4:
                steps.append({"op": "run", "repo": "a", "kind": rng.choice(KINDS), "n": rng.randint(2, 4),
                              "seed": rng.randint(0, 4)})
                na += 1
            tag_ops("a", na, n, steps)

        if ty == 0:
            # incremental history: every transfer is followed by edits of what was already copied
            steps.append({"method": "push", "src": "a", "dst": "b", "roots": some})
            source_ops(2)
            steps.append({"method": "push", "src": "a", "dst": "b"})
            source_ops(3)
            steps.append({"method": "export", "src": "a", "dst": "b"})
            source_ops(3)
            steps.append({"method": "pull", "src": "a", "dst": "b"})
        elif ty == 1:
            nb = 2
            for _ in range(nb):   # the destination has history of its own, partly the same calls
                o = dict(setup[rng.randrange(na)]) if rng.random() < 0.6 else \
                    {"op": "run", "repo": "b", "kind": rng.choice(KINDS), "n": 3, "seed": rng.randint(0, 4)}
                o = dict(o, repo="b")
                if o["op"] != "run":
                    o = {"op": "run", "repo": "b", "kind": "mix", "n": 3, "seed": 1}
                setup.append(o)
            tag_ops("b", nb, 2, setup)
            steps.append({"method": "pull", "src": "a", "dst": "b"})
            steps.append({"method": "push", "src": "b", "dst": "a"})
            # (`redun pull REPO ids` resolves the ids in the *local* repository, so selected roots
            #  are only usable with push and export)
            steps.append({"method": "export", "src": "a", "dst": "b", "roots": some})
        elif ty == 2:
            steps.append({"method": "export", "src": "a", "dst": "b", "roots": some})
            steps.append({"method": "export", "src": "a", "dst": "b"})
            steps.append({"method": "push", "src": "b", "dst": "c"})
        elif ty == 4:
            # roots below the execution: sub-jobs and call nodes whose arguments are fed by several
            # upstream calls (those upstream calls are reachable only through the ArgumentResult rows)
            first = na
            for kind in ("multi", "nested", "multi", "nested"):
                setup.append({"op": "run", "repo": "a", "kind": kind, "n": rng.randint(1, 4), "seed": rng.randint(0, 4)})
                na += 1
            tag_ops("a", na, 3, setup)

            def sub(what, i, which=None):
                return [what, first + i, "combine", rng.randrange(3) if which is None else which]
            steps.append({"method": "push", "src": "a", "dst": "b", "roots": [sub("subjob", 0, 0)]})
            steps.append({"method": "push", "src": "b", "dst": "c", "roots": [sub("subjob", 0, 0)], "roots_from": "a"})
            steps.append({"method": "export", "src": "a", "dst": "b", "roots": [sub("subcall", 1)]})
            steps.append({"method": "push", "src": "a", "dst": "b", "roots": [sub("subjob", 3), sub("subcall", 2, 0)]})
            source_ops(2)
            steps.append({"method": "export", "src": "a", "dst": "c", "roots": [sub("subjob", 1), ["job", first + 2]]})
            steps.append({"method": "push", "src": "a", "dst": "b", "roots": [["call", rng.randrange(na)]]})
            steps.append({"method": "pull", "src": "a", "dst": "b"})
        else:
            # random incremental history, 4-5 transfers with source-side operations in between
            for _ in range(rng.randint(4, 5)):
                m = rng.choice(["push", "pull", "export"])
                r = rng.random()
                roots = {} if m == "pull" or r < 0.5 else \
                    {"roots": [["exec", rng.randrange(na)]]} if r < 0.7 else \
                    {"roots": [[rng.choice(["subjob", "subcall"]), rng.randrange(na), rng.choice(SUBTASKS), rng.randrange(3)]
                               for _ in range(rng.randint(1, 2))]}
                steps.append({"method": m, "src": "a", "dst": "b", **roots})
                source_ops(rng.randint(2, 3))
            steps.append({"method": rng.choice(["push", "pull", "export"]), "src": "a", "dst": "b"})
        out.append({"repos": repos, "setup": setup, "steps": steps, "e2e": k == 0})
    return out


def run_driver(spec, timeout=600):
    tmp = Path(tempfile.mkdtemp(prefix="rv_c23h_", dir=os.environ.get("VERIF_TMP") or None))
    try:
        (tmp / "spec.json").write_text(json.dumps(spec))
        env = dict(os.environ, PYTHONPATH=f"{lib.REPO}:{VERIF}", PYTHONHASHSEED="0")
        p = subprocess.run([sys.executable, str(DRIVER), str(tmp / "spec.json"), str(tmp / "out.json")],
                           cwd=str(tmp), env=env, capture_output=True, text=True, timeout=timeout)
        if p.returncode != 0 or not (tmp / "out.json").exists():
            return None, (p.stdout + p.stderr)[-3000:]
        return json.loads((tmp / "out.json").read_text()), ""
    finally:
        import shutil
        shutil.rmtree(tmp, ignore_errors=True)


# ------------------------------------------------------------------ the implementation oracle
def owned_targets(e):
    """The ids a record refers to along the ownership edges the property names (every
    ArgumentResult row of every argument included)."""
    if e[0] == "exec":
        return [e[2]]
    if e[0] == "job":
        return [x for x in (e[3], e[5]) if x is not None]      # parent_id / execution_id are not ownership edges
    if e[0] == "call":
        return [e[2], e[4]] + [c for _, c in e[6]] + [x for a, v, p, k, up in e[7] for x in (v,) + tuple(up)]
    if e[0] == "value":
        return list(e[4])
    return list(e[5])                                          # tag: entity_id is not an ownership edge


def reachable(src, roots):
    """Closure of the roots under: execution -> root job; job -> task, call node, child jobs;
    call node -> task, result, argument values, upstream call nodes, child call nodes;
    value -> subvalues; tag <-> its edits (parents and children); any record -> its tags."""
    child_jobs, child_tags, ent_tags = defaultdict(list), defaultdict(list), defaultdict(list)
    for i, e in src.items():
        if e[0] == "job" and e[6] is not None:
            child_jobs[e[6]].append(i)
        if e[0] == "tag":
            ent_tags[e[2]].append(i)
            for p in e[5]:
                child_tags[p].append(i)
    seen = set()
    todo = [r for r in roots if r in src]
    while todo:
        i = todo.pop()
        if i in seen:
            continue
        seen.add(i)
        nxt = list(ent_tags.get(i, [])) + list(child_jobs.get(i, [])) + list(child_tags.get(i, []))
        e = src.get(i)
        if e is not None:
            nxt += owned_targets(e)
        todo += [x for x in nxt if x is not None]
    return {i for i in seen if i in src}


def judge_step(rec, arrived=None, known_kinds=None):
    """Decide the property for one transfer, from the dumps alone. -> [(key, what, detail)]
    `arrived`: ids that reached this destination by transfers of the history so far (incl. this one)."""
    out = []
    st = rec["step"]
    tagm = f"{st['method']}:{st['src']}->{st['dst']}"
    src, an_s = bundle(rec["src"])
    before, an_b = bundle(rec["dst_before"])
    after, an_a = bundle(rec["dst_after"])
    for an in (an_s, an_b, an_a):
        for a in an[:3]:
            out.append(("dump:" + a.split(" ")[0], f"{tagm}: {a}", {}))
    if rec.get("iter_error"):
        out.append(("walk:raised", f"{tagm}: iter_record_ids raised {rec['iter_error']}", {}))
    if rec.get("error") or rec.get("error2"):
        out.append((f"transfer:raised:{st['method']}", f"{tagm}: the command raised {rec.get('error') or rec.get('error2')}", {}))
        return out
    T = [i for i in rec["iter_ids"] if i in src]
    Tset = set(T)
    if len(T) != len(Tset):
        out.append(("walk:duplicate-id", f"{tagm}: iter_record_ids yields an id twice", {}))
    # the reachable set, computed independently from the ownership edges the property names
    want = reachable(src, rec["walk_roots"])
    for i in sorted(want - Tset)[:3]:
        out.append((f"walk:{src[i][0]}:not-visited", f"{tagm}: {src[i][0]} record {i} is reachable from the roots but "
                                                    "iter_record_ids does not yield it", {"id": i}))
    for i in sorted(Tset - want)[:3]:
        out.append((f"walk:{src[i][0]}:unreachable-visited", f"{tagm}: iter_record_ids yields {src[i][0]} record {i} "
                                                            "which is not reachable from the roots", {"id": i}))
    T = sorted(want | Tset)
    Tset = set(T)
    dst_children = defaultdict(set)
    for j, e in after.items():
        if e[0] == "tag":
            for p in e[5]:
                dst_children[p].add(j)

    def independent_child(i):
        """the destination holds an edit of tag i that the source does not know"""
        return any(j not in src for j in dst_children.get(i, ()))

    for i in T:
        s = src[i]
        if i not in after:
            out.append((f"transfer:{s[0]}:missing", f"{tagm}: reachable {s[0]} record {i} is not in the destination", {"id": i}))
            continue
        a = after[i]
        if i in before:
            b = before[i]
            if a[:-1] != b[:-1] if a[0] == "tag" else a != b:
                out.append((f"transfer:{s[0]}:existing-record-changed", f"{tagm}: existing record {i} was modified", {"id": i}))
            if s[0] == "tag" and a[0] == "tag" and a[-1] != s[-1] and not independent_child(i):
                out.append(("transfer:tag:status-of-existing", f"{tagm}: tag {i} (already in the destination) is "
                            f"{'current' if s[-1] else 'superseded'} in the source and {'current' if a[-1] else 'superseded'} "
                            "in the destination after the transfer", {"id": i, "src": s, "dst": a}))
            continue
        if s[0] == "call":
            if a[1:6] != s[1:6] or a[7] != s[7]:
                out.append(("transfer:call:columns-or-arguments", f"{tagm}: call node {i} arrives with different columns/arguments",
                            {"id": i, "src": s, "dst": a}))
            cs, ca = [c for _, c in s[6]], [c for _, c in a[6]]
            if cs != ca:
                if sorted(cs) == sorted(ca):
                    out.append((K_REORDER, f"{tagm}: children of call node {i} arrive in a different order "
                                           f"(source call order {cs}, destination {ca})", {"id": i, "src": cs, "dst": ca}))
                else:
                    out.append(("transfer:call:children-differ", f"{tagm}: call node {i} arrives with other children",
                                {"id": i, "src": cs, "dst": ca}))
        elif s[0] == "tag":
            if a[:-1] != s[:-1]:
                out.append(("transfer:tag:columns-or-parents", f"{tagm}: tag {i} arrives different", {"id": i, "src": s, "dst": a}))
            if not independent_child(i) and a[-1] != s[-1]:
                out.append(("transfer:tag:status", f"{tagm}: tag {i} is {'current' if s[-1] else 'superseded'} in the source "
                                                   f"and {'current' if a[-1] else 'superseded'} in the destination",
                            {"id": i, "src": s, "dst": a}))
        elif a != s:
            out.append((f"transfer:{s[0]}:differs", f"{tagm}: {s[0]} record {i} arrives different", {"id": i, "src": s, "dst": a}))
    # referential closure at the destination: a record that arrived refers (ownership edges, every
    # ArgumentResult row) only to records that are there too, or that the source lacks as well
    ndang = 0
    for i in after:
        if i in before or i not in src:
            continue
        for t in owned_targets(after[i]):
            kind_t = src[t][0] if t in src else (known_kinds or {}).get(t)
            if t not in after and kind_t and ndang < 3:
                ndang += 1
                where = "exists in the source" if t in src else \
                    "exists in the repository this history started from (lost on the way: relay)"
                out.append((f"closure:{after[i][0]}-refers-to-missing-{kind_t}",
                            f"{tagm}: transferred {after[i][0]} record {i} refers to {kind_t} record {t}, which {where} "
                            "but is not in the destination (dangling reference)", {"id": i, "target": t}))

    # "current iff no edit supersedes it" in the destination (if it held before the transfer)
    def wf(b):
        ch = {p for e in b.values() if e[0] == "tag" for p in e[5]}
        return [i for i, e in b.items() if e[0] == "tag" and e[-1] != (i not in ch)]
    if not wf(before) and not wf(src):
        for i in wf(after)[:2]:
            out.append(("tags:invariant", f"{tagm}: after the transfer tag {i} is "
                        f"{'current although an edit supersedes it' if after[i][-1] else 'superseded without an edit'} "
                        "in the destination", {"id": i, "dst": after[i]}))

    # what get_tags answers for every transferred entity: the current (key, value) pairs
    def current_pairs(b):
        m = defaultdict(list)
        for i, e in b.items():
            if e[0] == "tag" and e[-1]:
                m[e[2]].append((e[3], e[4]))
        return m
    cp_s, cp_a = current_pairs(src), current_pairs(after)
    foreign = {e[2] for j, e in after.items() if e[0] == "tag" and j not in src}
    for ent in T:
        if ent not in foreign and sorted(cp_s.get(ent, [])) != sorted(cp_a.get(ent, [])):
            out.append(("tags:get_tags-differs", f"{tagm}: get_tags({ent}) is {sorted(cp_s.get(ent, []))} in the source and "
                                                 f"{sorted(cp_a.get(ent, []))} in the destination",
                        {"entity": ent, "src": sorted(cp_s.get(ent, [])), "dst": sorted(cp_a.get(ent, []))}))
            break

    # the same source transferred in one go into a brand-new repository
    if rec.get("fresh_error"):
        out.append(("oneshot:raised", f"{tagm}: a one-shot transfer of the same source raised {rec['fresh_error']}", {}))
    elif rec.get("fresh") is not None and arrived is not None:
        fresh, _ = bundle(rec["fresh"])
        for i in T:
            if i in arrived and i in after and i in fresh:
                a, f = after[i], fresh[i]
                same = (a[:-1] == f[:-1] and (a[-1] == f[-1] or independent_child(i))) if a[0] == "tag" else \
                    ((a[:8] == f[:8]) if a[0] == "call" else a == f)      # subtree rows are not part of the records
                if not same:
                    out.append((f"oneshot:{a[0]}:differs", f"{tagm}: {a[0]} record {i}, brought by incremental transfers, differs "
                                                           "from the same record after a one-shot transfer of the same source "
                                                           "into an empty repository", {"id": i, "incremental": a, "oneshot": f}))
                    break
        for i in T:
            if i not in fresh:
                out.append(("oneshot:missing", f"{tagm}: one-shot transfer lacks reachable record {i}", {"id": i}))
                break

    for i in after:
        if i not in before and i not in Tset:
            out.append(("transfer:extra-record", f"{tagm}: record {i} was added but is not reachable from the roots", {"id": i}))
    if rec.get("n") is not None and rec["n"] != len(after) - len(before):
        out.append(("transfer:count", f"{tagm}: reported {rec['n']} new records, destination grew by {len(after) - len(before)}", {}))
    if rec.get("n2") not in (0, None):
        out.append(("repeat:count", f"{tagm}: repeating the transfer reports {rec['n2']} new records", {}))
    if rec["dst_after2"] != rec["dst_after"]:
        out.append(("repeat:changed", f"{tagm}: repeating the transfer changed the destination", {}))
    if rec["src_after"] != rec["src"]:
        out.append(("transfer:source-modified", f"{tagm}: the transfer modified the source", {}))
    for p in rec["probes"]:
        if p["dst"] == p["call_hash"] and p["src"] is None:
            out.append((K_CACHE, f"{tagm}: after the transfer the destination's _get_call_node returns transferred call node "
                                 f"{p['call_hash']} for registry '{p['registry']}' although the source's returns None", p))
            break
    return out


class Check(PropertyCheck):
    id = "C23"
    module = "Props.C23"
    theorems = ["C23_walk_terminates", "C23_sync_total", "C23_reachable_closed", "C23_transfer_new", "C23_transfer_old",
                "C23_transfer_only", "C23_transfer_count", "C23_canon_exec", "C23_canon_job", "C23_canon_value",
                "C23_canon_tag", "C23_canon_call", "C23_children_order_fixed", "C23_children_order_refuted",
                "C23_transfer_preserves", "C23_compat_preserved", "C23_transfer_idempotent", "C23_put_existing_noop",
                "C23_tags_invariant", "C23_tags_status", "C23_cache_fixed", "C23_cache_refuted", "C23_nonvacuous"]
    extra_modules = ["Proofs.TransferCheck"]
    allowed_axioms = []
    section_premises = []
    assumptions = [
        "ids are unique across tables (uuid / hash collisions excluded); rows are bundled with the record that owns them — "
        "the harness reports orphan rows, ids in two tables, File+Task values and Handle rows when it dumps a database",
        "keyword argument names are non-empty and not digit strings (CallNodeSerializer keys arguments by `arg_key or str(arg_position)`)",
        "str(datetime)/dateutil.parse and json.dumps/json.loads round-trip the scalar columns (re-tested by the oracle on every transfer)",
        "theorem premises NoDup ids / well_typed / wf_tags (is_current iff not superseded) are evaluated in Coq on the dump of every real repository used",
        "SQLite returns call_edge rows of one parent in primary-key index order (parent, child, call_order) when no ORDER BY is given "
        "(the DbIndexOrder variant; validated by the correspondence run)",
        "_get_call_node is modelled without its context filter (with a context: only nodes tagged with it; without: only "
        "nodes recorded without one), which only narrows the candidate set; the generated repositories carry no "
        "redun.context tags (the dump reports one as outside the modelled domain), probes are made without a context",
        "Execution.updated_time, Evaluation, Handle and CallSubtreeTask rows are not part of the records the property lists; "
        "CallSubtreeTask is covered by the cache clause",
    ]
    rule = ("real sqlite repositories built by running a generated redun workflow (fan-out in shuffled order, repeated "
            "children, Files in containers, Task-valued arguments, upstream links, caught and uncaught failures, cached "
            "re-runs) and `redun tag add/update/rm` histories; transfers by the real push / pull / export+import commands "
            "with all or selected executions as roots, into empty and non-empty destinations, repeated, both directions "
            "and chained; a case is one transfer or one shallow-cache probe; distinct by (scenario, step, probe)")

    # ------------------------------------------------------------------
    def translate(self):
        self.info = None
        try:
            text, info = tr_transfer.translate()
        except astutil.TranslateError as e:
            raise TranslateError(str(e))
        self.info = info
        GEN.mkdir(exist_ok=True)
        p = GEN / "C23Gen.v"
        for ext in (".vo", ".vos", ".vok", ".glob"):       # never run the model under a stale configuration
            q = p.with_suffix(ext)
            if q.exists():
                q.unlink()
        p.write_text(text)
        return [p]

    # ------------------------------------------------------------------
    def scenarios(self):
        if getattr(self, "_outs", None) is not None:
            return self._outs
        n = 5 if self.tier == "quick" else 25
        specs = []
        corpus = lib.CORPUS / "C23.jsonl"
        if corpus.exists():
            for line in corpus.read_text().splitlines():
                if line.strip():
                    specs.append(json.loads(line)["spec"])
        specs += gen_scenarios(self.rng, n)
        with ThreadPoolExecutor(max_workers=5) as ex:
            res = list(ex.map(run_driver, specs))
        self._outs = []
        bad = []
        for spec, (out, err) in zip(specs, res):
            if out is None:
                bad.append(err)
            else:
                self._outs.append(out)
        self.ob("harness", f"{len(specs)} repository scenarios built and transferred with the real commands", not bad,
                "\n".join(bad)[-3000:])
        return self._outs

    def correspond(self):
        outs = self.scenarios()
        if not getattr(self, "info", None):
            self.ob("correspondence", "model == implementation (needs the extracted configuration)", False,
                    "translator failed; no configuration to run the model with")
            return
        jobs = []
        for k, out in enumerate(outs):
            bundles = []
            for rec in out["steps"]:
                for key in ("src", "dst_before", "dst_after", "dst_after2"):
                    bundles.append(bundle(rec[key])[0])
            extra = [i for rec in out["steps"] for i in rec["iter_ids"] if i] + \
                    [t for rec in out["steps"] for p in rec["probes"] for t in (p["task_hash"], p["args_hash"])]
            regs_all = set()
            for rec in out["steps"]:
                regs_all |= {r[0] for r in rec["src"]["task"]} | {r[0] for r in rec["dst_after"]["task"]}
            L = Lits(bundles, list(extra) + list(regs_all))
            pre = []
            names = {}

            def name(b):
                txt = L.repo(b)
                if txt not in names:
                    names[txt] = f"r{len(names)}"
                    pre.append(f"Definition {names[txt]} : repo := {txt}.")
                return names[txt]

            terms, descr = [], []
            for si, rec in enumerate(out["steps"]):
                if rec.get("error") or rec.get("error2"):
                    continue
                src, before, after, after2 = (bundle(rec[x])[0] for x in ("src", "dst_before", "dst_after", "dst_after2"))
                s, b, a, a2 = name(src), name(before), name(after), name(after2)
                roots = "(" + L.il([r for r in rec["walk_roots"] if r in L.idn]) + ")%N"
                ids = "(" + L.il(sorted({i for i in rec["iter_ids"] if i}, key=lambda x: L.idn[x])) + ")%N"
                n = rec["n"] if rec["n"] is not None else len(after) - len(before)
                st = rec["step"]
                what = f"scenario {k} step {si} {st['method']} {st['src']}->{st['dst']} roots={st.get('roots')}"
                terms.append(f"sync_agrees gen_cfg {s} {b} {roots} {ids} {a} {n}%nat")
                descr.append(what + ": model sync == real destination")
                terms.append(f"sync_agrees gen_cfg {s} {a} {roots} {ids} {a2} 0%nat")
                descr.append(what + ": repeat, model == real")
                terms.append(f"premisesb {s} && premisesb {b}")
                descr.append(what + ": theorem premises (unique ids, typed foreign keys, tag status invariant) on source and destination")
                self.count((k, si))
                self.stat("transfer_method", st["method"])
                self.stat("roots", "+".join(sorted({r[0] for r in st["roots"]})) if st.get("roots") else "all executions")
                self.stat("destination", "empty" if not before else "non-empty")
                self.stat("records_transferred", min(len(after) - len(before), 200) // 25 * 25)
                self.sample({"step": st, "source_records": len(src), "destination_before": len(before),
                             "destination_after": len(after), "reported": rec["n"], "repeat_reported": rec["n2"]}, 4)
                tasks = {r[0] for r in rec["src"]["task"]} | {r[0] for r in rec["dst_after"]["task"]}
                for pi, p in enumerate(rec["probes"]):
                    reg = tasks if p["registry"] == "all" else tasks - {p["registry"].split(":", 1)[1]}
                    regl = "(" + L.il(sorted(reg, key=lambda x: L.idn[x])) + ")%N"
                    t, ah = L.i(p["task_hash"]), L.i(p["args_hash"])
                    for side, repo_name in (("src", s), ("dst", a2)):
                        exp = "None" if p[side] is None else f"(Some {L.i(p[side])}%N)"
                        terms.append(f"opt_eqb N.eqb (get_call_node gen_cfg {repo_name} {regl} {t}%N {ah}%N) {exp}")
                        descr.append(what + f": _get_call_node probe {pi} on {side} ({p['registry'][:14]})")
                    self.count((k, si, pi))
                    self.stat("cache_probe", "registry=" + p["registry"].split(":")[0])
            jobs.append((k, "\n".join(pre), terms, descr))

        def go(job):
            k, pre, terms, descr = job
            if not terms:
                return k, True, [], [], descr
            ok, failing, diags = run_bool_cases(f"C23_{k}", ["Model.Transfer", "Proofs.TransferCheck", "Gen.C23Gen"],
                                                pre, terms, chunk=100000)
            return k, ok, failing, diags, descr

        with ThreadPoolExecutor(max_workers=5) as ex:
            results = list(ex.map(go, jobs))
        total = sum(len(j[2]) for j in jobs)
        bad = []
        for k, ok, failing, diags, descr in results:
            bad += diags
            bad += ["mismatch: " + descr[i] for i in failing[:8]]
        self.ob("correspondence", f"model (Model/Transfer.v under the extracted configuration "
                                  f"{self.info['child_order']}/require_own={self.info['require_own']}) == real "
                                  f"iter_record_ids / put_records / _get_call_node on {total} cases from {len(outs)} scenarios",
                not bad, "\n".join(bad)[-3000:])

    # ------------------------------------------------------------------
    def judge(self, out):
        found = []
        arrived = defaultdict(set)      # repository -> ids brought there by the transfers of this history
        known_kinds = {}                # every record id seen in any source of this history -> its kind
        for rec in out["steps"]:
            for t, kind in (("execution", "exec"), ("job", "job"), ("call_node", "call"), ("value", "value"), ("tag", "tag")):
                for r in rec["src"][t]:
                    known_kinds[r[0]] = kind
        for si, rec in enumerate(out["steps"]):
            dst = rec["step"]["dst"]
            arrived[dst] |= {r[0] for t in ("execution", "job", "call_node", "value", "tag") for r in rec["dst_after"][t]} - \
                            {r[0] for t in ("execution", "job", "call_node", "value", "tag") for r in rec["dst_before"][t]}
            for key, what, detail in judge_step(rec, arrived[dst], known_kinds):
                found.append((key, f"[transfer {si + 1} of {len(out['steps'])} in the history] " + what, detail))
        e = out.get("e2e")
        if e:
            if any(e["errors"]):
                found.append(("e2e:raised", f"end-to-end scenario raised {e['errors']}", e))
            elif e["dest_after_edit"] != e["source_after_edit"]:
                found.append((K_E2E, "a check_valid='shallow' workflow was pushed to an empty repository; after editing a leaf "
                                     f"task the source re-runs it ({e['source_after_edit']}) but the destination replays the "
                                     f"stale result ({e['dest_after_edit']})", e))
        return found

    def oracle(self):
        outs = self.scenarios()
        seen = set()
        nsteps = 0
        for k, out in enumerate(outs):
            nsteps += len(out["steps"])
            pending = 0
            si = 0
            for st in out["spec"]["steps"]:
                if "method" not in st:
                    pending += 1
                    self.stat("oracle_source_op_between_transfers", st["op"] + (":" + st["cmd"] if st["op"] == "tag" else ""))
                    continue
                rec = out["steps"][si] if si < len(out["steps"]) else None
                self.count(("oracle", k, si))
                self.stat("oracle_transfer_method", st["method"])
                self.stat("oracle_roots", "+".join(sorted({r[0] for r in st["roots"]})) if st.get("roots") else "all executions")
                self.stat("oracle_position_in_history", si + 1)
                self.stat("oracle_source_ops_since_previous_transfer", min(pending, 5))
                if rec is not None:
                    self.stat("oracle_destination", "empty" if not rec["dst_before"]["value"] else "non-empty")
                    ups = defaultdict(int)
                    for ah, _ in rec["dst_after"]["argument_result"]:
                        ups[ah] += 1
                    self.stat("oracle_max_upstream_calls_of_one_transferred_argument", max(ups.values(), default=0))
                    self.count(None, len(rec["probes"]))
                pending = 0
                si += 1
            for key, what, detail in self.judge(out):
                if key in seen:
                    continue
                seen.add(key)
                self.findings.append(Finding(key, what, {"spec": out["spec"], "key": key, "detail": detail}))
        self.stat("oracle", "transfers_judged", nsteps)
        known = {k["key"] for k in lib.load_known_findings() if k.get("property") == self.id}
        new = [f for f in self.findings if f.key not in known]
        self.ob("oracle", f"implementation oracle (whole-graph equality on the transferred records, nothing extra, counts, "
                          f"repeat is a no-op, tag status of new and of already-present tags, get_tags view, tag invariant, "
                          f"equality with a one-shot transfer into an empty repository, shallow-cache probes, end-to-end "
                          f"re-run) after every one of {nsteps} real transfers of incremental histories: "
                          f"nothing beyond the registered known findings",
                not new, "; ".join(f.what for f in new[:5]))
        # the extracted variant must agree with what the real code was seen to do
        if getattr(self, "info", None):
            seen_keys = {f.key for f in self.findings}
            exp_reorder = self.info["child_order"] == "DbIndexOrder"
            exp_cache = not (self.info["require_own"] or self.info["carry_subtree"])
            self.ob("variant", "child-edge order: extracted variant "
                               f"({self.info['child_order']}) agrees with the behaviour observed on the real transfers",
                    (K_REORDER in seen_keys) == exp_reorder or (exp_reorder and not self.reorder_possible(outs)),
                    f"translator says {self.info['child_order']}, oracle {'saw' if K_REORDER in seen_keys else 'did not see'} reordered children")
            self.ob("variant", f"shallow cache: extracted variant (require_own={self.info['require_own']}) agrees with the "
                               "behaviour observed on the real transfers",
                    ((K_CACHE in seen_keys) or (K_E2E in seen_keys)) == exp_cache,
                    f"translator says require_own={self.info['require_own']}, oracle findings {sorted(seen_keys)}")

    @staticmethod
    def reorder_possible(outs):
        """Is there a transferred call node whose call order differs from hash order?"""
        for out in outs:
            for rec in out["steps"]:
                src, _ = bundle(rec["src"])
                for e in src.values():
                    if e[0] == "call":
                        cs = [c for _, c in e[6]]
                        if cs != sorted(cs):
                            return True
        return False

    def replay(self, doc):
        r = doc.get("replay", {})
        if "spec" not in r:
            print("replay: nothing to replay (no failing input was found); broken obligations:",
                  json.dumps(doc.get("broken_obligations", []))[:2000])
            return 1
        out, err = run_driver(r["spec"])
        if out is None:
            print("replay: driver failed:", err)
            return 1
        found = self.judge(out)
        same = [f for f in found if f[0] == r.get("key")]
        for key, what, _ in (same or found)[:5]:
            print("replay:", key, "--", what)
        if not found:
            print("replay: property holds on this scenario now")
        if r.get("key"):
            return 1 if same else 0
        return 1 if found else 0
