"""C20 — Recorded call graphs are a consistent Merkle record of the run."""
from __future__ import annotations

import json
import os
import random
import shutil
import tempfile

from harness.lib import GEN, VERIF, Finding, PropertyCheck, TranslateError, run_bool_cases
from harness.props import c20_lib as L
from translate import astutil, tr_callgraph

PINS_FILE = VERIF / "translate" / "pins_C20.json"

# ---------------------------------------------------------------- fixed programs (witnesses of the Coq theorems)
_LF = ("L", "list", 0, (("a", "leaf", 1, (), None), ("b", "raise", "boom", (), None)), None)
# C20_failed_twin_refuted: the failing call L (with children) twice, each under its own catch
W_TWIN = ("root", "list", 0, (("c1", "catch", 0, (_LF,), None), ("c2", "catch", 1, (_LF,), None)), None)
# C20_tags_twice_refuted: the task-option tag and an applied job tag name the same pair
W_TAGS = ("t", "tagv", (("job_tags", (("env", "dev"),)), ("value", 3)), (), {"tags": (("env", "dev"),)})
W_TAGS2 = ("t", "tagv", (("job_tags", (("tier", "gold"),)), ("value", 3)), (), {"task": "tnode"})
# C20_unguarded_twin_refuted (repaired in /repo): the same call with and without provenance, then once more
_A = ("a", "leaf", 7, (), None)
W_NOPROV_TWIN = ("root", "list", 0, (_A, ("P", "list", 1, (_A,), {"prov": False}), ("Q", "list", 2, (_A,), None),
                                     ("a", "leaf", 7, (), {"prov": False})), None)
# prov=False subtree below a provenance job, a failing prov=False child, tags inside it
W_NOPROV_TREE = ("root", "list", 0, (("P", "list", 1, (("x", "leaf", 1, (), None), ("f", "raise", "boom", (), None)), {"prov": False}),
                                     ("c", "catch", 0, (("f2", "raise", "boom", (), {"prov": False}),), None),
                                     ("t", "tagv", (("tags", (("n", 1),)), ("value", 3)), (), {"prov": False})), None)
# pickle identity: the same structured value from a fresh call and from a duplicate
_V = ("t2", "val", ("L", (("L", (("F", "/nonexistent/rv_a"),)), "x")), (), None)
W_PICKLE = ("n6", "list", 0, (_V, ("g6", "tagc", (("tags", (("n", 1),)),), (_V,), None)), None)
# the same call twice under ONE parent through two different expressions (a and a-via-ident), the first still pending
# when the second becomes ready (schedule twin_first_pending): both must stay in the parent's child list
W_SAMEPARENT = ("root", "list", 0, (_A, ("a", "leaf", 7, (), {"via": True}), ("b", "leaf", 5, (), None),
                                    ("a", "leaf", 7, (), {"via": True, "tags": (("n", 1),)})), None)
FIXED = [("same-parent-twin", W_SAMEPARENT), ("failed-twin", W_TWIN), ("tags-twice", W_TAGS), ("tags-twice-task", W_TAGS2), ("noprov-twin", W_NOPROV_TWIN),
         ("noprov-tree", W_NOPROV_TREE), ("pickle", W_PICKLE)]


def probe_tags_dedupe() -> bool:
    """Does record_tags tolerate one pair listed twice in one call? (C24's subject; decided behaviourally.)"""
    from redun.backends.base import TagEntity
    from redun.backends.db import RedunBackendDb
    import logging
    lg = logging.getLogger("rv_c20_null")
    lg.addHandler(logging.NullHandler())
    lg.propagate = False
    b = RedunBackendDb(db_uri="sqlite:///:memory:", logger=lg)
    b.load()
    try:
        b.record_tags(TagEntity.Job, "rv-probe-job", [("k", 1), ("k", 1)])
        n = len([1 for _ in b.session.execute(__import__("sqlalchemy").text("select * from tag where entity_id='rv-probe-job'"))])
        return n == 1
    except Exception:
        return False
    finally:
        try:
            b.session.close()
            b.engine.dispose()
        except Exception:
            pass


def twin_first_pending(held):
    """Schedule for the same-parent-twin witness: finish ident(...) jobs first, the twinned call 'a' last, so that
    the second call of 'a' becomes ready while the first is still pending (it is then collapsed into it)."""
    def rank(job):
        if job.task.name == "ident":
            return 0
        try:
            return 2 if job.args[0][0][0] == "a" else 1
        except Exception:
            return 1
    return min(range(len(held)), key=lambda i: rank(held[i]))


CHOOSERS = {"same-parent-twin": twin_first_pending}
_TEMPLATE = {}


def fresh_db(path):
    """An empty migrated database (migrated once per process, then copied)."""
    if "path" not in _TEMPLATE or not os.path.exists(_TEMPLATE["path"]):
        import logging
        from redun.backends.db import RedunBackendDb
        d = tempfile.mkdtemp(prefix="rv_c20_tmpl_")
        p = os.path.join(d, "t.db")
        lg = logging.getLogger("rv_c20_null")
        lg.addHandler(logging.NullHandler())
        lg.propagate = False
        b = RedunBackendDb(db_uri=f"sqlite:///{p}", logger=lg)
        b.load()
        b.session.close()
        b.engine.dispose()
        _TEMPLATE["path"], _TEMPLATE["dir"] = p, d
    shutil.copyfile(_TEMPLATE["path"], path)


def drop_template():
    if "dir" in _TEMPLATE:
        shutil.rmtree(_TEMPLATE["dir"], ignore_errors=True)
        _TEMPLATE.clear()


def one_db(specs, rng, workdir, keep=False, kind=None):
    """Executions of specs[0], specs[1], ... on one fresh sqlite file. Returns (runs, dump, registry)."""
    d = tempfile.mkdtemp(prefix="c20_", dir=workdir)
    cwd = os.getcwd()
    os.chdir(d)
    try:
        db = os.path.join(d, "r.db")
        fresh_db(db)
        runs = []
        for k, sp in enumerate(specs):
            kw = dict(complete_prob=0.0, chooser=CHOOSERS[kind]) if kind in CHOOSERS else \
                dict(complete_prob=rng.choice([0.1, 0.3, 0.7]))
            runs.append(L.run20(sp, rng, db, tags=[("run", k + 1)], **kw))
        dump = L.dump_db(db)
        reg = runs[-1]["scheduler"].type_registry
        return runs, dump, reg
    finally:
        os.chdir(cwd)
        if not keep:
            shutil.rmtree(d, ignore_errors=True)


class Check(PropertyCheck):
    id = "C20"
    module = "Props.C20"
    extra_modules = ["Base.Lit"]
    theorems = ["C20_call_hash_merkle", "C20_nodes_merkle", "C20_edges_at_first_recording", "C20_edges_positions",
                "C20_edges_stable", "C20_job_rows_fk", "C20_rows_mirror_run", "C20_tags_complete",
                "C20_noprov_records_nothing", "C20_noprov_hash", "C20_tags_twice_refuted", "C20_failed_twin_refuted",
                "C20_never_dies_fixed", "C20_failed_twin_fixed", "C20_witnesses_fixed", "C20_unguarded_twin_refuted",
                "C20_nonvacuous"]
    allowed_axioms = []
    section_premises = ["H (SHA-512 truncated to 40 hex digits) is injective on the pre-images that occur "
                        "(collision resistance) — hypothesis H_inj of C20_call_hash_merkle"]
    assumptions = [
        "SQLite enforces primary and foreign keys (PRAGMA foreign_keys=ON, as RedunBackendDb sets it); a violating flush raises IntegrityError, which nothing in the scheduler catches",
        "Task.hash and TypeRegistry.get_hash of argument/result values are inputs here (C17, C16); ErrorValue rows are checked at their recorded key only (a traceback cannot be re-hashed outside the run)",
        "the event list (which job adopts which hash, which children carry a hash when the parent finishes) is observed, not derived: whether a job is a cache hit is C01/C06's subject",
        "completed recordings only: transient database errors and interrupted recordings are C22",
        "NOT proved in Coq: record_value / subvalues (value key = hash of the deserialised value) and argument rows; both are decided on the implementation by the oracle",
    ]
    rule = ("structured random programs over harness/progs/vm_c20.py (twins under several parents and under ONE parent through different expressions (argument computed by ident()), failing leaves, catch/seq, "
            "cache_scope NONE/CSE, prov=False calls and subtrees, shallow-validity tasks, contexts, apply_tags on values / call "
            "results / job / execution, job-option and task-level tags, structured values with File subvalues), two executions "
            "per sqlite file (the second the same program or one sharing subtrees: cached replays), seeded completion schedules "
            "on the real Scheduler; plus 7 fixed witness programs (one with a forced schedule: same-parent twins, first still pending); non-trivial = >= 3 jobs in the file")
    cfgd = None
    tags_dedupe = None

    # ------------------------------------------------------------------
    def translate(self):
        pins = json.loads(PINS_FILE.read_text())
        try:
            self.cfgd, _ = tr_callgraph.translate(pins=pins)
        except astutil.TranslateError as e:
            raise TranslateError(str(e))
        self.tags_dedupe = probe_tags_dedupe()
        GEN.mkdir(exist_ok=True)
        p = GEN / "C20Gen.v"
        p.write_text(tr_callgraph.emit(self.cfgd, self.tags_dedupe))
        return [p]

    # ------------------------------------------------------------------
    def programs(self):
        rng = self.rng
        n = 32 if self.tier == "quick" else 600
        progs = [(name, [sp, sp]) for name, sp in FIXED]
        corpus = VERIF / "corpus" / "C20.jsonl"
        if corpus.exists():
            for line in corpus.read_text().splitlines():
                if line.strip():
                    d = json.loads(line)
                    progs.append(("corpus", [eval(s) for s in d["specs"]]))
        for i in range(n):
            pool = []
            sp = L.gen_spec20(rng, depth=rng.randint(1, 3), pool=pool)
            sp2 = sp if rng.random() < 0.5 else L.gen_spec20(rng, depth=rng.randint(1, 3), pool=pool)
            progs.append(("random", [sp, sp2]))
        return progs

    def correspond(self):
        self.work = tempfile.mkdtemp(prefix="rv_c20_")
        self.cases = []
        terms = []
        try:
            for name, specs in self.programs():
                rng = random.Random(self.rng.random())
                runs, dump, reg = one_db(specs, rng, self.work, kind=name)
                bad = L.check_db(runs, dump, reg)
                term, st = L.model_case(runs, dump)
                self.cases.append({"kind": name, "specs": [repr(s) for s in specs], "bad": bad, "stats": st})
                terms.append(term)
                njobs = sum(len(r["obs"].jobs) for r in runs)
                self.count(repr(specs) if njobs >= 3 else None)
                self.stat("program_kind", name)
                self.stat("jobs_per_file", min(njobs // 5 * 5, 40))
                self.stat("nodes_per_file", min(st["nodes"] // 5 * 5, 40))
                for r in runs:
                    self.stat("outcome", "deadlock" if "deadlock" in r else "error:" + r["error"][0] if "error" in r else "value")
                    for o in r["obs"].jobs.values():
                        self.stat("job_kind", ("noprov " if not o.prov else "") + (
                            "unfinished" if o.fin is None else
                            ("replayed " if o.known_at_entry else "cached-reeval " if o.was_cached else "executed ") + o.fin))
                self.stat("tags_per_file", min(st["tags"] // 4 * 4, 24))
                self.sample({"specs": [repr(s)[:200] for s in specs], **st}, 3)
        finally:
            shutil.rmtree(self.work, ignore_errors=True)
            drop_template()
        if self.cfgd is None:
            self.ob("correspondence", "model vs database (skipped: translator failed)", False, "no configuration")
            return
        ok, failing, diags = run_bool_cases("C20", ["Base.Lit", "Model.CallGraph", "Gen.C20Gen"], "", terms, chunk=6)
        detail = "\n".join(diags) + "".join(f"\nmismatch on {self.cases[i]['kind']} program {self.cases[i]['specs']}"
                                            for i in failing[:5])
        self.failing = failing
        self.ob("correspondence",
                f"the recording machine run on the observed events with the configuration extracted from the source yields "
                f"exactly the call_node / call_edge / job / execution / tag tables of the real database (and dies when the "
                f"scheduler died), real SHA-512 digests, on {len(terms)} database files", ok and not failing, detail)

    # ------------------------------------------------------------------
    def oracle(self):
        seen = {}
        n = 0
        for c in getattr(self, "cases", []):
            n += 1
            for key, what in c["bad"]:
                seen.setdefault(key, []).append((what, c))
        for key, lst in seen.items():
            what, c = lst[0]
            self.findings.append(Finding(key, what + f" [{len(lst)} occurrence(s)]",
                                         {"kind": c["kind"], "specs": c["specs"], "key": key}))
        self.evaluations += n
        self.stat("oracle", "database_files", n)
        for k, lst in seen.items():
            self.stat("oracle_findings", k, len(lst))
        self.ob("oracle", f"implementation oracle ran on {n} database files (independent SHA-512/bencode re-computation of every "
                          f"call hash and tag hash; edges vs finished children; job/execution rows vs observed job tree; value keys; "
                          f"tags vs the program's apply_tags / tags options, both directions)", n > 0)
        # the variant the translator / probe found must show on the real code (tie by witness)
        if self.cfgd is not None:
            if not self.cfgd["reject_adopts"] and "twin:failed-duplicate-rerecorded" not in seen:
                self.ob("tie-witness", "C20_failed_twin_refuted reproduces on the real code", False,
                        "translator says the reject path re-records, but the failing-twin program recorded one node")
            if self.cfgd["reject_adopts"] and "twin:failed-duplicate-rerecorded" in seen:
                self.ob("tie-witness", "repaired reject path: no duplicate node for a failed twin", False, "still re-recorded")
            if not self.tags_dedupe and "crash:tags:same-pair-twice-in-one-job" not in seen:
                self.ob("tie-witness", "C20_tags_twice_refuted reproduces on the real code", False,
                        "record_tags probe raised, but the tags-twice program did not die")

    # ------------------------------------------------------------------
    def replay(self, doc):
        r = doc.get("replay", {})
        if "specs" in r:
            specs = [eval(s) for s in r["specs"]]
            work = tempfile.mkdtemp(prefix="rv_c20r_")
            try:
                for sd in range(12):
                    runs, dump, reg = one_db(specs, random.Random(sd), work, kind=r.get("kind"))
                    bad = L.check_db(runs, dump, reg)
                    from harness.lib import load_known_findings
                    known = {k["key"] for k in load_known_findings() if k.get("property") == "C20"}
                    hit = [b for b in bad if b[0] == r.get("key")] or [b for b in bad if b[0] not in known]
                    if hit:
                        print("replay: still fails (schedule seed %d): %s: %s" % (sd, hit[0][0], hit[0][1]))
                        return 1
                print("replay: holds in 12 schedules")
                return 0
            finally:
                shutil.rmtree(work, ignore_errors=True)
        print("replay: nothing to replay (no failing input was found); broken obligations:",
              json.dumps(doc.get("broken_obligations", []))[:3000])
        return 1
