"""C02 helper library: the generated program family (task bodies that can be edited between
executions, input files that can be rewritten), its rendering as Coq terms of Model/CacheHist.v,
its compilation to real redun tasks, a Python mirror of the model's evaluator (used only to steer
generation: racy-error detection and root-cause classification, never as evidence), and the
driver that runs a history on a real sqlite backend.

Representations (mirrors of the Coq types)
  proj : tuple of 0/1 applied to the argument from the left: (1, 0) is x[1][0]
  tm   : ("proj", proj) | ("num", n) | ("file", p) | ("read", proj) | ("pair", a, b) | ("call", t, a)
         | ("get", i, a) | ("catch", e, r)
  imm  : ("num", n) | ("proj", proj) | ("read", proj)
  body : (guard | None, tm)   guard = (imm, n, errid)
  prog : {(t, codeid): body}  (missing: the default body  return x)
  op   : ("run", tm) | ("edit", t, c) | ("bump", t, c) | ("revert", t, k) | ("rewrite", p, s)
  val  : ("num", n) | ("err", x) | ("file", p, s) | ("pair", a, b)
  expr : ("val", v) | ("call", t, a) | ("pair", a, b) | ("get", i, a) | ("catch", e, r, c)
"""
from __future__ import annotations

import logging
import os
import shutil
import tempfile

TYPEERR = 0
NSNAME = "c02p"
MTIME_BASE = 1_600_000_000

# ============================================================================ Coq rendering
def cq_proj(p):
    s = "PArg"
    for i in p:
        s = f"({'PSnd' if i else 'PFst'} {s})"
    return s


def cq_tm(t):
    k = t[0]
    if k == "proj":
        return f"(TProj {cq_proj(t[1])})"
    if k == "num":
        return f"(TNum {t[1]})"
    if k == "file":
        return f"(TFile {t[1]})"
    if k == "read":
        return f"(TRead {cq_proj(t[1])})"
    if k == "pair":
        return f"(TPair {cq_tm(t[1])} {cq_tm(t[2])})"
    if k == "call":
        return f"(TCall {t[1]} {cq_tm(t[2])})"
    if k == "get":
        return f"(TGet {'true' if t[1] else 'false'} {cq_tm(t[2])})"
    if k == "catch":
        return f"(TCatch {cq_tm(t[1])} {t[2]})"
    raise ValueError(t)


def cq_imm(i):
    if i[0] == "num":
        return f"(INum {i[1]})"
    return f"({'IProj' if i[0] == 'proj' else 'IRead'} {cq_proj(i[1])})"


def cq_body(b):
    g, t = b
    gs = "None" if g is None else f"(Some ({cq_imm(g[0])}, {g[1]}, {g[2]}))"
    return f"(mkBody {gs} {cq_tm(t)})"


def cq_prog(prog):
    return "(table_prog [" + "; ".join(f"({t}, {c}, {cq_body(b)})" for (t, c), b in sorted(prog.items())) + "])"


def cq_op(o):
    k = o[0]
    if k == "run":
        return f"Run {cq_tm(o[1])}"
    return {"edit": "EditBody", "bump": "BumpVersion", "revert": "Revert", "rewrite": "RewriteFile"}[k] + f" {o[1]} {o[2]}"


def cq_ops(ops):
    return "[" + "; ".join(cq_op(o) for o in ops) + "]"


def cq_val(v):
    k = v[0]
    if k == "num":
        return f"(VNum {v[1]})"
    if k == "err":
        return f"(VErr {v[1]})"
    if k == "file":
        return f"(VFile {v[1]} {v[2]})"
    return f"(VPair {cq_val(v[1])} {cq_val(v[2])})"


def cq_res(r):
    return f"(Ok {cq_val(r[1])})" if r[0] == "ok" else f"(Err {r[1]})"


def cq_out(out):
    r, log = out
    return f"({cq_res(r)}, [" + "; ".join(f"({t}, {c}, {cq_val(v)})" for t, c, v in log) + "])"


# ============================================================================ Python mirror of the model
DEFAULT_BODY = (None, ("proj", ()))


def get_proj(p, a):
    for i in p:
        if a[0] != "pair":
            return None
        a = a[1 + i]
    return a


class Mirror:
    """Mirror of Model/CacheHist.v eval (no fuel: the generated call graph is acyclic).
    `hazard` is set when an error propagates through a tuple whose other component contains lazy
    work: on the real scheduler the two components are evaluated concurrently, so which error
    surfaces / what has been recorded by then depends on the schedule."""

    def __init__(self, prog, proj_valid, catch_cache):
        self.prog, self.pv, self.cc = prog, proj_valid, catch_cache
        self.codes = {}
        self.disk = {}
        self.cache = {}

    def env(self, t):
        return self.codes.get(t, [0])[0] if self.codes.get(t) else 0

    def d(self, p):
        return self.disk.get(p, 0)

    # ---- language
    def eval_tm(self, arg, t):
        k = t[0]
        if k == "proj":
            v = get_proj(t[1], arg)
            return None if v is None else ("val", v)
        if k == "num":
            return ("val", ("num", t[1]))
        if k == "file":
            return ("val", ("file", t[1], self.d(t[1])))
        if k == "read":
            v = get_proj(t[1], arg)
            if v is None or v[0] != "file":
                return None
            return ("val", ("num", self.d(v[1])))
        if k == "pair":
            a, b = self.eval_tm(arg, t[1]), self.eval_tm(arg, t[2])
            if a is None or b is None:
                return None
            if a[0] == "val" and b[0] == "val":
                return ("val", ("pair", a[1], b[1]))
            return ("pair", a, b)
        if k == "call":
            a = self.eval_tm(arg, t[2])
            return None if a is None else ("call", t[1], a)
        if k == "get":
            a = self.eval_tm(arg, t[2])
            if a is None or a[0] in ("val", "pair"):
                return None
            return ("get", t[1], a)
        if k == "catch":
            a = self.eval_tm(arg, t[1])
            return None if a is None else ("catch", a, t[2], self.env(t[2]))
        raise ValueError(t)

    def eval_imm(self, arg, i):
        if i[0] == "num":
            return ("num", i[1])
        v = get_proj(i[1], arg)
        if i[0] == "proj":
            return v
        if v is None or v[0] != "file":
            return None
        return ("num", self.d(v[1]))

    def sem(self, t, c, a):
        g, ret = self.prog.get((t, c), DEFAULT_BODY)
        if g is not None:
            v = self.eval_imm(a, g[0])
            if v is None:
                return ("raise", TYPEERR)
            if v == ("num", g[1]):
                return ("raise", g[2])
        r = self.eval_tm(a, ret)
        return ("raise", TYPEERR) if r is None else ("ret", r)

    # ---- validity
    def cur_val(self, v):
        if v[0] == "file":
            return self.d(v[1]) == v[2]
        if v[0] == "pair":
            return self.cur_val(v[1]) and self.cur_val(v[2])
        return True

    def valid(self, e):
        k = e[0]
        if k == "val":
            return self.cur_val(e[1])
        if k == "call":
            return self.valid(e[2])
        if k == "pair":
            return self.valid(e[1]) and self.valid(e[2])
        if k == "get":
            return self.valid(e[2]) if self.pv else True
        return self.valid(e[1]) and (e[3] % 2 == 1 or self.env(e[2]) == e[3])

    @staticmethod
    def lazy(e):
        k = e[0]
        if k == "val":
            return False
        if k == "pair":
            return Mirror.lazy(e[1]) or Mirror.lazy(e[2])
        return True

    # ---- evaluation
    def eval(self, e):
        k = e[0]
        if k == "val":
            return ("ok", e[1])
        if k == "pair":
            ra = self.eval(e[1])
            if ra[0] != "ok":
                if self.lazy(e[2]):
                    self.hazard = True
                return ra
            rb = self.eval(e[2])
            if rb[0] != "ok":
                if self.lazy(e[1]):
                    self.hazard = True
                return rb
            return ("ok", ("pair", ra[1], rb[1]))
        if k == "get":
            r = self.eval(e[2])
            if r[0] != "ok":
                return r
            if r[1][0] != "pair":
                return ("err", TYPEERR)
            return ("ok", r[1][1 + (1 if e[1] else 0)])
        if k == "call":
            r = self.eval(e[2])
            if r[0] != "ok":
                return r
            t, va = e[1], r[1]
            c = self.env(t)
            key = ("T", t, c, va)
            row = self.cache.get(key)
            if row is not None and self.valid(row):
                self.hits += 1
                return self.eval(row)
            if row is not None:
                self.invalid += 1
            self.log.append((t, c, va))
            o = self.sem(t, c, va)
            if o[0] == "raise":
                return ("err", o[1])
            self.cache[key] = o[1]
            return self.eval(o[1])
        if k == "catch":
            e0, r = e[1], e[2]
            key = ("C", e0, r, e[3])

            def recover(x):
                if x == TYPEERR:
                    return ("err", x)
                re = ("call", r, ("val", ("err", x)))
                self.recovers += 1
                res = self.eval(re)
                if res[0] == "ok" and self.cc:
                    self.cache[key] = re
                return res
            ce = self.cache.get(key) if self.cc else None
            if ce is not None:
                if ce != e0:
                    self.catch_replays += 1
                res = self.eval(ce)
                return recover(res[1]) if res[0] == "err" else res
            res = self.eval(e0)
            if res[0] == "ok":
                if self.cc:
                    self.cache[key] = e0
                return res
            return recover(res[1])
        raise ValueError(e)

    # ---- histories
    def step(self, o, fresh=False):
        k = o[0]
        if k == "run":
            saved = self.cache
            if fresh:
                self.cache = {}
            self.log, self.hazard, self.hits, self.invalid, self.recovers, self.catch_replays = [], False, 0, 0, 0, 0
            e = self.eval_tm(("num", 0), o[1])
            res = ("err", TYPEERR) if e is None else self.eval(e)
            info = dict(hazard=self.hazard, hits=self.hits, invalid=self.invalid, recovers=self.recovers,
                        catch_replays=self.catch_replays)
            if fresh:
                self.cache = saved
            return (res, list(self.log)), info
        if k in ("edit", "bump"):
            c = 2 * o[2] + (1 if k == "bump" else 0)
            self.codes[o[1]] = [c] + self.codes.get(o[1], [0])
        elif k == "revert":
            l = self.codes.get(o[1], [0])
            c = l[o[2]] if o[2] < len(l) else self.env(o[1])
            self.codes[o[1]] = [c] + l
        elif k == "rewrite":
            self.disk[o[1]] = o[2]
        return None, None


def mirror_hist(prog, ops, proj_valid, catch_cache, fresh=False):
    """[(outcome, info)] for the runs of the history; fresh=True: every run against an empty cache."""
    m = Mirror(prog, proj_valid, catch_cache)
    out = []
    for o in ops:
        r, info = m.step(o, fresh=fresh)
        if r is not None:
            out.append((r, info))
    return out


# ============================================================================ generator
# types: "N" number (or caught error), "F" file, ("P", a, b) tuple
TYPES_ARG = ["N", "F", ("P", "N", "F"), ("P", "N", "N")]
TYPES_RES = ["N", "N", ("P", "N", "N"), "F"]


def projs_of(ty, want, pre=()):
    out = []
    if ty == want:
        out.append(pre)
    if isinstance(ty, tuple):
        out += projs_of(ty[1], want, pre + (0,)) + projs_of(ty[2], want, pre + (1,))
    return out


class Family:
    """A program family: task signatures fixed for the whole history, bodies generated per code."""

    def __init__(self, rng, ntasks=5, npaths=2):
        self.rng, self.ntasks, self.npaths = rng, ntasks, npaths
        self.argty = [rng.choice(TYPES_ARG) for _ in range(ntasks)]
        self.resty = [rng.choice(TYPES_RES) for _ in range(ntasks)]
        # make sure there are recover tasks (N -> N) and readers (takes a file) late in the order
        self.argty[ntasks - 1], self.resty[ntasks - 1] = "N", "N"
        self.argty[ntasks - 2], self.resty[ntasks - 2] = rng.choice(["F", ("P", "N", "F")]), rng.choice(["N", ("P", "N", "N")])
        self.prog = {}

    def gen_tm(self, ty, argty, t, depth, lazy_only=False):
        """a tm of type ty inside the body of task t (calls only tasks > t)."""
        rng = self.rng
        opts = []
        callees = [u for u in range(t + 1, self.ntasks) if self.resty[u] == ty]
        if depth > 0:
            for u in callees:
                opts += [("callto", u)] * 3
            pair_callees = [u for u in range(t + 1, self.ntasks) if self.resty[u] == ("P", ty, ty)
                            or (isinstance(self.resty[u], tuple) and ty in self.resty[u][1:])]
            for u in pair_callees:
                opts += [("getof", u)] * 2
            recs = [r for r in range(t + 1, self.ntasks) if self.argty[r] == "N" and self.resty[r] == ty]
            if recs:
                opts += [("catch", r) for r in recs] * 2
        if not lazy_only:
            for p in projs_of(argty, ty):
                opts.append(("proj", p))
            if ty == "N":
                opts.append(("num",))
                for p in projs_of(argty, "F"):
                    opts += [("read", p)] * 2
            if ty == "F":
                opts.append(("file",))
            if isinstance(ty, tuple):
                opts += [("pair",)] * 2
        if not opts:
            if lazy_only:
                return None
            # no way to build it lazily at this depth: immediate fallback
            if ty == "N":
                return ("num", rng.randrange(4))
            if ty == "F":
                return ("file", rng.randrange(self.npaths))
            return ("pair", self.gen_tm(ty[1], argty, t, 0), self.gen_tm(ty[2], argty, t, 0))
        o = rng.choice(opts)
        if o[0] == "callto":
            return ("call", o[1], self.gen_tm(self.argty[o[1]], argty, t, depth - 1))
        if o[0] == "getof":
            u = o[1]
            idx = [i for i in (0, 1) if self.resty[u][1 + i] == ty]
            return ("get", rng.choice(idx), ("call", u, self.gen_tm(self.argty[u], argty, t, depth - 1)))
        if o[0] == "catch":
            return ("catch", self.gen_tm(ty, argty, t, depth - 1), o[1])
        if o[0] == "proj":
            return ("proj", o[1])
        if o[0] == "num":
            return ("num", rng.randrange(4))
        if o[0] == "read":
            return ("read", o[1])
        if o[0] == "file":
            return ("file", rng.randrange(self.npaths))
        return ("pair", self.gen_tm(ty[1], argty, t, depth), self.gen_tm(ty[2], argty, t, depth))

    def gen_body(self, t):
        rng = self.rng
        argty = self.argty[t]
        guard = None
        if rng.random() < 0.3:
            cands = [("proj", p) for p in projs_of(argty, "N")] + [("read", p) for p in projs_of(argty, "F")] * 2
            if cands:
                guard = (rng.choice(cands), rng.randrange(4), rng.randrange(1, 4))
            elif rng.random() < 0.3:
                guard = (("num", 1), 1, rng.randrange(1, 4))
        return (guard, self.gen_tm(self.resty[t], argty, t, 2))

    def gen_root(self):
        ty = self.rng.choice(["N", ("P", "N", "N")])
        for _ in range(20):
            r = self.gen_tm(ty, "N", -1, 3)
            if Mirror.lazy(Mirror({}, True, False).eval_tm(("num", 0), r) or ("val", 0)):
                return r
        return r

    def gen_history(self, nruns):
        rng = self.rng
        for t in range(self.ntasks):
            self.prog[(t, 0)] = self.gen_body(t)
        ncode = {t: 0 for t in range(self.ntasks)}
        nedits = {t: 0 for t in range(self.ntasks)}
        stamp = 0
        roots = [self.gen_root()]
        ops = [("run", roots[0])]
        for _ in range(nruns - 1):
            for _ in range(rng.choice([1, 1, 2, 3])):
                k = rng.choice(["edit", "edit", "bump", "revert", "revert", "rewrite", "rewrite", "root", "none"])
                t = rng.randrange(self.ntasks)
                if k in ("edit", "bump"):
                    if rng.random() < 0.25 and ncode[t] > 0:
                        c = rng.randrange(ncode[t] + 1)     # reuse an earlier code id
                    else:
                        ncode[t] += 1
                        c = ncode[t]
                    cid = 2 * c + (1 if k == "bump" else 0)
                    if (t, cid) not in self.prog:
                        self.prog[(t, cid)] = self.gen_body(t) if rng.random() < 0.8 else self.prog[(t, 0)]
                    nedits[t] += 1
                    ops.append((k, t, c))
                elif k == "revert":
                    if nedits[t] == 0:
                        continue
                    nedits[t] += 1
                    ops.append(("revert", t, rng.randrange(1, 3)))
                elif k == "rewrite":
                    if rng.random() < 0.2 and stamp > 0:
                        s = rng.randrange(stamp + 1)        # the same content and mtime as an earlier state
                    else:
                        stamp += 1
                        s = stamp
                    ops.append(("rewrite", rng.randrange(self.npaths), s))
                elif k == "root":
                    roots.append(self.gen_root())
            ops.append(("run", rng.choice(roots) if rng.random() < 0.85 else roots[0]))
        return dict(prog=dict(self.prog), ops=ops, ntasks=self.ntasks, npaths=self.npaths)


# ============================================================================ compiling to redun
def py_proj(p):
    return "x" + "".join(f"[{i}]" for i in p)


def py_tm(t):
    k = t[0]
    if k == "proj":
        return py_proj(t[1])
    if k == "num":
        return str(t[1])
    if k == "file":
        return f"RT.file({t[1]})"
    if k == "read":
        return f"RT.read({py_proj(t[1])})"
    if k == "pair":
        return f"({py_tm(t[1])}, {py_tm(t[2])})"
    if k == "call":
        return f"RT.task({t[1]})({py_tm(t[2])})"
    if k == "get":
        assert t[2][0] in ("call", "get", "catch"), "x[i] on an immediate value is outside the family"
        return f"{py_tm(t[2])}[{1 if t[1] else 0}]"
    if k == "catch":
        return f"catch({py_tm(t[1])}, PErr, RT.task({t[2]}))"
    raise ValueError(t)


def py_imm(i):
    if i[0] == "num":
        return str(i[1])
    return py_proj(i[1]) if i[0] == "proj" else f"RT.read({py_proj(i[1])})"


def py_source(t, codeid, body):
    g, ret = body
    lines = [f"def t{t}(x):", f"    _code = {codeid}", f"    RT.log({t}, {codeid}, x)"]
    if g is not None:
        lines.append(f"    if RT.eq({py_imm(g[0])}, {g[1]}): raise err({g[2]})")
    lines.append(f"    return {py_tm(ret)}")
    return "\n".join(lines) + "\n"


class _RT:
    """Runtime the generated bodies talk to (one world at a time)."""
    world = None

    def log(self, t, c, x):
        self.world.calls.append((t, c, self.world.enc(x)))

    def file(self, p):
        from redun import File
        return File(self.world.path(p))

    def read(self, f):
        return int(f.read())

    def eq(self, v, n):
        return isinstance(v, int) and not isinstance(v, bool) and v == n

    def task(self, t):
        return self.world.tasks[t]


RT = _RT()
_TEMPLATE = {}
TEMPLATE_BASE = None


def quiet():
    logging.getLogger("redun").setLevel(logging.CRITICAL)


def template_db():
    if "path" not in _TEMPLATE:
        from redun import Scheduler
        from redun.config import Config
        if TEMPLATE_BASE:          # a directory owned (and removed) by the parent process
            d = None
            p = os.path.join(TEMPLATE_BASE, f"t_{os.getpid()}.db")
        else:
            d = tempfile.mkdtemp(prefix="rv_c02tmpl_")
            p = os.path.join(d, "t.db")
        s = Scheduler(config=Config({"backend": {"db_uri": f"sqlite:///{p}"}}))
        s.logger.disabled = True
        s.load()
        close_sched(s)
        _TEMPLATE["path"], _TEMPLATE["dir"] = p, d
    return _TEMPLATE["path"]


def cleanup_template():
    if _TEMPLATE.get("dir"):
        shutil.rmtree(_TEMPLATE["dir"], ignore_errors=True)
    _TEMPLATE.clear()


def close_sched(s):
    try:
        s.backend.session.close()
        s.backend.engine.dispose()
    except Exception:  # noqa
        pass


class World:
    """The real thing: task definitions (re-defined on edits), files on disk, sqlite backends."""

    def __init__(self, case, workdir):
        self.prog, self.ntasks, self.npaths = case["prog"], case["ntasks"], case["npaths"]
        self.dir = workdir
        os.makedirs(workdir, exist_ok=True)
        self.codes = {t: [0] for t in range(self.ntasks)}
        self.tasks = {}
        self.calls = []
        self.filehash = {}
        self.ndb = 0
        for p in range(self.npaths):
            self.rewrite(p, 0)
        for t in range(self.ntasks):
            self.define(t, 0)
        self.shared = self.new_db()

    def path(self, p):
        return os.path.join(self.dir, f"in{p}.txt")

    def rewrite(self, p, s):
        from redun import File
        with open(self.path(p), "w") as f:
            f.write(str(s))
        os.utime(self.path(p), (MTIME_BASE + s, MTIME_BASE + s))
        self.filehash[File(self.path(p)).hash] = (p, s)

    def define(self, t, codeid):
        from redun import task
        from redun.scheduler import catch
        from harness.progs.c02_errs import PErr, err
        body = self.prog.get((t, codeid), DEFAULT_BODY)
        src = py_source(t, codeid, body)
        ns = {"RT": RT, "catch": catch, "PErr": PErr, "err": err, "__name__": __name__}
        exec(src, ns)
        if codeid % 2 == 0:
            self.tasks[t] = task(name=f"t{t}", namespace=NSNAME, source=src)(ns[f"t{t}"])
        else:
            self.tasks[t] = task(name=f"t{t}", namespace=NSNAME, version=f"v{codeid}", source=src)(ns[f"t{t}"])

    def enc(self, v):
        from redun import File
        from harness.progs.c02_errs import PErr
        if isinstance(v, bool):
            raise ValueError(v)
        if isinstance(v, int):
            return ("num", v)
        if isinstance(v, PErr):
            return ("err", v.code)
        if isinstance(v, File):
            p, s = self.filehash[v.hash]
            return ("file", p, s)
        if isinstance(v, (tuple, list)) and len(v) == 2:
            return ("pair", self.enc(v[0]), self.enc(v[1]))
        raise ValueError(f"unexpected value {v!r}")

    def new_db(self):
        self.ndb += 1
        dst = os.path.join(self.dir, f"b{self.ndb}.db")
        shutil.copyfile(template_db(), dst)
        return dst

    def build_root(self, root):
        from redun.scheduler import catch
        from harness.progs.c02_errs import PErr, err
        return eval(py_tm(root), {"RT": RT, "catch": catch, "PErr": PErr, "err": err, "x": 0})

    def run(self, root, db):
        """One execution of the root expression against the backend file `db`."""
        from redun import Scheduler
        from redun.config import Config
        from harness.progs.c02_errs import PErr
        RT.world = self
        self.calls = []
        s = Scheduler(config=Config({"backend": {"db_uri": f"sqlite:///{db}"}}))
        s.logger.disabled = True
        s.load()
        try:
            try:
                res = ("ok", self.enc(s.run(self.build_root(root))))
            except PErr as e:
                res = ("err", e.code)
            except Exception as e:  # noqa
                res = ("exc", f"{type(e).__name__}: {e}")
        finally:
            close_sched(s)
        return res, sorted(self.calls)

    def apply(self, o):
        k = o[0]
        if k in ("edit", "bump"):
            c = 2 * o[2] + (1 if k == "bump" else 0)
            self.codes[o[1]].insert(0, c)
            self.define(o[1], c)
        elif k == "revert":
            l = self.codes[o[1]]
            c = l[o[2]] if o[2] < len(l) else l[0]
            l.insert(0, c)
            self.define(o[1], c)
        elif k == "rewrite":
            self.rewrite(o[1], o[2])
        else:
            raise ValueError(o)


def run_history_real(case, workdir, with_fresh=True):
    """[(shared outcome, fresh outcome | None)] for the runs of the history on the real code.
    outcome = (("ok", val) | ("err", id) | ("exc", text), sorted executed calls)."""
    w = World(case, workdir)
    out = []
    for o in case["ops"]:
        if o[0] == "run":
            shared = w.run(o[1], w.shared)
            fresh = None
            if with_fresh:
                db = w.new_db()
                fresh = w.run(o[1], db)
                os.unlink(db)
            out.append((shared, fresh))
        else:
            w.apply(o)
    return out


# ---------------------------------------------------------------------------- (de)serialisation for replays
def to_json(case):
    return {"prog": [[list(k), v] for k, v in sorted(case["prog"].items())], "ops": case["ops"],
            "ntasks": case["ntasks"], "npaths": case["npaths"]}


def _tup(x):
    return tuple(_tup(y) for y in x) if isinstance(x, list) else x


def from_json(j):
    return {"prog": {tuple(k): _tup(v) for k, v in j["prog"]}, "ops": [_tup(o) for o in j["ops"]],
            "ntasks": j["ntasks"], "npaths": j["npaths"]}
