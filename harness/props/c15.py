"""C15 — Cache keys separate every distinct call and only those
(redun/task.py hash_args_eval, redun/scheduler.py get_arg_defaults, redun/hashing.py hash_eval)."""
from __future__ import annotations

import hashlib
import inspect
import json
import os
from unittest import mock

from harness.lib import (CORPUS, GEN, Finding, PropertyCheck, TranslateError, cq_bool, cq_bytes, cq_list, cq_opt,
                         run_bool_cases, scratch_dir)
from translate import astutil, tr_evalkey

PINS = json.loads((astutil.Path(__file__).resolve().parents[2] / "translate" / "pins_C15.json").read_text())["pins"]

# ------------------------------------------------------------------ known-finding classes (root cause : direction)
K_ZIP_COLLIDE = "hash_args_eval:zip(sig.parameters,args):extra-positional-paired-with-config-parameter:collision"
K_ZIP_LEAK = "hash_args_eval:zip(sig.parameters,args):config-*args-element-paired-with-non-config-parameter:leak"
K_DEFAULT = "get_arg_defaults:i<len(args):keyword-only-default-skipped-when-extra-positionals"
K_SHIFT = "hash_args_eval:positional-JobInfo-dropped:later-arguments-shift:collision"
K_EXTRA_INFO = "hash_args_eval:JobInfo-in-variadic-tail-beyond-len(sig.parameters)-is-hashed"
K_VARKW_LEAK = "hash_args_eval:kwargs-filter-uses-keyword-name:config-**kwargs-entry-leaks"
K_VARKW_COLLIDE = "hash_args_eval:kwargs-filter-uses-keyword-name:keyword-named-like-config-variadic-parameter:collision"

POK = inspect.Parameter.POSITIONAL_OR_KEYWORD
VARP = inspect.Parameter.VAR_POSITIONAL
KWO = inspect.Parameter.KEYWORD_ONLY
VARK = inspect.Parameter.VAR_KEYWORD


# ------------------------------------------------------------------ signatures and calls as plain data
class Info:
    """Stands for a JobInfo instance inside generated data (n distinguishes instances)."""

    def __init__(self, n=0):
        self.n = n

    def __repr__(self):
        return f"Info({self.n})"

    def __eq__(self, o):
        return isinstance(o, Info) and o.n == self.n

    def __hash__(self):
        return hash(("Info", self.n))


NODEFAULT = "<nodefault>"


class SigSpec:
    """pos: [(name, default|NODEFAULT)], var: name|None, kwonly: [(name, default|NODEFAULT)], varkw: name|None"""

    def __init__(self, pos, var, kwonly, varkw, conf):
        self.pos, self.var, self.kwonly, self.varkw, self.conf = pos, var, kwonly, varkw, list(conf)

    def source(self, fname="f"):
        parts = [n if d is NODEFAULT else f"{n}={d!r}" for n, d in self.pos]
        if self.var:
            parts.append("*" + self.var)
        elif self.kwonly:
            parts.append("*")
        parts += [n if d is NODEFAULT else f"{n}={d!r}" for n, d in self.kwonly]
        if self.varkw:
            parts.append("**" + self.varkw)
        return f"def {fname}({', '.join(parts)}):\n    return None\n"

    def names(self):
        return [n for n, _ in self.pos] + ([self.var] if self.var else []) + [n for n, _ in self.kwonly] + \
               ([self.varkw] if self.varkw else [])

    def to_json(self):
        return {"pos": self.pos, "var": self.var, "kwonly": self.kwonly, "varkw": self.varkw, "conf": self.conf}

    def __repr__(self):
        return self.source().splitlines()[0] + f"  config_args={self.conf}"


def real_value(v):
    from redun.scheduler import JobInfo
    if isinstance(v, Info):
        return JobInfo() if v.n == 0 else JobInfo(job_id=f"job{v.n}", execution_id="x" * v.n)
    return v


_task_counter = [0]


def make_task(spec: SigSpec, name=None, version=None):
    """A real redun Task with this signature (not registered). With `version` the task hash does not
    depend on the source (hence not on the signature)."""
    from redun.task import Task
    ns = {"Info": Info}
    src = spec.source()
    exec(src, ns)                                            # noqa: S102 - generated from the closed grammar above
    fn = ns["f"]
    # defaults that stand for JobInfo become real JobInfo objects
    if fn.__defaults__:
        fn.__defaults__ = tuple(real_value(d) for d in fn.__defaults__)
    if fn.__kwdefaults__:
        fn.__kwdefaults__ = {k: real_value(d) for k, d in fn.__kwdefaults__.items()}
    _task_counter[0] += 1
    return Task(fn, name=name or f"t{_task_counter[0]}", namespace="c15verif", source=src, version=version,
                task_options_base={"config_args": list(spec.conf)} if spec.conf else {})


def real_key(task, args, kwargs, capture=None):
    """eval_hash, args_hash exactly as the scheduler computes them for evaluated arguments:
    get_arg_defaults -> {**default_kwargs, **kwargs} -> hash_args_eval."""
    import redun.hashing
    from redun.scheduler import get_arg_defaults
    from redun.task import hash_args_eval
    from redun.value import get_type_registry
    args = tuple(real_value(a) for a in args)
    kwargs = {k: real_value(v) for k, v in kwargs.items()}
    default_kwargs = get_arg_defaults(task, args, kwargs)
    merged = {**default_kwargs, **kwargs}
    if capture is None:
        return hash_args_eval(get_type_registry(), task, args, merged)
    orig = redun.hashing.hash_struct

    def rec(struct):
        capture.append(redun.hashing.bencode(struct))
        return orig(struct)

    with mock.patch.object(redun.hashing, "hash_struct", rec):
        return hash_args_eval(get_type_registry(), task, args, merged)


def vhash(v) -> str:
    from redun.value import get_type_registry
    return get_type_registry().get_hash(real_value(v))


def binds(task, args, kwargs):
    try:
        ba = task.signature.bind(*args, **kwargs)
    except TypeError:
        return None
    ba.apply_defaults()
    return ba


# ------------------------------------------------------------------ Coq literals
def cq_name(s: str) -> str:
    return cq_bytes(s.encode())


def cq_aval(v) -> str:
    h = cq_bytes(vhash(v).encode())
    return f"(AInfo {h})" if isinstance(v, Info) else f"(AVal {h})"


def cq_sig(spec: SigSpec) -> str:
    def plist(l):
        return cq_list([f"({cq_name(n)}, {cq_opt(None if d is NODEFAULT else cq_aval(d))})" for n, d in l])
    return ("{| s_pos := " + plist(spec.pos) + "; s_var := " + cq_opt(cq_name(spec.var) if spec.var else None)
            + "; s_kwonly := " + plist(spec.kwonly) + "; s_varkw := " + cq_opt(cq_name(spec.varkw) if spec.varkw else None)
            + " |}")


def cq_call(args, kwargs) -> str:
    return ("{| c_args := " + cq_list([cq_aval(a) for a in args]) + "; c_kwargs := "
            + cq_list([f"({cq_name(k)}, {cq_aval(v)})" for k, v in kwargs.items()]) + " |}")


# ------------------------------------------------------------------ generators
PNAMES = ["a", "b", "c", "x", "y", "mem", "cfg", "opts", "k", "n"]
EXTRA_KW = ["u", "v", "w"]
VALUES = [0, 1, 2, 3, 5, -1, "a", "b", "", None, True, [1, 2], {"k": 1}, (1, "x"), 2.5, "hello", 10 ** 20]


class Gen:
    def __init__(self, rng):
        self.rng = rng
        self.fresh = 1000

    def value(self, info_p=0.12):
        r = self.rng
        if r.random() < info_p:
            return Info(r.choice([0, 0, 1, 2]))
        return r.choice(VALUES)

    def fresh_value(self):
        self.fresh += 1
        return f"fresh{self.fresh}"

    def sig(self) -> SigSpec:
        r = self.rng
        names = r.sample(PNAMES, len(PNAMES))
        npos = r.choice([0, 1, 1, 2, 2, 3])
        pos = []
        first_default = r.randint(0, npos)
        for i in range(npos):
            pos.append((names.pop(), self.value(0.08) if i >= first_default else NODEFAULT))
        var = r.choice(["rest", "args"]) if r.random() < 0.55 else None
        kwonly = [(names.pop(), self.value(0.15) if r.random() < 0.7 else NODEFAULT) for _ in range(r.choice([0, 0, 1, 1, 2]))]
        varkw = r.choice(["kw", "extra"]) if r.random() < 0.35 else None
        allnames = [n for n, _ in pos] + ([var] if var else []) + [n for n, _ in kwonly] + ([varkw] if varkw else [])
        conf = [n for n in allnames if r.random() < 0.3]
        return SigSpec(pos, var, kwonly, varkw, conf)

    def call(self, spec: SigSpec):
        """A call Python accepts."""
        r = self.rng
        npos = len(spec.pos)
        # how many positional parameters are passed positionally
        required = [i for i, (_, d) in enumerate(spec.pos) if d is NODEFAULT]
        na = r.randint(0, npos)
        extras = 0
        if spec.var and na == npos and r.random() < 0.7:
            extras = r.choice([1, 1, 2, 3, 4])
        elif spec.var and r.random() < 0.3:
            na, extras = npos, r.choice([1, 2, 3])
        args = [self.value() for _ in range(na + extras)]
        kwargs = {}
        for i, (n, d) in enumerate(spec.pos):
            if i >= na and (d is NODEFAULT or r.random() < 0.4):
                kwargs[n] = self.value()
        for n, d in spec.kwonly:
            if d is NODEFAULT or r.random() < 0.4:
                kwargs[n] = self.value()
        if spec.varkw:
            for _ in range(r.choice([0, 0, 1, 2])):
                k = r.choice(EXTRA_KW)
                if r.random() < 0.08:
                    k = r.choice([x for x in (spec.var, spec.varkw) if x])     # legal: collected by **kw
                kwargs[k] = self.value()
        items = list(kwargs.items())
        r.shuffle(items)
        return args, dict(items)

    def bad_call(self, spec: SigSpec):
        """A perturbed call (often rejected by Python)."""
        r = self.rng
        args, kwargs = self.call(spec)
        m = r.randrange(4)
        if m == 0:
            args = args + [self.value(0), self.value(0)]
        elif m == 1:
            kwargs = dict(kwargs)
            kwargs[r.choice(["zz", "u"] + spec.names())] = self.value(0)
        elif m == 2 and kwargs:
            kwargs = dict(kwargs)
            kwargs.pop(r.choice(list(kwargs)))
        elif args:
            args = args[:-1]
        return args, kwargs


# ------------------------------------------------------------------ the implementation-side oracle
def bound_param_of_pos(spec: SigSpec, i: int):
    return spec.pos[i][0] if i < len(spec.pos) else spec.var


def bound_param_of_kw(spec: SigSpec, k: str):
    named = [n for n, _ in spec.pos] + [n for n, _ in spec.kwonly]
    return k if k in named else spec.varkw


class Case:
    """One pair of calls with the verdict the property demands."""

    def __init__(self, spec, args, kwargs, args2, kwargs2, same, kind, detail):
        self.spec, self.args, self.kwargs, self.args2, self.kwargs2 = spec, args, kwargs, args2, kwargs2
        self.same, self.kind, self.detail = same, kind, detail

    def to_json(self):
        return {"sig": self.spec.to_json(), "source": self.spec.source(), "args": repr(self.args), "kwargs": repr(self.kwargs),
                "args2": repr(self.args2), "kwargs2": repr(self.kwargs2), "expect_same_key": self.same,
                "mutation": self.kind, "detail": self.detail}


def mutations(g: Gen, spec: SigSpec, args, kwargs):
    """Pairs of calls and whether the property says their keys must be equal."""
    r = g.rng
    out = []
    conf = set(spec.conf)
    # --- must differ: the value of a non-config, non-placeholder argument changes
    cand = [("pos", i) for i, a in enumerate(args)
            if bound_param_of_pos(spec, i) not in conf and not isinstance(a, Info)]
    cand += [("kw", k) for k, v in kwargs.items() if bound_param_of_kw(spec, k) not in conf and not isinstance(v, Info)]
    r.shuffle(cand)
    for where, i in cand[:3]:
        if where == "pos":
            a2 = list(args)
            a2[i] = g.fresh_value()
            out.append(Case(spec, args, kwargs, a2, kwargs, False, "arg-value", {"where": "pos", "index": i}))
            a3 = list(args)
            a3[i] = Info(0)
            out.append(Case(spec, args, kwargs, a3, kwargs, False, "placeholder-replace", {"where": "pos", "index": i}))
        else:
            k2 = dict(kwargs)
            k2[i] = g.fresh_value()
            out.append(Case(spec, args, kwargs, args, k2, False, "arg-value", {"where": "kw", "name": i}))
    # a placeholder and its non-placeholder neighbour trade places (both non-config)
    for i in range(len(args) - 1):
        if isinstance(args[i], Info) != isinstance(args[i + 1], Info) \
                and bound_param_of_pos(spec, i) not in conf and bound_param_of_pos(spec, i + 1) not in conf:
            a2 = list(args)
            a2[i], a2[i + 1] = a2[i + 1], a2[i]
            out.append(Case(spec, args, kwargs, a2, kwargs, False, "placeholder-swap", {"index": i}))
            break
    # --- must be equal
    if len(kwargs) > 1:
        items = list(kwargs.items())
        r.shuffle(items)
        out.append(Case(spec, args, kwargs, args, dict(items), True, "kw-order", {}))
        out.append(Case(spec, args, kwargs, args, dict(reversed(list(kwargs.items()))), True, "kw-order", {}))
    ccand = [("pos", i) for i, a in enumerate(args) if bound_param_of_pos(spec, i) in conf]
    ccand += [("kw", k) for k in kwargs if bound_param_of_kw(spec, k) in conf]
    r.shuffle(ccand)
    for where, i in ccand[:3]:
        if where == "pos":
            a2 = list(args)
            a2[i] = g.fresh_value()
            out.append(Case(spec, args, kwargs, a2, kwargs, True, "config-value", {"where": "pos", "index": i}))
        else:
            k2 = dict(kwargs)
            k2[i] = g.fresh_value()
            out.append(Case(spec, args, kwargs, args, k2, True, "config-value", {"where": "kw", "name": i}))
    for i, a in enumerate(args):
        if isinstance(a, Info):
            a2 = list(args)
            a2[i] = Info(a.n + 1)
            out.append(Case(spec, args, kwargs, a2, kwargs, True, "placeholder-value", {"where": "pos", "index": i}))
    for k, v in kwargs.items():
        if isinstance(v, Info):
            k2 = dict(kwargs)
            k2[k] = Info(v.n + 1)
            out.append(Case(spec, args, kwargs, args, k2, True, "placeholder-value", {"where": "kw", "name": k}))
    for i, (n, d) in enumerate(spec.pos):
        if d is not NODEFAULT and i >= len(args) and n not in kwargs:
            out.append(Case(spec, args, kwargs, args, {**kwargs, n: d}, True, "default-by-keyword", {"name": n, "kind": "positional"}))
    for n, d in spec.kwonly:
        if d is not NODEFAULT and n not in kwargs:
            out.append(Case(spec, args, kwargs, args, {**kwargs, n: d}, True, "default-by-keyword", {"name": n, "kind": "keyword-only"}))
    return out


def classify(case: Case):
    """Known root cause of a failing case, or None."""
    spec = case.spec
    P = spec.names()
    conf = set(spec.conf)
    v = P.index(spec.var) if spec.var else None
    d = case.detail
    any_pos_info = any(isinstance(a, Info) for a in list(case.args) + list(case.args2))

    def mispaired(i):
        return v is not None and v < i < len(P)

    if case.kind in ("arg-value", "placeholder-replace") and d.get("where") == "pos":
        i = d["index"]
        if mispaired(i) and P[i] in conf:
            return K_ZIP_COLLIDE
    if case.kind == "placeholder-swap" and any_pos_info:
        return K_SHIFT
    if case.kind == "arg-value" and d.get("where") == "kw":
        k = d["name"]
        if bound_param_of_kw(spec, k) == spec.varkw and k in conf:
            return K_VARKW_COLLIDE
    if case.kind == "config-value" and d.get("where") == "pos":
        i = d["index"]
        if mispaired(i) and P[i] not in conf:
            return K_ZIP_LEAK
    if case.kind == "config-value" and d.get("where") == "kw":
        k = d["name"]
        if bound_param_of_kw(spec, k) == spec.varkw and k not in [n for n, _ in spec.pos + spec.kwonly]:
            return K_VARKW_LEAK
    if case.kind == "placeholder-value" and d.get("where") == "pos" and d["index"] >= len(P):
        return K_EXTRA_INFO
    if case.kind == "default-by-keyword" and d.get("kind") == "keyword-only":
        if P.index(d["name"]) < len(case.args):
            return K_DEFAULT
    return None


def decide(case: Case, task=None, other_task=None):
    """Run both calls on the real code. -> None if the property holds on this pair, else text."""
    task = task or make_task(case.spec)
    k1 = real_key(task, case.args, case.kwargs)
    k2 = real_key(task, case.args2, case.kwargs2)
    if case.same and k1 != k2:
        return f"calls that differ only by {case.kind} get different keys"
    if not case.same and k1[0] == k2[0]:
        return f"calls that differ by {case.kind} get the same eval_hash"
    return None


# the Coq witnesses of Props/C15.v as calls on the real code (replayed first)
def witnesses():
    S = SigSpec
    return [
        Case(S([("a", NODEFAULT)], "rest", [("cfg", None)], None, ["cfg"]), [1, 2, 3], {}, [1, 2, 4], {}, False,
             "arg-value", {"where": "pos", "index": 2}),
        Case(S([("a", NODEFAULT)], "rest", [("k", 5)], None, []), [1, 2, 3], {}, [1, 2, 3], {"k": 5}, True,
             "default-by-keyword", {"name": "k", "kind": "keyword-only"}),
        Case(S([], "rest", [("b", 0)], None, ["rest"]), [1, 2, 3], {}, [1, 5, 3], {}, True,
             "config-value", {"where": "pos", "index": 1}),
        Case(S([("x", NODEFAULT), ("y", NODEFAULT)], None, [], None, []), [Info(0), 1], {}, [1, Info(0)], {}, False,
             "placeholder-swap", {"index": 0}),
        Case(S([("a", NODEFAULT)], "rest", [], None, []), [1, 2, Info(1)], {}, [1, 2, Info(2)], {}, True,
             "placeholder-value", {"where": "pos", "index": 2}),
        Case(S([("a", NODEFAULT)], None, [], "kw", ["kw"]), [1], {"x": 2}, [1], {"x": 3}, True,
             "config-value", {"where": "kw", "name": "x"}),
    ]


# ------------------------------------------------------------------ in-process histories of declarations
K_HISTORY = "history:key-depends-on-an-earlier-declaration-of-the-task"


def reconf(g: Gen, spec: SigSpec) -> SigSpec:
    """Same signature (same source, same task hash), different config_args."""
    r = g.rng
    names = spec.names()
    if not names:
        return SigSpec(spec.pos, spec.var, spec.kwonly, spec.varkw, [])
    conf = set(spec.conf)
    for n in r.sample(names, r.randint(1, min(3, len(names)))):    # add / remove, any binding route
        conf ^= {n}
    if r.random() < 0.15:
        conf = set()
    if r.random() < 0.1:
        conf = set(names)
    return SigSpec(spec.pos, spec.var, spec.kwonly, spec.varkw, [n for n in names if n in conf])


def gen_history(g: Gen, name: str):
    """A list of declarations (spec, warm-up calls) of one task name, and the version (None = hashed by source)."""
    r = g.rng
    version = "1" if r.random() < 0.3 else None
    spec = g.sig()
    steps = []
    for _ in range(r.choice([2, 2, 3])):
        steps.append((spec, [g.call(spec) for _ in range(r.choice([1, 2, 3]))]))
        spec = g.sig() if (version and r.random() < 0.5) else reconf(g, spec)
    return version, steps


def run_history(name, version, steps, last_cases=None, g=None):
    """Declare the task of each step in order and hash its warm-up calls; the LAST declaration is judged:
    every case is decided on the task object of that declaration, against the spec of that declaration only.
    -> (failing case, why) or None"""
    task = None
    for spec, warm in steps:
        task = make_task(spec, name=name, version=version)
        for args, kwargs in warm:
            try:
                real_key(task, args, kwargs)
            except Exception:  # noqa
                pass
    spec, warm = steps[-1]
    cases = last_cases
    if cases is None:
        cases = []
        for args, kwargs in warm:
            cases += mutations(g, spec, args, kwargs)
    n = 0
    for case in cases:
        n += 1
        try:
            why = decide(case, task=task)
        except Exception as e:  # noqa
            why = f"implementation raised {type(e).__name__}: {e}"
        if why:
            return case, why, n
    return None, None, n


def history_to_json(name, version, steps, case, why):
    return {"kind": "history", "name": name, "version": version, "why": why,
            "steps": [{"sig": sp.to_json(), "source": sp.source(), "config_args": sp.conf,
                       "warm": [[repr(a), repr(k)] for a, k in warm]} for sp, warm in steps],
            "case": case.to_json()}


def history_from_json(r):
    env = {"Info": Info}
    steps = [(spec_from_json(st["sig"], st.get("source")), [(eval(a, env), eval(k, env)) for a, k in st["warm"]])
             for st in r["steps"]]
    return r["name"], r["version"], steps, case_from_json(r["case"])


def end_to_end_w1():
    """f(a, *rest, cfg=None), config_args=['cfg'] through the real Scheduler: is f(1,2,4) answered from
    the cache entry of f(1,2,3)?  -> (result of second call, number of executions)"""
    import logging
    from redun import Scheduler, task
    from redun.config import Config
    logging.getLogger("redun").setLevel(logging.CRITICAL)
    cwd = os.getcwd()
    tmp = scratch_dir("rv_c15_")
    os.chdir(tmp)
    try:
        runs = []

        @task(namespace="c15verif", name="w1", config_args=["cfg"], version="1")
        def w1(a, *rest, cfg=None):
            runs.append(rest)
            return list(rest)

        s = Scheduler(config=Config({"backend": {"db_uri": "sqlite:///:memory:"}}))
        s.load()
        s.run(w1(1, 2, 3))
        return s.run(w1(1, 2, 4)), len(runs)
    finally:
        os.chdir(cwd)
        import shutil
        shutil.rmtree(tmp, ignore_errors=True)


class Check(PropertyCheck):
    id = "C15"
    module = "Props.C15"
    theorems = ["C15_key_sensitive_fixed", "C15_key_sensitive_refuted", "C15_placeholder_shift_refuted",
                "C15_key_sensitive_shipped_partial", "C15_kwarg_order_fixed", "C15_config_and_placeholder_values_fixed",
                "C15_default_by_keyword_fixed", "C15_default_by_keyword_refuted", "C15_config_values_refuted",
                "C15_config_varkw_refuted", "C15_placeholder_extras_refuted", "C15_invariant_shipped_partial",
                "C15_leading_tag_inj", "C15_tags_distinct", "C15_kinds_hashes_differ", "C15_key_layouts",
                "C15_nonvacuous"]
    extra_modules = ["Base.Lit"]
    allowed_axioms = []
    section_premises = [
        "the hash function H (SHA-512 truncated to 40 hex digits) is injective on the pre-images considered "
        "(collision resistance) — explicit hypothesis `injective H` of every theorem that concludes `<>`",
        "fixed variant only: no ordinary argument has the value hash of a blank JobInfo() (`blank_ok`), i.e. "
        "collision-freeness of value hashing between JobInfo() and other values",
    ]
    assumptions = [
        "an argument is represented by its value hash (type_registry.get_hash); that value hashes identify values is C16's subject",
        "signatures have positional-or-keyword, *var, keyword-only and **var parameters; positional-only parameters are "
        "outside the model (redun passes unbound defaults by keyword, which Python rejects for them)",
        "arguments are the evaluated, preprocessed arguments handed to hash_args_eval; _preprocess_args (handles) is C07/C25's subject",
        "the model's specification of Python's argument binding (bind_ok / arg_hash) is compared with inspect.Signature.bind on every generated call",
        "default values are plain values (defaults that are expressions are evaluated by the scheduler before they reach this code)",
    ]
    rule = ("random signatures (0-3 positional params with a default suffix, optional *var, 0-2 keyword-only params, optional "
            "**var, random config_args over all parameter names incl. the variadic ones) and calls Python accepts (positional "
            "prefix, variadic tail, keywords in shuffled order, extra keywords, JobInfo values with p~0.12) plus perturbed calls; "
            "in-process histories (the same task name/body declared 2-3 times with other config_args, or under a fixed "
            "version with another signature; keys judged against the current declaration only); "
            "a case is non-trivial if the call has at least two arguments; distinct by (signature, config_args, call)")

    # ------------------------------------------------------------------
    def translate(self):
        GEN.mkdir(exist_ok=True)
        for stale in GEN.glob("C15*"):          # never let a previous run's configuration stand in for this one
            stale.unlink()
        try:
            text, tie, pins, cfg, variant, sites = tr_evalkey.translate(pins=PINS)
        except astutil.TranslateError as e:
            raise TranslateError(str(e))
        self.variant, self.cfg = variant, cfg
        GEN.mkdir(exist_ok=True)
        p, t = GEN / "C15Gen.v", GEN / "C15Tie.v"
        p.write_text(text)
        t.write_text(tie)
        self.stat("translator", f"variant={variant}")
        self.stat("translator", "tag_sites", len(sites))
        return [p, t]

    # ------------------------------------------------------------------
    def correspond(self):
        # model configuration: what the translator extracted now; if it could not, the configuration the
        # theorems are about (so the run says whether the code still behaves like the shipped model)
        if (GEN / "C15Gen.vo").exists():
            cfgname, requires = "gen", ["Gen.C15Gen"]
        else:
            try:
                cfgname = "shipped" if decide(witnesses()[0]) else "fixed"   # does the main shipped defect reproduce?
            except Exception:  # noqa
                cfgname = "shipped"
            requires = []
        self.stat("correspondence_model", cfgname)
        g = Gen(self.rng)
        n = 300 if self.tier == "quick" else 6000
        terms, descr = [], []
        blank = cq_bytes(vhash(Info(0)).encode())
        py_bad = []
        for i in range(n):
            spec = g.sig()
            task = make_task(spec)
            for j in range(2):
                args, kwargs = g.call(spec) if (i + j) % 5 else g.bad_call(spec)
                ba = binds(task, [real_value(a) for a in args], {k: real_value(v) for k, v in kwargs.items()})
                sg, c = cq_sig(spec), cq_call(args, kwargs)
                conf = cq_list([cq_name(x) for x in spec.conf])
                what = f"{spec!r}  args={args!r} kwargs={kwargs!r}"
                self.stat("call", "python-accepts" if ba else "python-rejects")
                # (1) specification of binding
                parts = [f"Bool.eqb (bind_ok sg c) {cq_bool(ba is not None)}"]
                # (2) bit-exact pre-images of the code path (also for calls Python would reject: the code does not bind)
                cap = []
                try:
                    eval_hash, args_hash = real_key(task, args, kwargs, capture=cap)
                except Exception as e:  # noqa
                    self.stat("call", f"implementation raises {type(e).__name__}")
                    cap = None
                if cap is not None:
                    if len(cap) < 2 or hashlib.sha512(cap[-2]).hexdigest()[:40] != args_hash \
                            or hashlib.sha512(cap[-1]).hexdigest()[:40] != eval_hash:
                        py_bad.append(what)
                        continue
                    parts.append(f"pre_agrees (call_args_pre {cfgname} {blank} sg conf c) {cq_bytes(cap[-2])}")
                    parts.append(f"pre_agrees (eval_pre {cfgname} {cq_bytes(task.hash.encode())} {cq_bytes(args_hash.encode())}) {cq_bytes(cap[-1])}")
                # (3) the slot map of the specification against inspect.Signature.bind
                if ba is not None:
                    for name, param in task.signature.parameters.items():
                        val = ba.arguments.get(name)
                        if param.kind in (POK, KWO):
                            exp = None if name in spec.conf or is_jobinfo(val) else cq_bytes(vhash_real(val).encode())
                            parts.append(f"opt_eq bytes_eq (arg_hash sg conf c (SNamed {cq_name(name)})) {cq_opt(exp)}")
                        elif param.kind == VARP:
                            for idx, x in enumerate(list(val) + [None]):
                                exp = None if (idx == len(val) or name in spec.conf or is_jobinfo(x)) \
                                    else cq_bytes(vhash_real(x).encode())
                                parts.append(f"opt_eq bytes_eq (arg_hash sg conf c (SExtra {idx}%nat)) {cq_opt(exp)}")
                        elif param.kind == VARK:
                            for k, x in val.items():
                                exp = None if name in spec.conf or is_jobinfo(x) else cq_bytes(vhash_real(x).encode())
                                parts.append(f"opt_eq bytes_eq (arg_hash sg conf c (SKw {cq_name(k)})) {cq_opt(exp)}")
                    parts.append(f"opt_eq bytes_eq (arg_hash sg conf c (SNamed {cq_name('zz_not_a_param')})) None")
                    if not spec.var:
                        parts.append("opt_eq bytes_eq (arg_hash sg conf c (SExtra 0%nat)) None")
                terms.append(f"(let sg := {sg} in let conf := {conf} in let c := {c} in " + " && ".join(parts) + ")")
                descr.append(what)
                self.count((repr(spec), repr(args), repr(kwargs)) if len(args) + len(kwargs) >= 2 else None)
                self.sample({"signature": repr(spec), "args": repr(args), "kwargs": repr(kwargs),
                             "python_accepts": ba is not None}, 5)
            self.stat("signature", f"pos={len(spec.pos)} var={'y' if spec.var else 'n'} kwonly={len(spec.kwonly)} "
                                   f"varkw={'y' if spec.varkw else 'n'}")
            self.stat("config_args", len(spec.conf))
        self.ob("correspondence", "sha512(bencode(struct))[:40] of the two structures seen by hash_struct equals the returned "
                "(args_hash, eval_hash)", not py_bad, "\n".join(py_bad[:5]))
        ok, failing, diags = run_bool_cases("C15", ["Base.Decimal", "Base.Lit", "Model.Bencode", "Model.EvalKey"] + requires,
                                            "", terms, chunk=150)
        self.ob("correspondence", f"model (regenerated configuration) == implementation, bit-exact pre-images of args_hash and "
                f"eval_hash, and bind_ok/arg_hash == inspect.Signature.bind, on {len(terms)} generated calls",
                ok and not failing, "\n".join(diags) + "".join(f"\nmismatch: {descr[i]}" for i in failing[:10]))
        self.mismatches = [descr[i] for i in failing]

    # ------------------------------------------------------------------
    def visit(self, case: Case, source: str):
        self.evaluations += 1
        self.stat("oracle_mutation", case.kind)
        try:
            why = decide(case)
        except Exception as e:  # noqa
            why = f"implementation raised {type(e).__name__}: {e}"
        if not why:
            return False
        key = classify(case) or f"unclassified:{case.kind}:{case.spec!r}:{case.args!r}:{case.kwargs!r}"[:300]
        self.findings.append(Finding(key, f"{why}: {case.spec!r}; call {case.args!r} {case.kwargs!r} vs "
                                          f"{case.args2!r} {case.kwargs2!r}", {"kind": "pair", "source": source, **case.to_json()}))
        self.stat("oracle_failures", key.split(":")[0] + ":" + case.kind)
        return True

    def oracle(self):
        g = Gen(self.rng)
        # corpus and Coq witnesses first
        corpus = CORPUS / "C15.jsonl"
        n_corpus = 0
        if corpus.exists():
            for line in corpus.read_text().splitlines():
                if line.strip():
                    self.visit(case_from_json(json.loads(line)), "corpus")
                    n_corpus += 1
        w_failed = [self.visit(c, "coq-witness") for c in witnesses()]
        self.stat("oracle", "coq_witnesses_reproduced_on_code", sum(w_failed))
        if getattr(self, "variant", None) == "shipped" and w_failed[0]:
            try:
                res, runs = end_to_end_w1()
                self.stat("oracle", f"end_to_end f(1,2,4) after f(1,2,3): result={res} executions={runs}")
            except Exception as e:  # noqa
                self.stat("oracle", f"end_to_end raised {type(e).__name__}")
        # small scope: every signature shape over fixed names, a few calls each
        n_pairs = 0
        for spec in small_scope_sigs():
            for args, kwargs in small_scope_calls(spec):
                for case in mutations(g, spec, args, kwargs):
                    self.visit(case, "small-scope")
                    n_pairs += 1
        ss = n_pairs
        for _ in range(3000 if self.tier == "quick" else 60000):
            spec = g.sig()
            args, kwargs = g.call(spec)
            for case in mutations(g, spec, args, kwargs):
                self.visit(case, "random")
                n_pairs += 1
        # in-process histories: the same task name/body declared again with other config_args (or, under a
        # fixed version, another signature); every key is judged against the CURRENT declaration only
        n_hist = n_hist_pairs = 0
        for i in range(250 if self.tier == "quick" else 5000):
            name = f"h{self.seed}_{i}"
            version, steps = gen_history(g, name)
            case, why, n = run_history(name, version, steps, g=g)
            n_hist += 1
            n_hist_pairs += n
            self.evaluations += n
            self.stat("history", f"declarations={len(steps)} version={'y' if version else 'n'}")
            if case is None:
                continue
            # the same pair on a fresh task: a stateless defect is reported as such
            if self.visit(case, "history-last-declaration"):
                continue
            decls = " -> ".join(f"config_args={sp.conf}" + (f" {sp.source().splitlines()[0]}" if version else "")
                                for sp, _ in steps)
            self.findings.append(Finding(
                f"{K_HISTORY}:{case.kind}", f"{why} only after earlier declarations of the same task in this process "
                f"({decls}); judged declaration: {case.spec!r}; call {case.args!r} {case.kwargs!r} vs {case.args2!r} {case.kwargs2!r}",
                history_to_json(name + "_replay", version, steps, case, why)))
            self.stat("oracle_failures", f"history:{case.kind}")
        self.stat("oracle", "histories", n_hist)
        self.stat("oracle", "history_pairs", n_hist_pairs)
        n_pairs += n_hist_pairs
        self.stat("oracle", "pairs", n_pairs)
        self.stat("oracle", "small_scope_pairs", ss)
        self.stat("oracle", "corpus_pairs", n_corpus)
        expect = getattr(self, "variant", None)
        self.ob("oracle", f"implementation oracle ran: {n_pairs} call pairs (must-differ / must-be-equal mutations decided by "
                f"inspect.Signature.bind), {len(self.findings)} failing", True)
        if expect == "fixed":
            self.ob("oracle", "the code is in the repaired variant and no Coq witness reproduces", not any(w_failed),
                    "a witness of the shipped defects still reproduces although the translator sees the repaired shapes")
        elif expect == "shipped":
            self.ob("oracle", "the code is in the shipped variant and the Coq witnesses reproduce on it (model is faithful at the defects)",
                    all(w_failed), f"reproduced: {w_failed}")

    def replay(self, doc):
        r = doc.get("replay", {})
        if r.get("kind") == "pair":
            case = case_from_json(r)
            why = decide(case)
            print("replay:", f"{case.spec!r}: {case.args!r} {case.kwargs!r} vs {case.args2!r} {case.kwargs2!r} "
                             f"(must be {'equal' if case.same else 'different'}):", why or "property holds on this pair now")
            return 1 if why else 0
        if r.get("kind") == "history":
            name, version, steps, case = history_from_json(r)
            for k, (sp, warm) in enumerate(steps):
                print(f"replay: declaration {k + 1}: {sp!r}" + (f" version={version}" if version else "")
                      + f"; hashed calls {warm!r}")
            bad, why, _ = run_history(name, version, steps, last_cases=[case])
            print("replay:", f"last declaration, {case.args!r} {case.kwargs!r} vs {case.args2!r} {case.kwargs2!r} "
                             f"(must be {'equal' if case.same else 'different'}):", why or "property holds on this history now")
            return 1 if why else 0
        print("replay: nothing to replay (no failing input was found); broken obligations:",
              json.dumps(doc.get("broken_obligations", []))[:2000])
        return 1


# ------------------------------------------------------------------ helpers
def is_jobinfo(v):
    from redun.scheduler import JobInfo
    return isinstance(v, JobInfo)


def vhash_real(v):
    from redun.value import get_type_registry
    return get_type_registry().get_hash(v)


def d_is(a, b):
    return a is b


def spec_from_json(s, source=None):
    def fix(l):
        return [(n, NODEFAULT if d == NODEFAULT else d) for n, d in l]
    spec = SigSpec(fix(s["pos"]), s["var"], fix(s["kwonly"]), s["varkw"], s["conf"])
    # defaults survive json only for plain values; rebuild them from the source line when present
    if source:
        ns = {"Info": Info}
        exec(source, ns)                                      # noqa: S102 - our own generated source
        sig = inspect.signature(ns["f"])
        spec.pos = [(n, NODEFAULT if sig.parameters[n].default is inspect.Parameter.empty else sig.parameters[n].default)
                    for n, _ in spec.pos]
        spec.kwonly = [(n, NODEFAULT if sig.parameters[n].default is inspect.Parameter.empty else sig.parameters[n].default)
                       for n, _ in spec.kwonly]
    return spec


def case_from_json(r):
    env = {"Info": Info}
    spec = spec_from_json(r["sig"], r.get("source"))
    return Case(spec, eval(r["args"], env), eval(r["kwargs"], env), eval(r["args2"], env), eval(r["kwargs2"], env),
                r["expect_same_key"], r["mutation"], r["detail"])


def small_scope_sigs():
    """All shapes: 0-2 positional (second with/without default), *var y/n, 0-1 keyword-only (default y/n), **var y/n,
    config_args = every subset of size <= 1 plus one pair."""
    out = []
    for npos in (0, 1, 2):
        for dflt in ((False,), (True,)) if npos else ((False,),):
            pos = [("a", NODEFAULT), ("b", 7 if dflt[0] else NODEFAULT)][:npos]
            for var in (None, "rest"):
                for kwo in ([], [("k", 5)], [("k", NODEFAULT)]):
                    for varkw in (None, "kw"):
                        names = [n for n, _ in pos] + ([var] if var else []) + [n for n, _ in kwo] + ([varkw] if varkw else [])
                        confs = [[]] + [[n] for n in names] + ([names[:2]] if len(names) >= 2 else [])
                        for conf in confs:
                            out.append(SigSpec(pos, var, kwo, varkw, conf))
    return out


def small_scope_calls(spec: SigSpec):
    calls = []
    npos = len(spec.pos)
    for na in range(npos + 1):
        for extras in ((0, 1, 2) if (spec.var and na == npos) else (0,)):
            base = [1, 2, 3, 4, 5][:na + extras]
            kwargs = {}
            ok = True
            for i, (n, d) in enumerate(spec.pos):
                if i >= na and d is NODEFAULT:
                    kwargs[n] = 10 + i
            for n, d in spec.kwonly:
                if d is NODEFAULT:
                    kwargs[n] = 20
            if ok:
                calls.append((base, dict(kwargs)))
                if spec.varkw:
                    calls.append((base, {**kwargs, "u": 30}))
                if base:
                    calls.append(([Info(0)] + base[1:], dict(kwargs)))
                    calls.append((base[:-1] + [Info(1)], dict(kwargs)))
    return calls
