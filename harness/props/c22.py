"""C22 — Interrupted or retried recording never corrupts later runs."""
from __future__ import annotations

import os
import shutil

from harness.lib import Finding, scratch_dir
from harness.props import recording_lib as rl
from harness.props.recording_check import RecordingCheck
from harness.props.recording_lib import FCRASH, FFAIL, FOK, Tree, World

# finding keys: <symptom>:<fault kind>@<innermost backend call stack of the faulted commit>
#   <crash|transient-error>@<outermost backend operation>:<run-died:Exc | recovery-died:Exc | stale-result | fk-violation |
#   retry-changes-records:lost|dup>; workload, commit index, inner call path, tables and values are in the text / replay only


# workloads of the fault sweep: no job is replayed by CSE in them (a stale result by way of a CSE replay of a
# call node that lost its rows is C03's registered finding and must not mask a stale result here)
C22_WORKLOADS = ("chain", "two_args")


class Check(RecordingCheck):
    id = "C22"
    module = "Props.C22"
    theorems = ["C22_referential_integrity", "C22_committed_never_lost", "C22_retry_loop_total", "C22_recovery_sound_fixed",
                "C22_retry_no_loss_fixed_partial", "C22_retry_idempotent_fixed_bounded", "C22_refuted_retry_loses_rows",
                "C22_refuted_nested_retry_loses_argument", "C22_refuted_crash", "C22_refuted_retry_stale",
                "C22_refuted_mixed_retry_loses_records", "C22_recovery_sound_mixed_partial", "C22_refuted_mixed_stale", "C22_nonvacuous"]
    rule = ("operation scripts as for C03 but with a fault in most operations (single / repeated OperationalErrors, crash) "
            "and both retry budgets; oracle: (a) every single transient-error position of four record_call_node "
            "operations on a real backend, faulted vs fault-free tables; (b) every commit index of real workflows x "
            "{transient, crash}, then recovery runs with and without an edit vs fresh-backend runs, PRAGMA foreign_key_check")

    def correspond(self):
        n = 50 if self.tier == "quick" else 900
        self.mismatches = self.correspond_ops(n, 0.8, f"C22_{os.getpid()}")

    # ------------------------------------------------------------------ oracle (a): retried operations
    def oracle_idempotence(self, work):
        """Retried record_call_node on a real backend: one transient OperationalError at every commit attempt and at
        every other statement (SELECT / INSERT / UPDATE ...) of the operation; tables vs the fault-free run."""
        world = World()
        leaf = Tree(2, [110], 120)
        scen = [("existing-values", Tree(1, [110], 120, [leaf]), [1, 2]),
                ("new-values", Tree(1, [111, 112], 121, [leaf]), [1, 2]),
                ("unrecorded-child", Tree(1, [111, 110], 121, [leaf, Tree(6, [], 122)]), [1, 2, 6]),
                ("no-arguments", Tree(1, [], 120, []), [1])]
        n = 0
        tables = ("vals", "nodes", "edges", "args", "subs")
        for R in (1, 3):
            for label, tree, sub in scen:
                base = [("new",)] + [("val", i, []) for i in world.tasks] + [("rcn", leaf, [2], [])]
                outs0, d0, b = rl.run_script(world, base + [("rcn", tree, sub, [], None, True)], R, str(work), "i")
                rl.close_backend(b)
                ref = World.canon_dump(d0)
                stmts = d0["qlog"]
                faults = [("commit", k, [FOK] * k + [FFAIL], None, "record_call_node") for k in range(0, 8)]
                if R == 3:
                    faults += [("query", k, [], k, st.split(">")[0]) for k, kind, st in stmts]
                for stmt_kind, k, plan, qfail, op in faults:
                    outs, d, b = rl.run_script(world, base + [("rcn", tree, sub, plan, qfail)], R, str(work), "i")
                    rl.close_backend(b)
                    n += 1
                    got = World.canon_dump(d)
                    self.stat("idempotence_outcome", f"{stmt_kind}:" + ("returned" if outs[-1] == 0 else "died"))
                    what_stmt = (f"commit attempt {k}" if stmt_kind == "commit" else
                                 f"statement {k} ({stmts[k][1]} in {stmts[k][2]})")
                    replay = {"kind": "idem", "scenario": label, "plan": plan, "statement_index": qfail, "R": R}
                    if d["fk"] or d["unknown"]:
                        self.findings.append(Finding(
                            f"transient-error:{stmt_kind}@{op}:fk-violation", f"foreign key violation after record_call_node ({label}, "
                            f"db_retries={R}) with one OperationalError at its {what_stmt}: {d['fk']!r}"[:400], replay))
                    if outs[-1] == 0 and got != ref:
                        lost = [t for t in tables if set(ref[t]) - set(got[t])]
                        dup = [t for t in tables if len(got[t]) != len(set(got[t]))]
                        key = f"transient-error:{stmt_kind}@{op}:retry-changes-records:" + \
                              (f"dup={'+'.join(dup)}" if dup else f"lost={'+'.join(lost)}")
                        self.findings.append(Finding(
                            key, f"record_call_node ({label}, db_retries={R}) returned normally after one OperationalError at its "
                                 f"{what_stmt} but the committed tables differ from the fault-free run: lost {lost}, duplicated {dup}",
                            replay))
        return n

    # ------------------------------------------------------------------ oracle (b): end to end
    def oracle_e2e(self, work):
        n = 0
        plan_names = [("two_args", 1), ("chain", 0), ("noprov0", -1)] if self.tier == "quick" else \
            [(w, 1) for w in C22_WORKLOADS + rl.NOPROV_WORKLOADS]
        for name, stride in plan_names:
            db = rl.fresh_db(str(work), "probe.db")
            _, _, log, s = rl.sched_run(name, rl.LEAF_V1[name], db)
            rl.close_backend(s.backend)
            os.unlink(db)
            idx = [i for i, _, site in log]
            occ, seen_sites = {}, {}
            for i, _, st in log:
                occ[i] = seen_sites.get(st, 0)
                seen_sites[st] = occ[i] + 1
            rcn = [i for i, _, site in log if "record_call_node" in site]
            # stride 0: only (every second of) the commits inside record_call_node
            # stride -1: every commit inside record_call_node
            chosen = sorted(set(idx[::stride]) | set(rcn)) if stride > 0 else (rcn if stride < 0 else rcn[::2])
            # the history without any fault: what it already gets wrong is not charged to a fault position
            base = self.e2e(name, [], work, f"e{n}")
            n += 1
            for which, exp in (("same", "expected_same"), ("edited", "expected_edited")):
                if base[which] != base[exp]:
                    self.findings.append(Finding(
                        "no-fault:stale-result", f"workload {name} without any fault: the re-run ({'edited leaf' if which == 'edited' else 'same program'}) "
                        f"gives {base[which]!r}, a run on an empty backend {base[exp]!r} (C03: CSE-replayed child)",
                        {"kind": "e2e", "workload": name, "plan": []}))
            # statements other than commits (SELECT / INSERT / UPDATE / PRAGMA issued inside backend operations)
            qchosen = []
            if name == "two_args":
                qdb = rl.fresh_db(str(work), "qprobe.db")
                _, _, _, qs = rl.sched_run(name, rl.LEAF_V1[name], qdb, qtrack=True)
                qlog = [x for x in qs.rv_fates.qlog if x[2] != "?"]
                rl.close_backend(qs.backend)
                os.unlink(qdb)
                if self.tier == "quick":
                    direct = [x[0] for x in qlog if x[2] == "record_call_node" and x[1] == "SELECT"]
                    qchosen = direct[:6] + [x[0] for x in qlog][5::max(1, len(qlog) // 6)][:6]
                else:
                    qchosen = [x[0] for x in qlog][::2]
            faults = [("commit", i, fate) for i in chosen for fate in (FFAIL, FCRASH)] + \
                     [("query", q, FFAIL) for q in sorted(set(qchosen))]
            for stmt, i, fate in faults:
                if True:
                    if stmt == "commit":
                        o = self.e2e(name, [FOK] * i + [fate], work, f"e{n}")
                        replay = {"kind": "e2e", "workload": name, "plan": [FOK] * i + [fate]}
                    else:
                        o = self.e2e(name, [], work, f"e{n}", qfail=i)
                        replay = {"kind": "e2e", "workload": name, "plan": [], "statement_index": i}
                    n += 1
                    kind = "transient-error" if fate == FFAIL else "crash"
                    self.stat("e2e_fault_site", f"{kind}:{stmt}@{o['site']}")
                    self.stat("e2e_run1", o["run1"][0])
                    path = o["site"] or "?"
                    op = path.split(">")[0]                  # the outermost backend operation of the faulted statement
                    where = (f"commit {i} of workload {name} ({path}, occurrence {occ[i]} of this call stack)" if stmt == "commit"
                             else f"statement {i} of workload {name} ({path})")
                    replay["fault_point"] = f"{kind} at {where}"
                    if o["fk"]:
                        tables = sorted({f"{r[0]}->{r[2]}" for r in o["fk"]})
                        self.findings.append(Finding(
                            f"{kind}:{stmt}@{op}:fk-violation", f"PRAGMA foreign_key_check reports {len(o['fk'])} row(s) "
                            f"({', '.join(tables)}) after a {kind} at {where} and two recovery runs", replay))
                    if fate == FFAIL and o["run1"][0] == "died":
                        self.findings.append(Finding(
                            f"{kind}:{stmt}@{op}:run-died:{o['run1'][1]}", f"one transient OperationalError at {where} "
                            f"is not survived although db_retries=3: the run dies with {o['run1'][1]}", replay))
                    for which, exp in (("same", "expected_same"), ("edited", "expected_edited")):
                        if o[which] != o[exp] and o[which] != base[which]:
                            outcome = f"recovery-died:{o[which][1]}" if o[which][0] == "died" else "stale-result"
                            self.findings.append(Finding(
                                f"{kind}:{stmt}@{op}:{outcome}", f"after a {kind} at {where}, the recovery run "
                                f"({'edited leaf' if which == 'edited' else 'same program'}) gives {o[which]!r}, a run on an empty backend {o[exp]!r}",
                                replay))
        return n

    def oracle(self):
        work = scratch_dir("rv_c22o_")
        cwd = os.getcwd()
        os.chdir(work)
        self._expected = {}
        try:
            rl.quiet()
            n1 = self.oracle_idempotence(work)
            n2 = self.oracle_e2e(work)
        finally:
            os.chdir(cwd)
            shutil.rmtree(work, ignore_errors=True)
            rl.cleanup_template()
            rl.cleanup_workloads()
        self.evaluations += n1 + n2
        self.stat("oracle", "retried_operations", n1)
        self.stat("oracle", "end_to_end_fault_positions", n2)
        # report what is closest to the property text first: wrong results, then dead recovery runs, then the rest
        rank = lambda f: 0 if "stale-result" in f.key else 1 if "recovery-died" in f.key else 2 if "retry-changes" in f.key else 3
        self.findings.sort(key=lambda f: (rank(f), 0 if ":query@" in f.key else 1))
        from harness.lib import load_known_findings
        known = {k["key"] for k in load_known_findings() if k.get("property") == self.id}
        unknown = [f for f in self.findings if f.key not in known]
        self.ob("oracle", f"implementation oracle: {n1} retried operations (faulted vs fault-free tables), {n2} fault positions of "
                          f"real workflows followed by recovery runs with and without an edit",
                not unknown, "; ".join(f"{f.key}: {f.what}" for f in unknown[:5]))
        repaired = [f for f in self.findings if "record_call_node" in f.key]
        if self.variant == "fixed" and repaired:
            self.ob("oracle", "repaired configuration: no record_call_node witness reproduces", False,
                    "; ".join(f.key for f in repaired[:5]))

    def replay(self, doc):
        r = doc.get("replay", {})
        if r.get("kind") == "idem":
            work = scratch_dir("rv_replay_")
            cwd = os.getcwd()
            os.chdir(work)
            try:
                before = len(self.findings)
                self.oracle_idempotence(work)
                bad = len(self.findings) > before
                for f in self.findings[before:before + 5]:
                    print("replay:", f.key, "-", f.what)
            finally:
                os.chdir(cwd)
                shutil.rmtree(work, ignore_errors=True)
                rl.cleanup_template()
            print("replay:", "still fails" if bad else "holds now")
            return 1 if bad else 0
        return super().replay(doc)
