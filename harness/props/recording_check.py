"""Common parts of the C03 and C22 checks: translator glue, operation-level correspondence against
a real RedunBackendDb, scheduler-trace correspondence against a real Scheduler, end-to-end oracles."""
from __future__ import annotations

import json
import os
import shutil

from harness.lib import GEN, Finding, PropertyCheck, TranslateError, cq_list, run_bool_cases, scratch_dir
from harness.props import recording_lib as rl
from harness.props.recording_lib import FCRASH, FFAIL, FOK, Tree, World
from translate import astutil, tr_record


class RecordingCheck(PropertyCheck):
    extra_modules = ["Model.RecordingDrive"]
    allowed_axioms = []
    variant = None
    assumptions = [
        "SQLite/SQLAlchemy: a commit persists all rows added since the previous commit or none; rollback and process "
        "death drop exactly the uncommitted rows; foreign and primary keys are enforced (PRAGMA foreign_keys=ON) -- "
        "re-tested by the operation-level correspondence (faults injected at session.commit)",
        "faults are injected at commit attempts only; an OperationalError raised by another statement of the same "
        "transaction segment is caught by the same db_retry wrapper and has the same effect on committed state",
        "hash_call_node is injective up to child order (C20), hash_args_eval is injective on argument value hashes (C15): "
        "a call hash is modelled by the call tree it hashes",
        "not modelled: ArgumentResult rows, tags, Job/Execution rows, the context filter of _get_call_node (C05), "
        "value-store placement, failed jobs, scheduler tasks (cond/seq), imports interleaved with a running recording",
    ]

    # ------------------------------------------------------------------ translate
    def translate(self):
        try:
            text, x = tr_record.translate(prop=self.id)
        except astutil.TranslateError as e:
            self.variant = None
            raise TranslateError(str(e))
        self.variant = tr_record.variant_of(x)
        self.extracted = x
        GEN.mkdir(exist_ok=True)
        p = GEN / f"{self.id}Gen.v"
        p.write_text(text)
        if self.variant == "other":
            # the tie file claims `shipped` and will not compile: reported as a broken tie-proof
            pass
        self.stat("variant", self.variant)
        return [p]

    def gen_requires(self):
        return ["Model.Recording", "Model.RecordingDrive", f"Gen.{self.id}Gen"]

    # ------------------------------------------------------------------ operation-level correspondence
    def gen_script(self, world, backend, rng, fault_rate):
        """Random operation script; returns (ops, queries)."""
        vals_pool = [100 + i for i in range(6)]
        trees = []
        ops = [("new",)] + [("val", i, []) for i in world.tasks]

        def plan():
            k = rng.random()
            if k > fault_rate:
                return []
            n = rng.randint(0, 7)
            if k < fault_rate * 0.55:
                return [FOK] * n + [FFAIL]
            if k < fault_rate * 0.75:
                return [FOK] * n + [FFAIL] + [FOK] * rng.randint(0, 2) + [FFAIL]
            if k < fault_rate * 0.85:
                return [FOK] * n + [FFAIL] * rng.randint(2, 5)
            return [FOK] * n + [FCRASH]

        n_ops = rng.randint(3, 9)
        for _ in range(n_ops):
            k = rng.random()
            if k < 0.12 and trees:
                roots = rng.sample(trees, min(len(trees), rng.randint(1, 2)))
                ops.append(("import", roots))
                self.stat("op_kind", "import")
                continue
            if k < 0.22 and trees:
                t = rng.choice(trees)                      # re-record (early-exit path)
                sub = t.tasks()
            else:
                kids = []
                for _k in range(rng.choice([0, 0, 1, 1, 2])):
                    if trees and rng.random() < 0.8:
                        kids.append(rng.choice(trees))
                    else:                                   # a child that is not recorded (prov=False)
                        kids.append(Tree(rng.randint(1, 8), [rng.choice(vals_pool)], rng.choice(vals_pool)))
                a = [rng.choice(vals_pool) for _ in range(rng.choice([0, 1, 1, 2, 3]))]
                t = world.canon(backend, Tree(rng.randint(1, 8), a, rng.choice(vals_pool), kids))
                sub = t.tasks()
                if rng.random() < 0.15:
                    sub = sub[:1]                           # an incomplete set handed in by the scheduler
                trees.append(t)
            pl = plan()
            ops.append(("rcn", t, sub, pl))
            self.stat("op_kind", "rcn")
            self.stat("plan", "none" if not pl else ("crash" if FCRASH in pl else f"fail x{pl.count(FFAIL)}"))
            if pl and rng.random() < 0.7:
                ops.append(("new",))
                if rng.random() < 0.6:
                    ops.append(("rcn", t, t.tasks(), []))   # recovery run re-records
        ops.append(("new",))
        queries = []
        for t in rng.sample(trees, min(len(trees), 4)):
            full = sorted(set(range(1, 9)))
            queries.append((t.t, list(t.a), full))
            drop = rng.choice(t.tasks())
            queries.append((t.t, list(t.a), [x for x in full if x != drop]))
        return ops, queries

    def correspond_ops(self, n_cases, fault_rate, tag):
        world = World()
        work = scratch_dir("rv_rec_")
        cwd = os.getcwd()
        os.chdir(work)
        terms, descr = [], []
        try:
            probe = rl.new_backend(rl.fresh_db(str(work), "probe.db"))
            for i in range(n_cases):
                R = self.rng.choice([1, 3])
                ops, queries = self.gen_script(world, probe, self.rng, fault_rate)
                outs, dump, b = rl.run_script(world, ops, R, str(work), f"k{i}")
                qs = []
                bad = bool(dump["unknown"])
                for (t, a, rg) in queries:
                    got = world.query(b, t, a, rg)
                    if got == "unknown":
                        bad = True
                        got = None
                    qs.append(f"(({t}, {cq_list([str(x) for x in a])}, {cq_list([str(x) for x in rg])}), "
                              + ("None" if got is None else f"Some {got.cq()}") + ")")
                    self.stat("query_result", "miss" if got is None else "hit")
                rl.close_backend(b)
                for f in os.listdir(work):
                    if f.startswith(f"k{i}"):
                        os.unlink(os.path.join(work, f))
                if dump["fk"]:
                    self.findings.append(Finding("fk-violation:op-script", "PRAGMA foreign_key_check reports rows after an operation script",
                                                 {"kind": "ops", "ops": rl.cq_ops(ops), "fk": repr(dump["fk"])[:500]}))
                term = (f"case_ok (gen_cfg {R}) {rl.cq_ops(ops)} {cq_list([str(x) for x in outs])} "
                        f"{World.cq_dump(dump)} {cq_list(qs)}")
                terms.append("false" if bad else term)
                descr.append({"R": R, "ops": rl.cq_ops(ops)[:1500], "outs": outs})
                for o in outs:
                    self.stat("op_outcome", {0: "returned", 1: "died", 2: "skipped"}[o])
                nontrivial = any(op[0] == "rcn" and op[3] for op in ops) or any(op[0] == "import" for op in ops)
                self.count(("ops", rl.cq_ops(ops)) if nontrivial else None)
                self.sample({"ops": rl.cq_ops(ops)[:300], "outcomes": outs}, 3)
            rl.close_backend(probe)
        finally:
            os.chdir(cwd)
            shutil.rmtree(work, ignore_errors=True)
        ok, failing, diags = run_bool_cases(tag, self.gen_requires(), "", terms, chunk=60)
        self.ob("correspondence",
                f"model ({self.variant} configuration) == real RedunBackendDb on {len(terms)} operation scripts "
                f"(record_value / record_call_node with commit fates, new processes, imports; outcomes, 5 tables, lookups)",
                ok and not failing, "\n".join(diags) + "".join(f"\nmismatch: {json.dumps(descr[i])[:1800]}" for i in failing[:5]))
        return [descr[i] for i in failing]

    # ------------------------------------------------------------------ scheduler traces
    def trace_case(self, name, leaf_bodies, work):
        """Run workload `name` once per leaf body on one database, tracing jobs; returns a Coq bool term."""
        from redun.scheduler import Scheduler
        ids = {"task": {}, "val": {}}

        def tid(h):
            return ids["task"].setdefault(h, len(ids["task"]) + 1)

        def vid(h):
            return ids["val"].setdefault(h, 1000 + len(ids["val"]))

        events, job_subs = [], []
        tree_of_hash = {}
        dbfile = rl.fresh_db(str(work), f"tr_{name}.db")
        last = {}
        for body in leaf_bodies:
            expr, ns = rl.define_workload(name, body)
            s = rl.make_scheduler(dbfile)
            del job_subs[:]        # the model's job list is per execution: the last run's jobs are compared
            jobs_idx = {}          # job.id -> index in model jobs list
            by_call = {}           # call_hash -> first index
            orig_resolve = s._resolve_job_main_thread
            orig_check = s.backend.check_cache
            state = {"n": 0}

            def check_cache(*a, **k):
                r = orig_check(*a, **k)
                last["type"] = r[2]
                return r
            s.backend.check_cache = check_cache
            orig_get = s._get_cache

            def get_cache(job):
                last["type"] = None
                r = orig_get(job)
                job._rv_cache_type = last["type"]
                return r
            s._get_cache = get_cache

            def resolve(job, result):
                from redun.backends.base import CacheResult
                pre_hash = job.call_hash
                kids = [c for c in job.child_jobs if c.call_hash]
                orig_resolve(job, result)
                sub = sorted(tid(t.hash) for t in job.subtree_tasks)
                if pre_hash:
                    ct = getattr(job, "_rv_cache_type", None)
                    full = str(job.get_option("check_valid", "full")).lower().endswith("full")
                    # C = the parent job was itself served from the cache (single reduction), or there is none
                    pc = "C" if (job.parent_job is None or job.parent_job.was_cached) else ""
                    if ct == CacheResult.CSE:
                        events.append(f"EHitCSE{pc} {by_call[pre_hash]} {'true' if full else 'false'}")
                    else:
                        events.append(f"EHitUlt{pc} {tid(job.task.hash)} [{vid(job.args_hash)}]")
                else:
                    kidx = sorted(((c.call_hash, jobs_idx[c.id]) for c in kids))
                    rh = s.backend.type_registry.get_hash(result)
                    events.append(f"ERecord {tid(job.task.hash)} [{vid(job.args_hash)}] {vid(rh)} "
                                  f"{cq_list([str(i) for _, i in kidx])} []")
                jobs_idx[job.id] = state["n"]
                by_call.setdefault(job.call_hash, state["n"])
                state["n"] += 1
                job_subs.append(sub)
            s._resolve_job_main_thread = resolve
            events.append("ENewExec " + cq_list([str(tid(h)) for h in sorted(s.task_registry.task_hashes)]))
            import contextlib
            import io
            with contextlib.redirect_stderr(io.StringIO()):
                # tasks of the workload register when the module is imported; refresh the registry ids
                events[-1] = "ENewExec " + cq_list([str(tid(h)) for h in sorted(s.task_registry.task_hashes)])
                s.run(expr)
            final_backend = s.backend
        # final CallSubtreeTask table in model terms: rebuild trees from CallNode/CallEdge rows
        from redun.backends.db import CallEdge, CallNode, CallSubtreeTask
        sess = final_backend.session
        nodes = {cn.call_hash: cn for cn in sess.query(CallNode)}
        kids = {}
        for e in sess.query(CallEdge):
            kids.setdefault(e.parent_id, []).append((e.child_id, e.call_order))

        def tree(h):
            if h not in tree_of_hash:
                cn = nodes[h]
                ks = sorted(set(c for c, _ in kids.get(h, [])))
                # duplicates (the same child twice) keep their multiplicity
                mult = sorted(c for c, _ in kids.get(h, []))
                tree_of_hash[h] = (f"(Node {tid(cn.task_hash)} [{vid(cn.args_hash)}] {vid(cn.value_hash)} "
                                   + cq_list([tree(c) for c in mult]) + ")")
            return tree_of_hash[h]
        subs = [f"({tree(r.call_hash)}, {tid(r.task_hash)})" for r in sess.query(CallSubtreeTask)]
        sess.rollback()
        term = (f"trace_ok (gen_cfg 3) {cq_list(events)} {cq_list([cq_list([str(x) for x in js]) for js in job_subs])} "
                f"{cq_list(subs)}")
        return term, {"workload": name, "events": events[:40], "jobs": len(job_subs)}

    def correspond_traces(self, tag):
        work = scratch_dir("rv_trace_")
        cwd = os.getcwd()
        os.chdir(work)
        terms, descr = [], []
        try:
            rl.quiet()
            for name in rl.MODELLED_WORKLOADS:
                histories = ([rl.LEAF_V1[name]], [rl.LEAF_V1[name], rl.LEAF_V2[name]],
                             [rl.LEAF_V1[name], rl.LEAF_V1[name], rl.LEAF_V2[name]])
                for bodies in (histories[1:] if self.tier == "quick" else histories):
                    t, d = self.trace_case(name, bodies, work)
                    terms.append(t)
                    descr.append(d)
                    self.count(("trace", name, len(bodies)))
                    self.stat("trace_jobs", name, d["jobs"])
        finally:
            os.chdir(cwd)
            shutil.rmtree(work, ignore_errors=True)
        ok, failing, diags = run_bool_cases(tag, self.gen_requires(), "", terms, chunk=3)
        self.ob("correspondence",
                f"model ({self.variant}) predicts every job's subtree_tasks and the CallSubtreeTask table of {len(terms)} "
                f"real Scheduler runs (executed jobs, single-reduction, ultimate and CSE hits, re-runs after edits)",
                ok and not failing, "\n".join(diags) + "".join(f"\nmismatch: {json.dumps(descr[i])[:1500]}" for i in failing[:3]))

    # ------------------------------------------------------------------ end-to-end helpers
    def expected(self, name, body, work):
        key = (name, body)
        if key not in self._expected:
            db = rl.fresh_db(str(work), f"exp_{len(self._expected)}.db")
            st, r, _, s = rl.sched_run(name, body, db)
            rl.close_backend(s.backend)
            os.unlink(db)
            self._expected[key] = (st, r)
        return self._expected[key]

    def e2e(self, name, plan, work, tag, qfail=None):
        """run1 with faults (leaf v1); recovery run without edit; recovery run with the leaf edited.
        Returns dict with observations."""
        db = rl.fresh_db(str(work), f"{tag}.db")
        st1, r1, log1, s1 = rl.sched_run(name, rl.LEAF_V1[name], db, plan=plan, qfail=qfail)
        fault_site = next((site for _, f, site in log1 if f != FOK), None)
        if qfail is not None:
            q = [x for x in s1.rv_fates.qlog if x[0] == qfail]
            fault_site = q[0][2] if q else None
        rl.close_backend(s1.backend)
        st2, r2, _, s2 = rl.sched_run(name, rl.LEAF_V1[name], db)
        rl.close_backend(s2.backend)
        st3, r3, _, s3 = rl.sched_run(name, rl.LEAF_V2[name], db)
        rl.close_backend(s3.backend)
        b4 = rl.new_backend(db)
        fk = list(b4.session.execute(__import__("sqlalchemy").text("PRAGMA foreign_key_check")))
        incomplete = rl.subtree_oracle(b4)
        rl.close_backend(b4)
        os.unlink(db)
        e1 = self.expected(name, rl.LEAF_V1[name], work)
        e2 = self.expected(name, rl.LEAF_V2[name], work)
        return {"workload": name, "plan": plan, "site": fault_site, "run1": (st1, r1), "same": (st2, r2), "edited": (st3, r3),
                "expected_same": e1, "expected_edited": e2, "fk": fk, "incomplete": incomplete,
                "stale_same": (st2, r2) != e1, "stale_edited": (st3, r3) != e2}

    def replay(self, doc):
        r = doc.get("replay", {})
        if r.get("kind") == "e2e":
            work = scratch_dir("rv_replay_")
            cwd = os.getcwd()
            os.chdir(work)
            try:
                self._expected = {}
                o = self.e2e(r["workload"], r["plan"], work, "replay", qfail=r.get("statement_index"))
            finally:
                os.chdir(cwd)
                shutil.rmtree(work, ignore_errors=True)
                rl.cleanup_template()
                rl.cleanup_workloads()
            bad = o["stale_same"] or o["stale_edited"] or bool(o["fk"])
            print("replay:", json.dumps({k: repr(v) for k, v in o.items()})[:1500])
            print("replay:", "still fails" if bad else "holds now")
            return 1 if bad else 0
        print("replay: see the `replay` entry of the file (operation script / broken obligations):",
              json.dumps(doc.get("replay", doc.get("broken_obligations", [])))[:2000])
        return 1
