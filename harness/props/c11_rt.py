"""C11 runtime: a deterministic thread scheduler for the real redun.job_array.JobArrayer.

The class under test is the unmodified JobArrayer.  Only the module-level names `threading`
and `time` of redun.job_array are replaced (for the duration of one run) by shims, and the three
shared attributes (`pending`, `pending_timestamps`, `num_pending`) are recording proxies that
delegate to the real dict / defaultdict / int.  Exactly one controlled thread runs at a time.

Two modes:
  event mode  : a thread parks *before* every shared access ("event"); one controller step lets
                it perform exactly that access.  Used for the preemption-bounded enumeration.
  opcode mode : control is handed over at every bytecode instruction executed in
                redun/job_array.py (sys.settrace with f_trace_opcodes); accesses are only
                recorded.  Used for the randomised stress.
In both modes the recorded event log (thread, label, clock value) IS the model schedule
(Model/Arrayer.v: one model step per event, same labels).
"""
from __future__ import annotations

import sys
import threading as real_threading
import traceback
from collections import defaultdict

# labels (Model/Arrayer.v label_adder / label_monitor)
ACQ, BLOCKED, PGET, TIME, TSSET, NGET, NSET, REL, ALIVE, SUBMIT, WAIT, ITER, NEXT, TSGET, PPOP, TSPOP, \
    ONERR, EXIT = range(1, 19)
UNEXPECTED = 99
LABEL_NAMES = {1: "lock.acquire", 2: "lock.acquire(blocked)", 3: "pending[descr]", 4: "time.time()",
               5: "pending_timestamps[descr]=", 6: "read num_pending", 7: "write num_pending", 8: "lock.release",
               9: "Thread.is_alive()", 10: "_submit_jobs(batch)", 11: "_exit_flag.wait()", 12: "iter(pending)",
               13: "next(iter)", 14: "pending_timestamps[descr]", 15: "pending.pop(descr)",
               16: "pending_timestamps.pop(descr)", 17: "_on_error(error)", 18: "monitor thread exits",
               99: "unexpected access"}


class Abort(BaseException):
    """Unwinds a controlled thread at the end of a run (not caught by `except Exception`)."""


class StepTimeout(Exception):
    pass


class Ctl:
    def __init__(self, opcode_mode: bool, files=(), clock=None):
        self.opcode_mode = opcode_mode
        self.files = set(files)
        self.sems: dict[str, real_threading.Semaphore] = {}
        self.back = real_threading.Semaphore(0)
        self.state: dict[str, str] = {}      # name -> "parked" | "done"
        self.next_label: dict[str, int | None] = {}
        self.mark: dict[str, bool] = {}      # adder: between two add_job calls
        self.log: list[tuple[str, int, int]] = []
        self.aborting = False
        self.to_prime: list[str] = []
        self.threads: dict[str, real_threading.Thread] = {}
        self.clock = clock or (lambda who: 0)
        self.lock_owner = None
        self.extra: list = []                # (index in log, "get"/"set", value) for num_pending
        self.lock_wait: dict[str, bool] = {}  # opcode mode: spinning on the lock
        self.sleeping: dict[str, bool] = {}   # opcode mode: inside Event.wait()
        self.n_mon = 0

    # ---- called inside controlled threads ----
    def me(self):
        n = real_threading.current_thread().name
        return n if n in self.sems else None

    def _yield(self):
        me = self.me()
        if self.aborting:
            raise Abort()
        self.back.release()
        self.sems[me].acquire()
        if self.aborting:
            raise Abort()

    def pre(self, label):
        """Before a shared access. event mode: park here until scheduled."""
        me = self.me()
        if me is None:
            return False
        if self.aborting:
            raise Abort()
        if not self.opcode_mode:
            self.next_label[me] = label
            self._yield()
            self.next_label[me] = None
        return True

    def rec(self, label, value=0):
        me = self.me()
        if me is None:
            return
        self.mark[me] = False
        self.log.append((me[0], label, value))

    def on_instruction(self):
        """opcode mode: called (sys.monitoring INSTRUCTION event) before every bytecode instruction
        of redun/job_array.py"""
        if self.opcode_mode and not self.aborting and self.me() is not None:
            self._yield()

    # ---- controller side ----
    def spawn(self, name, fn, from_controlled=False):
        self.sems[name] = real_threading.Semaphore(0)
        self.state[name] = "parked"
        self.next_label[name] = None
        self.mark[name] = False

        def body():
            self.sems[name].acquire()
            try:
                if self.aborting:
                    return
                fn()
            except Abort:
                pass
            finally:
                self.state[name] = "done"
                self.back.release()

        t = real_threading.Thread(target=body, name=name, daemon=True)
        self.threads[name] = t
        t.start()
        if not self.opcode_mode:
            self.to_prime.append(name)

    def _go(self, name, timeout=20.0):
        self.sems[name].release()
        if not self.back.acquire(timeout=timeout):
            raise StepTimeout(f"thread {name} did not yield within {timeout}s")

    def step(self, name):
        """Let `name` run until it yields next. Returns False if it has finished."""
        if self.state.get(name) != "parked":
            return False
        self._go(name)
        self.prime()
        return True

    def prime(self):
        # event mode: run freshly spawned threads up to their first event (thread-local prelude)
        while self.to_prime:
            n = self.to_prime.pop()
            if self.state.get(n) == "parked":
                self._go(n)

    def runnable(self, name):
        return self.state.get(name) == "parked"

    def blocked(self, name):
        """parked before an acquire (event mode) / spinning on it (opcode mode) while the other
        thread owns the lock"""
        if self.lock_owner in (None, name):
            return False
        return self.next_label.get(name) == ACQ or self.lock_wait.get(name, False)

    def at_wait(self, name):
        """the monitor sleeps in (event mode: is about to enter) _exit_flag.wait()"""
        return self.next_label.get(name) == WAIT or self.sleeping.get(name, False)

    def shutdown(self):
        self.aborting = True
        for n, stt in list(self.state.items()):
            if stt == "parked":
                try:
                    self._go(n, timeout=5.0)
                except StepTimeout:
                    pass
        for t in self.threads.values():
            t.join(timeout=2.0)


# ---------------------------------------------------------------- per-instruction events
# sys.settrace cannot be used here: on CPython 3.12.1 a second thread calling sys.settrace while
# another thread is suspended inside instrumented code crashes the interpreter.  sys.monitoring
# local INSTRUCTION events are installed once per process, before any controlled thread exists.
_CUR: list = [None]
_TOOL = 4
_INSTALLED = [False]


def install_instruction_events(ja):
    if _INSTALLED[0]:
        return
    import types
    mon = sys.monitoring
    mon.use_tool_id(_TOOL, "rv_c11")

    def cb(code, offset):
        ctl = _CUR[0]
        if ctl is not None:
            ctl.on_instruction()

    mon.register_callback(_TOOL, mon.events.INSTRUCTION, cb)
    for cls in (ja.JobArrayer, ja.JobDescription):
        for f in vars(cls).values():
            if isinstance(f, types.FunctionType):
                mon.set_local_events(_TOOL, f.__code__, mon.events.INSTRUCTION)
    _INSTALLED[0] = True


# ---------------------------------------------------------------- shims
class CLock:
    def __init__(self, ctl: Ctl):
        self.ctl = ctl

    def acquire(self, blocking=True, timeout=-1):
        ctl = self.ctl
        me = ctl.me()
        if me is None:
            if ctl.lock_owner is not None:
                raise RuntimeError("controller touching a held lock")
            ctl.lock_owner = "ctl"
            return True
        while True:
            ctl.pre(ACQ)
            if ctl.lock_owner is None:
                ctl.lock_owner = me
                ctl.rec(ACQ)
                return True
            ctl.rec(BLOCKED)
            if not blocking:
                return False
            if ctl.opcode_mode:
                ctl.lock_wait[me] = True
                try:
                    ctl._yield()
                finally:
                    ctl.lock_wait[me] = False

    def release(self):
        ctl = self.ctl
        if ctl.me() is None or ctl.aborting:
            ctl.lock_owner = None
            return
        ctl.pre(REL)
        ctl.lock_owner = None
        ctl.rec(REL)

    def __enter__(self):
        self.acquire()
        return self

    def __exit__(self, *a):
        self.release()
        return False

    def locked(self):
        self.ctl.rec(UNEXPECTED)
        return self.ctl.lock_owner is not None


class CEvent:
    def __init__(self, ctl):
        self.ctl = ctl
        self.flag = False

    def wait(self, timeout=None):
        ctl = self.ctl
        ctl.pre(WAIT)
        ctl.rec(WAIT)
        me = ctl.me()
        if ctl.opcode_mode and me is not None:
            ctl.sleeping[me] = True          # the thread sleeps here: a voluntary switch point
            try:
                ctl._yield()
            finally:
                ctl.sleeping[me] = False
        return self.flag

    def clear(self):
        self.flag = False

    def set(self):
        self.ctl.rec(UNEXPECTED)
        self.flag = True

    def is_set(self):
        self.ctl.rec(UNEXPECTED)
        return self.flag


class CThread:
    def __init__(self, ctl, target=None, daemon=None, name=None, args=(), kwargs=None):
        self.ctl = ctl
        self.target = target
        self.started = False
        self.dead = False

    def is_alive(self):
        self.ctl.pre(ALIVE)
        self.ctl.rec(ALIVE)
        return self.started and not self.dead

    def start(self):
        if self.started:
            raise RuntimeError("threads can only be started once")
        self.started = True
        ctl = self.ctl
        ctl.n_mon += 1
        name = f"M{ctl.n_mon}"

        def body():
            try:
                self.target()
            finally:
                if not ctl.aborting:
                    ctl.pre(EXIT)
                    ctl.rec(EXIT)
                self.dead = True

        ctl.spawn(name, body)

    def join(self, timeout=None):
        self.ctl.rec(UNEXPECTED)


class ThreadingShim:
    def __init__(self, ctl):
        self.ctl = ctl

    def Lock(self):
        return CLock(self.ctl)

    def Event(self):
        return CEvent(self.ctl)

    def Thread(self, *a, **k):
        return CThread(self.ctl, *a, **k)

    def __getattr__(self, name):
        raise AttributeError(f"redun.job_array uses threading.{name}, which the C11 harness does not model")


class TimeShim:
    def __init__(self, ctl):
        self.ctl = ctl

    def time(self):
        ctl = self.ctl
        me = ctl.me()
        ctl.pre(TIME)
        v = ctl.clock(me[0] if me else "c")
        ctl.rec(TIME, v)
        return v

    def __getattr__(self, name):
        raise AttributeError(f"redun.job_array uses time.{name}, which the C11 harness does not model")


class RecIter:
    def __init__(self, it, ctl):
        self.it, self.ctl = it, ctl

    def __iter__(self):
        return self

    def __next__(self):
        self.ctl.pre(NEXT)
        self.ctl.rec(NEXT)
        return next(self.it)


def _unexpected(name):
    def f(self, *a, **k):
        self._ctl.rec(UNEXPECTED)
        return getattr(super(type(self), self), name)(*a, **k)
    f.__name__ = name
    return f


class RecPending(defaultdict):
    """self.pending: a real defaultdict(list); accesses by controlled threads are recorded."""
    _ctl: Ctl = None

    _in_get = False

    # The event is recorded when the dict operation has completed: a dict operation runs the
    # key's Python-level __hash__/__eq__ first (where, at bytecode granularity, the other thread
    # may run) and takes effect atomically afterwards.
    def __getitem__(self, k):
        c = self._ctl.pre(PGET)
        self._in_get = True          # defaultdict.__missing__ stores through __setitem__
        try:
            return super().__getitem__(k)
        finally:
            self._in_get = False
            if c:
                self._ctl.rec(PGET)

    def __setitem__(self, k, v):
        if not self._in_get:
            self._ctl.rec(UNEXPECTED)
        return super().__setitem__(k, v)

    def pop(self, k, *a):
        c = self._ctl.pre(PPOP)
        try:
            return super().pop(k, *a)
        finally:
            if c:
                self._ctl.rec(PPOP)

    def __iter__(self):
        if self._ctl.me() is None:
            return super().__iter__()
        self._ctl.pre(ITER)
        self._ctl.rec(ITER)
        return RecIter(super().__iter__(), self._ctl)


class RecStamps(dict):
    _ctl: Ctl = None

    def __getitem__(self, k):
        c = self._ctl.pre(TSGET)
        try:
            return super().__getitem__(k)
        finally:
            if c:
                self._ctl.rec(TSGET)

    def __setitem__(self, k, v):
        c = self._ctl.pre(TSSET)
        try:
            return super().__setitem__(k, v)
        finally:
            if c:
                self._ctl.rec(TSSET)

    def pop(self, k, *a):
        c = self._ctl.pre(TSPOP)
        try:
            return super().pop(k, *a)
        finally:
            if c:
                self._ctl.rec(TSPOP)


for _cls, _names in ((RecPending, ["__delitem__", "__contains__", "get", "keys", "values", "items",
                                   "setdefault", "popitem", "clear", "update", "__len__", "copy"]),
                     (RecStamps, ["__delitem__", "__contains__", "get", "keys", "values", "items", "setdefault",
                                  "popitem", "clear", "update", "__len__", "__iter__", "copy"])):
    for _n in _names:
        setattr(_cls, _n, _unexpected(_n))


class FakeTask:
    def __init__(self, fullname, script=False):
        self.fullname = fullname
        self.script = script


class FakeJob:
    """What JobArrayer needs of a redun Job: .task.script, .task.fullname, .get_options()."""

    def __init__(self, jid, fullname, options, script=False):
        self.jid = jid
        self.task = FakeTask(fullname, script)
        self._options = options

    def get_options(self):
        return self._options

    def __repr__(self):
        return f"J{self.jid}"


class Run:
    """One controlled execution.  spec = {"jobs": [[name, options-dict, script], ...],
    "min": int, "max": int, "stale": int}"""

    def __init__(self, spec, opcode_mode=False, clock=None):
        import redun.job_array as ja
        self.ja = ja
        self.spec = spec
        self.ctl = Ctl(opcode_mode, files=[ja.__file__], clock=clock)
        self.subs: list[tuple[str, list[int]]] = []
        self.errs: list[dict] = []
        self.outs: list[list[int]] = []
        self.jobs = [FakeJob(i, n, dict(o), s) for i, (n, o, s) in enumerate(spec["jobs"])]
        self.saved = (ja.threading, ja.time)
        ctl = self.ctl
        run = self

        class TracedArrayer(ja.JobArrayer):
            @property
            def num_pending(self):
                if ctl.pre(NGET):
                    ctl.rec(NGET)
                    ctl.extra.append((len(ctl.log) - 1, "get", self.__dict__["_np"]))
                return self.__dict__["_np"]

            @num_pending.setter
            def num_pending(self, v):
                if ctl.pre(NSET):
                    ctl.rec(NSET, 0)
                    ctl.extra.append((len(ctl.log) - 1, "set", v))
                self.__dict__["_np"] = v

        def submit(batch):
            me = ctl.me()
            ctl.pre(SUBMIT)
            ctl.rec(SUBMIT)
            who = me[0] if me else "c"
            run.subs.append((who, list(batch)))
            run.outs.append([0 if who == "A" else 1] + [j.jid for j in batch])

        def on_error(error):
            ctl.pre(ONERR)
            ctl.rec(ONERR)
            # bookkeeping first: str(error) below calls JobDescription.__repr__, which is traced code
            # (the other thread may run there at bytecode granularity)
            at = len(ctl.log) - 1
            run.outs.append([2] if isinstance(error, RuntimeError) else [3] if isinstance(error, KeyError) else [9])
            rec_ = {"type": type(error).__name__, "msg": "", "site": "?", "at": at}
            run.errs.append(rec_)
            tb = traceback.extract_tb(error.__traceback__)
            rec_["site"] = next((f.name for f in reversed(tb) if f.filename == ja.__file__), "?")
            rec_["msg"] = str(error)[:80]

        if opcode_mode:
            install_instruction_events(ja)
        _CUR[0] = ctl
        ja.threading = ThreadingShim(ctl)
        ja.time = TimeShim(ctl)
        try:
            self.a = TracedArrayer(submit, on_error, submit_interval=1000.0, stale_time=spec["stale"],
                                   min_array_size=spec["min"], max_array_size=spec["max"])
        except BaseException:
            self.restore()
            raise
        p = RecPending(list)
        p._ctl = ctl
        s = RecStamps()
        s._ctl = ctl
        self.a.pending = p
        self.a.pending_timestamps = s
        self.n_done = 0                      # add_job calls that have returned

        def adder():
            for j in run.jobs:
                ctl.mark["A"] = True         # between two add_job calls
                run.a.add_job(j)
                run.n_done += 1
            ctl.mark["A"] = True

        ctl.spawn("A", adder)
        ctl.prime()

    # ---- observation (controller thread; not recorded) ----
    def monitor(self):
        """name of the live (parked) monitor thread, or None"""
        for n in sorted(self.ctl.state, reverse=True):
            if n.startswith("M") and self.ctl.state[n] == "parked":
                return n
        return None

    def thread(self, who):
        return "A" if who == "A" else self.monitor()

    def pending_obs(self):
        return [(k, [j.jid for j in v]) for k, v in dict.items(self.a.pending)]

    def npend(self):
        return self.a.__dict__["_np"]

    def handed(self):
        return [j.jid for _, b in self.subs for j in b]

    def restore(self):
        _CUR[0] = None
        self.ja.threading, self.ja.time = self.saved

    def close(self):
        try:
            self.ctl.shutdown()
        finally:
            self.restore()
