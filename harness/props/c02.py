"""C02 — Cached executions return what an uncached run would return.

translate : translate/tr_cache.py -> coq/Gen/C02Gen.v (decision chain of _get_cache, the two variant
            switches, key-shape facts; pins in translate/pins_C02.json)
correspond: generated histories (<= 6 executions, body edits / version bumps / reverts / argument
            changes / input-file rewrites) on a REAL sqlite backend; every execution and the same
            execution on an empty backend are compared with Model/CacheHist.v (result and the set
            of task bodies that ran) in the variant the translator extracted
oracle    : on the same real runs, shared-backend result vs empty-backend result, no model involved;
            plus the Coq refutation witnesses replayed on the real code
replay    : re-runs a recorded history on the real code
"""
from __future__ import annotations

import json
import os
import shutil
import tempfile
import time
from concurrent.futures import ProcessPoolExecutor
import multiprocessing

from harness.lib import (GEN, NCPU, Finding, PropertyCheck, TranslateError, VERIF, run_bool_cases)
from harness.props import c02_prog as cp
from harness.props import c02_src as cs
from translate import astutil, tr_cache

PINS = json.loads((VERIF / "translate" / "pins_C02.json").read_text())
FUEL = 40
HISTORY_TIMEOUT_S = 40
MAX_TIMEOUTS = 4

K_CATCH = "catch:private-entry-replayed-after-change-in-caught-subtree"
K_PROJ = "validity:File-inside-SimpleExpression-of-cached-reduction-not-checked"

N = ("num",)


def _c(t, a):
    return ("call", t, a)


# The witnesses of Proofs/CacheHistWitness.v (same programs and histories).
WITNESSES = {
    "Wc": dict(prog={(0, 0): (None, ("catch", _c(1, ("num", 0)), 2)),
                     (1, 0): ((("proj", ()), 0, 1), ("num", 5)),
                     (1, 2): (None, ("num", 7)),
                     (2, 0): (None, ("num", 9))},
               ops=[("run", _c(0, ("num", 0))), ("edit", 1, 1), ("run", _c(0, ("num", 0)))],
               ntasks=3, npaths=1, site="catch"),
    "Wf": dict(prog={(0, 0): (None, ("catch", _c(1, ("proj", ())), 2)),
                     (1, 0): (None, _c(3, ("file", 0))),
                     (3, 0): ((("read", ()), 0, 1), ("read", ())),
                     (2, 0): (None, ("num", 9))},
               ops=[("run", _c(0, ("num", 0))), ("rewrite", 0, 5), ("run", _c(0, ("num", 0)))],
               ntasks=4, npaths=1, site="catch"),
    "Wv": dict(prog={(0, 0): (None, ("catch", _c(1, ("num", 0)), 2)),
                     (1, 0): ((("proj", ()), 0, 1), ("num", 5)),
                     (1, 3): (None, ("num", 7)),
                     (2, 0): (None, ("proj", ()))},
               ops=[("run", _c(0, ("num", 0))), ("bump", 1, 1), ("run", _c(0, ("num", 0))), ("revert", 1, 1),
                    ("run", _c(0, ("num", 0)))],
               ntasks=3, npaths=1, site="catch"),
    "Wp": dict(prog={(0, 0): (None, ("get", 0, _c(1, ("file", 0)))),
                     (1, 0): (None, ("pair", ("read", ()), ("num", 1)))},
               ops=[("run", _c(0, ("num", 0))), ("rewrite", 0, 5), ("run", _c(0, ("num", 0)))],
               ntasks=2, npaths=1, site="proj"),
}


def _workdir():
    base = "/dev/shm" if os.path.isdir("/dev/shm") and os.access("/dev/shm", os.W_OK) else None
    return tempfile.mkdtemp(prefix="rv_c02_", dir=os.environ.get("VERIF_TMP") or base)


_TIMEOUTS = None      # shared counter of timed-out histories (set by the pool initializer)


def _init_worker(tmpl_base, counter):
    global _TIMEOUTS
    _TIMEOUTS = counter
    cp.TEMPLATE_BASE = tmpl_base
    cp.quiet()
    cp.template_db()      # migrate once per worker, outside any history's time limit


class _Timeout(BaseException):
    pass


def _alarm(signum, frame):
    raise _Timeout()


def _run_case(case):
    """Worker: one history on the real code (own process: the task registry is per process).
    A history normally takes about a second; one that does not finish within HISTORY_TIMEOUT_S is
    tried once more (machine load), then reported; after MAX_TIMEOUTS reports the remaining
    histories are skipped (a livelocking scheduler would otherwise cost the whole budget)."""
    import signal
    cp.quiet()
    msg = ""
    for attempt in (0, 1):
        if _TIMEOUTS is not None and _TIMEOUTS.value >= MAX_TIMEOUTS:
            return ("crash", "skipped: too many histories did not finish on the real scheduler")
        wd = _workdir()
        old = signal.signal(signal.SIGALRM, _alarm)
        signal.alarm(HISTORY_TIMEOUT_S)
        try:
            if case.get("kind") == "src":
                return cs.run_src_history(case, wd)
            return cp.run_history_real(case, wd)
        except _Timeout:
            msg = f"the history did not finish within {HISTORY_TIMEOUT_S} s (twice) on the real scheduler (livelock?)"
        except Exception as e:  # noqa
            import traceback
            return ("crash", f"{type(e).__name__}: {e}\n{traceback.format_exc()[-1500:]}")
        finally:
            signal.alarm(0)
            signal.signal(signal.SIGALRM, old)
            shutil.rmtree(wd, ignore_errors=True)
    if _TIMEOUTS is not None:
        with _TIMEOUTS.get_lock():
            _TIMEOUTS.value += 1
    return ("crash", msg)


def directed_case(rng, kind):
    """Histories aimed at the two defect sites (so that the known findings are met by search, not
    only by the fixed witnesses): a catch around a call chain whose leaf fails, or a lazy x[i]
    over a reader of a File; then an edit / rewrite that changes the outcome."""
    leafarg = rng.randrange(3)
    if kind == "catch":
        depth = rng.randrange(1, 3)
        prog = {(0, 0): (None, ("catch", _c(1, ("proj", ())), 4)), (4, 0): (None, rng.choice([("num", 9), ("proj", ())]))}
        for t in range(1, depth):
            prog[(t, 0)] = (None, _c(t + 1, ("proj", ())))
        leaf = depth
        byfile = rng.random() < 0.4
        if byfile:
            prog[(leaf, 0)] = (None, _c(3, ("file", 0)))
            prog[(3, 0)] = ((("read", ()), 0, 2), ("read", ()))
            change = [("rewrite", 0, rng.randrange(1, 4))]
        else:
            prog[(leaf, 0)] = ((("proj", ()), leafarg, 1), ("num", 5))
            k = rng.choice(["edit", "bump"])
            cid = 2 if k == "edit" else 3
            prog[(leaf, cid)] = rng.choice([(None, ("num", 7)), ((("proj", ()), leafarg, 2), ("num", 5))])
            change = [(k, leaf, 1)]
        root = _c(0, ("num", leafarg))
        ops = [("run", root)] + change + [("run", root)]
        if not byfile and rng.random() < 0.5:
            ops += [("revert", leaf, 1), ("run", root)]
        return dict(prog=prog, ops=ops, ntasks=5, npaths=1)
    prog = {(0, 0): (None, ("get", rng.randrange(2), _c(1, rng.choice([("file", 0), ("pair", ("proj", ()), ("file", 0))])))),
            (1, 0): (None, ("pair", ("read", ()), ("num", 1)))}
    if prog[(0, 0)][1][2][2][0] == "pair":
        prog[(1, 0)] = (None, ("pair", ("read", (1,)), ("proj", (0,))))
    root = _c(0, ("num", leafarg))
    ops = [("run", root), ("rewrite", 0, rng.randrange(1, 4)), ("run", root)]
    if rng.random() < 0.5:
        ops += [("rewrite", 0, 0), ("run", root)]
    return dict(prog=prog, ops=ops, ntasks=2, npaths=1)


class Check(PropertyCheck):
    id = "C02"
    module = "Props.C02"
    theorems = ["C02_holds_fixed", "C02_holds_fixed_from", "C02_invariant_preserved", "C02_cached_eq_fresh_any_semantics",
                "C02_refuted_catch", "C02_refuted_catch_witness", "C02_refuted_catch_rewrite", "C02_refuted_proj",
                "C02_refuted_proj_witness", "C02_nonvacuous"]
    allowed_axioms = []
    section_premises = []
    assumptions = [
        "hashes are modelled by the structures they hash: task hash = (task name, code id), args hash = evaluated argument value, "
        "File hash = (path, stamp); collision freedom and the hash structure are the subject of C14-C18",
        "the stamp (size, mtime) of an input file identifies its content (the property's 'distinct size or mtime' clause): "
        "content is a function of the stamp in the model",
        "a versioned task's version string identifies its body (redun's contract for version=): BumpVersion installs a body determined by the version",
        "task bodies of the family touch files only through File values in their argument or their result (redun's file contract; "
        "proved for the family: lang_fresh / lang_local) and are deterministic",
        "not modelled, result-equivalent: common-subexpression elimination inside one execution; out of the family: "
        "check_valid='shallow' (C03), Handles (C25), contexts (C05), task options, x[i] on an immediate tuple",
        "concurrent failures: when an error propagates through a tuple whose other component still has lazy work, which error "
        "surfaces and what has been recorded is schedule dependent; such executions are excluded from the exact comparison (counted as racy)",
    ]
    rule = ("histories of 2-6 executions over a generated 5-task program family (typed random bodies: guards that raise, File reads, "
            "lazy calls, tuples, x[i], catch) with 1-3 ops between executions drawn from body edit / version bump / revert / "
            "input-file rewrite (fresh or earlier stamp) / new root expression; plus directed histories at the catch and x[i] sites and "
            "the 4 Coq witnesses; non-trivial = the history has at least one edit or rewrite and a later execution with a cache hit; "
            "distinct by repr of (program, ops); plus source-level histories: tasks in real module files rewritten and re-imported "
            "between executions, one family per cosmetic-looking but behaviour-changing edit (inside string literals with '#', "
            "triple-quoted values, f-strings / format specs, whitespace, indentation, default arguments, nested helpers, lambdas, "
            "hash_includes), each edit + revert and random variant sequences")

    # ------------------------------------------------------------------ translate
    def translate(self):
        GEN.mkdir(exist_ok=True)
        p = GEN / "C02Gen.v"
        for ext in (".vo", ".vok", ".vos", ".glob"):      # never let the cases run against a stale tie
            if p.with_suffix(ext).exists():
                p.with_suffix(ext).unlink()
        try:
            text, variant, _ = tr_cache.translate(pins=PINS)
        except astutil.TranslateError as e:
            raise TranslateError(str(e))
        self.variant = variant
        self.gen_ok = True
        p.write_text(text)
        return [p]

    # ------------------------------------------------------------------ real runs (shared by correspond and oracle)
    def cases(self):
        if hasattr(self, "_cases"):
            return self._cases
        if not hasattr(self, "variant"):
            try:
                self.variant = tr_cache.translate(pins=None)[1]
            except Exception:  # noqa
                self.variant = (False, True)
        n_rand = 70 if self.tier == "quick" else 1500
        n_dir = 12 if self.tier == "quick" else 200
        cases = []
        for name, w in WITNESSES.items():
            cases.append(("witness:" + name, {k: w[k] for k in ("prog", "ops", "ntasks", "npaths")}))
        corpus = VERIF / "corpus" / "C02.jsonl"
        if corpus.exists():
            for i, line in enumerate(corpus.read_text().splitlines()):
                if line.strip():
                    cases.append((f"corpus:{i}", cp.from_json(json.loads(line))))
        for i in range(n_dir):
            cases.append((f"directed:{i}", directed_case(self.rng, "catch" if i % 2 == 0 else "proj")))
        for i in range(n_rand):
            fam = cp.Family(self.rng)
            cases.append((f"random:{i}", fam.gen_history(self.rng.randrange(2, 7))))
        # source-level edit histories (tasks defined in module files, rewritten and re-imported)
        for f in cs.FAMILIES:
            cases.append((f"src:{f['name']}:0", cs.gen_case(self.rng, f["name"], simple=True)))
            for i in range(1, 2 if self.tier == "quick" else 6):
                if len(f["variants"]) > 2:
                    cases.append((f"src:{f['name']}:{i}", cs.gen_case(self.rng, f["name"])))
        t0 = time.time()
        # workers are spawned (no state, locks or threads inherited from this process) and make
        # their own migrated template database under a directory this process removes
        ctx = multiprocessing.get_context("spawn")
        tmpl = _workdir()
        counter = ctx.Value("i", 0)
        try:
            with ProcessPoolExecutor(max_workers=min(NCPU, 8), mp_context=ctx, initializer=_init_worker,
                                     initargs=(tmpl, counter)) as ex:
                reals = list(ex.map(_run_case, [c for _, c in cases], chunksize=2))
        finally:
            shutil.rmtree(tmpl, ignore_errors=True)
        self.stat("timing", "real_runs_wall_s", int(time.time() - t0))
        self._cases = []
        self._src_cases = []
        for (tag, case), real in zip(cases, reals):
            if case.get("kind") == "src":
                self._src_cases.append(dict(tag=tag, case=case, real=real))
                continue
            pv, cc = self.variant
            mir = cp.mirror_hist(case["prog"], case["ops"], pv, cc)
            mfr = cp.mirror_hist(case["prog"], case["ops"], pv, cc, fresh=True)
            self._cases.append(dict(tag=tag, case=case, real=real, mir=mir, mfr=mfr))
        return self._cases

    # ------------------------------------------------------------------ correspondence
    def correspond(self):
        terms, descr = [], []
        # the variant and chain of the regenerated tie; if the translator failed closed, the last
        # variant it could still extract (or the shipped one) so that the comparison still runs
        gen_ok = getattr(self, "gen_ok", False) and (GEN / "C02Gen.vo").exists()
        b = lambda x: "true" if x else "false"
        self.cases()
        gv = "gen_variant gen_chain" if gen_ok else f"(mkVariant {b(self.variant[0])} {b(self.variant[1])}) code_chain"
        pre = ("Definition incl_b (a b : list (tname * code * val)) := forallb (fun x => existsb (call_eqb x) b) a.\n"
               "Definition out_eqb' (a b : res * list (tname * code * val)) := res_eqb (fst a) (fst b) && incl_b (snd a) (snd b) && incl_b (snd b) (snd a).\n")
        racy = 0
        crashed = []
        for c in self.cases():
            case, real = c["case"], c["real"]
            if isinstance(real, tuple) and real and real[0] == "crash":
                crashed.append((c["tag"], real[1]))
                continue
            # exact comparison up to (excluding) the first execution with concurrently failing siblings
            upto = len(real)
            for j, ((m, info), (mf, finfo)) in enumerate(zip(c["mir"], c["mfr"])):
                if info["hazard"] or finfo["hazard"]:
                    upto = j
                    racy += 1
                    break
            for j in range(upto):
                for which in (0, 1):
                    if real[j][which][0][0] == "exc":
                        upto = min(upto, j)
            c["upto"] = upto
            nontriv = any(o[0] != "run" for o in case["ops"]) and any(info["hits"] for _, info in c["mir"][1:])
            self.count(repr((sorted(case["prog"].items()), case["ops"])) if nontriv else None, n=len(real))
            for o in case["ops"]:
                self.stat("ops", o[0])
            for (m, info) in c["mir"]:
                self.stat("execution_result", m[0][0])
                self.stat("execution_cache", "hit" if info["hits"] else "no-hit")
                if info["invalid"]:
                    self.stat("execution_cache", "row-invalid(File/Task changed)")
                if info["catch_replays"]:
                    self.stat("execution_cache", "catch-replayed-recover")
            self.sample({"tag": c["tag"], "ops": [list(map(str, o)) for o in case["ops"]][:8],
                         "shared": [str(r[0][0]) for r in real], "fresh": [str(r[1][0]) for r in real]}, 4)
            if upto == 0:
                continue
            prog, ops = cp.cq_prog(case["prog"]), cp.cq_ops(case["ops"])
            exp_s = "[" + "; ".join(cp.cq_out(real[j][0]) for j in range(upto)) + "]"
            exp_f = "[" + "; ".join(cp.cq_out(real[j][1]) for j in range(upto)) + "]"
            terms.append(f"list_eqb out_eqb' (firstn {upto} (run_hist {gv} content_id {prog} {FUEL} h0 {ops})) {exp_s}")
            descr.append((c["tag"], "shared backend", cp.to_json(case)))
            terms.append(f"list_eqb out_eqb' (firstn {upto} (run_fresh {gv} content_id {prog} {FUEL} h0 {ops})) {exp_f}")
            descr.append((c["tag"], "empty backend", cp.to_json(case)))
        self.stat("correspondence", "histories_with_racy_execution(prefix compared)", racy)
        self.ob("correspondence", "every generated history ran on the real scheduler", not crashed,
                "\n".join(f"{t}: {m}" for t, m in crashed[:3]))
        ok, failing, diags = run_bool_cases("C02", ["Model.CacheHist"] + (["Gen.C02Gen"] if gen_ok else []), pre, terms, chunk=40)
        self.ob("correspondence", f"model (variant extracted from the source: proj_valid={self.variant[0]}, catch_cache={self.variant[1]}) == "
                f"real Scheduler + sqlite backend on {len(terms)} history runs (result and set of executed task bodies of every execution, "
                f"shared backend and empty backend)", ok and not failing,
                "\n".join(diags) + "".join(f"\nmismatch: {descr[i][0]} ({descr[i][1]}): {json.dumps(descr[i][2])[:1500]}" for i in failing[:4]))
        self.mismatches = [descr[i] for i in failing]

    # ------------------------------------------------------------------ oracle
    def classify(self, case, j):
        """Which defect site explains a stale execution j (by the mirror; only to choose the key)."""
        pv, cc = self.variant
        fresh = [r for r, _ in cp.mirror_hist(case["prog"], case["ops"], True, False, fresh=True)]
        here = [r for r, _ in cp.mirror_hist(case["prog"], case["ops"], pv, cc)]
        if here[j][0] == fresh[j][0]:
            return None                      # the model does not predict this staleness at all
        no_catch = [r for r, _ in cp.mirror_hist(case["prog"], case["ops"], pv, False)]
        no_proj = [r for r, _ in cp.mirror_hist(case["prog"], case["ops"], True, cc)]
        if cc and no_catch[j][0] == fresh[j][0]:
            return K_CATCH
        if not pv and no_proj[j][0] == fresh[j][0]:
            return K_PROJ
        both = [r for r, _ in cp.mirror_hist(case["prog"], case["ops"], True, False)]
        if both[j][0] == fresh[j][0]:
            return K_CATCH + "+" + K_PROJ
        return None

    def decide(self, case, real, mfr_fixed):
        """[(j, shared result, fresh result)] for the executions that violate the property."""
        bad = []
        for j, (sh, fr) in enumerate(real):
            if mfr_fixed[j][1]["hazard"]:
                continue                     # concurrent failures: several answers are admissible
            if sh[0] != fr[0]:
                bad.append((j, sh[0], fr[0]))
        return bad

    def oracle(self):
        n = nbad = 0
        seen_sites = set()
        crashes = []
        for c in self.cases():
            case, real = c["case"], c["real"]
            if isinstance(real, tuple) and real and real[0] == "crash":
                if len(crashes) < 3:
                    crashes.append(Finding("unexplained:crash:" + c["tag"], f"history {c['tag']}: {real[1][:300]}",
                                           {"kind": "history", "case": cp.to_json(case), "run": -1}))
                continue
            ref = cp.mirror_hist(case["prog"], case["ops"], True, False, fresh=True)
            n += len(real)
            self.evaluations += len(real)
            for j, sh, fr in self.decide(case, real, ref):
                nbad += 1
                key = self.classify(case, j)
                if key is None:
                    key = "unexplained:" + c["tag"] + ":" + repr(case["ops"])[:120]
                for k in key.split("+"):
                    seen_sites.add(k)
                self.stat("oracle_stale_by_site", key if not key.startswith("unexplained") else "unexplained")
                what = (f"history {c['tag']}: execution {j} returns {sh} on the shared backend, {fr} on an empty backend "
                        f"(ops: {case['ops']})")[:600]
                for k in (key.split("+") if not key.startswith("unexplained") else [key]):
                    self.findings.append(Finding(k, what, {"kind": "history", "case": cp.to_json(case), "run": j,
                                                           "shared": repr(sh), "fresh": repr(fr)}))
                break
        # source-level edit histories: no model, no known finding applies here
        nsrc = 0
        for c in self._src_cases:
            case, real = c["case"], c["real"]
            detect = cs.BY_NAME[case["family"]]["detect"]
            if isinstance(real, tuple) and real and real[0] == "crash":
                if detect and len(crashes) < 3:
                    crashes.append(Finding("unexplained:crash:" + c["tag"], f"history {c['tag']}: {real[1][:300]}",
                                           {"kind": "srchistory", "case": case}))
                continue
            nsrc += len(real)
            self.count(("src", case["family"], tuple(case["seq"])), n=len(real))
            bad = cs.violations(case, real)
            self.stat("source_edit_family", case["family"] + (":agrees" if not bad else ":stale" + ("" if detect else "(by design, not a finding)")))
            if bad and detect:
                nbad += 1
                j, what = bad[0]
                vs = [cs.BY_NAME[case["family"]]["variants"][i] for i in case["seq"]]
                self.findings.append(Finding(
                    f"unexplained:source-edit:{case['family']}",
                    (f"source-level history {c['tag']} (task body variants {vs}, module file rewritten and re-imported between "
                     f"executions): execution {j} {what}")[:700],
                    {"kind": "srchistory", "case": case, "run": j, "source_at_failing_step": cs.source_of(case["family"], vs[j])}))
        self.stat("oracle", "source_level_executions_compared", nsrc)
        self.sample({"tag": "src", "families": [f["name"] for f in cs.FAMILIES]}, 5)
        self.findings += crashes          # after the concrete stale answers, so that those lead the replay file
        self.stat("oracle", "executions_compared", n)
        self.stat("oracle", "stale_executions", nbad)
        self.ob("oracle", f"implementation oracle ran: {n} executions of {len(self.cases())} generated histories + {nsrc} executions of {len(self._src_cases)} "
                f"source-level edit histories on a shared sqlite backend, each compared "
                f"with the same execution on an empty backend", True)
        # the Coq witnesses must behave on the real code as the extracted variant says
        pv, cc = self.variant
        by_tag = {c["tag"]: c for c in self.cases()}
        for name, w in WITNESSES.items():
            c = by_tag["witness:" + name]
            if isinstance(c["real"], tuple) and c["real"] and c["real"][0] == "crash":
                self.ob("oracle", f"Coq witness {name} ran on the real code", False, c["real"][1])
                continue
            stale = any(sh[0] != fr[0] for sh, fr in c["real"])
            expect = cc if w["site"] == "catch" else (not pv)
            self.ob("oracle", f"Coq witness {name} ({w['site']} site) {'reproduces' if expect else 'does not reproduce'} on the real code, "
                    f"as the extracted variant says", stale == expect,
                    f"real: {[(str(sh[0]), str(fr[0])) for sh, fr in c['real']]}")

    # ------------------------------------------------------------------ replay
    def replay(self, doc):
        r = doc.get("replay", {})
        if r.get("kind") == "srchistory":
            real = _run_case(r["case"])
            cp.cleanup_template()
            if isinstance(real, tuple) and real and real[0] == "crash":
                print("replay: the history crashed:", real[1])
                return 1
            bad = cs.violations(r["case"], real)
            for j, what in bad:
                print(f"replay: execution {j} {what}")
            if not bad:
                print("replay: every execution of the source-level history now returns what an empty backend returns")
            return 1 if bad else 0
        if r.get("kind") == "history":
            case = cp.from_json(r["case"])
            real = _run_case(case)
            cp.cleanup_template()
            if isinstance(real, tuple) and real and real[0] == "crash":
                print("replay: the history crashed:", real[1])
                return 1
            ref = cp.mirror_hist(case["prog"], case["ops"], True, False, fresh=True)
            bad = self.decide(case, real, ref)
            for j, sh, fr in bad:
                print(f"replay: execution {j} returns {sh} on the shared backend, {fr} on an empty backend")
            if not bad:
                print("replay: every execution of the history now returns what an empty backend returns")
            return 1 if bad else 0
        print("replay: nothing to replay (no failing input was found); broken obligations:",
              json.dumps(doc.get("broken_obligations", []))[:2000])
        return 1
