"""C11 — The job arrayer hands off every job exactly once (redun/job_array.py JobArrayer).

translate  : translate/tr_jobarray.py extracts, from the current source, which shared accesses of
             add_job / get_stale_descrs / submit_pending_jobs run under `self._lock` (the model's
             `layout`) and checks the complete access sequence of the three methods and of the
             monitor loop against the closed set of shapes the model implements.
correspond : the REAL JobArrayer is run under a deterministic thread scheduler (c11_rt.py); the
             recorded event log is the model schedule; Coq replays it (vm_compute) and compares step
             labels, callback log, pending, pending_timestamps, num_pending, monitor liveness.
oracle     : decides the property on the real class only: preemption-bounded enumeration of
             interleavings at shared-access granularity + randomised stress at bytecode granularity.
"""
from __future__ import annotations

import heapq
import json
import math

from harness.lib import (CORPUS, GEN, Finding, PropertyCheck, TranslateError, cq_list, cq_Z, run_bool_cases)
from harness.props import c11_rt as rt
from translate import astutil, tr_jobarray

K_RUNTIME = "monitor-fails:RuntimeError:get_stale_descrs:add_job-inserts-key-during-unlocked-iteration"
K_KEYERR = "monitor-fails:KeyError:get_stale_descrs:add_job-between-pending-and-timestamp"
K_LOST = "num_pending:lost-update:decrement-outside-lock"
BIG_CLOCK = 10 ** 6

NAMES = ["t1", "t2", "ns.t3"]
OPTS = [{}, {"memory": 1}, {"memory": 2, "vcpus": 1}, {"vcpus": 1, "memory": 2}, {"queue": "a b"}]


# ------------------------------------------------------------------ specs and Coq literals
def gen_spec(rng, max_jobs=6):
    mn = rng.choice([0, 1, 2, 2, 2, 3, 3])
    mx = rng.choice([mn, mn + 1, mn + 2, 20000]) if mn else rng.choice([0, 3])
    nd = rng.choice([1, 2, 2, 3])
    descrs = [(rng.choice(NAMES), rng.choice(OPTS)) for _ in range(nd)]
    jobs = []
    for _ in range(rng.randint(1, max_jobs)):
        n, o = rng.choice(descrs)
        jobs.append([n, dict(o), rng.random() < 0.12])
    return {"jobs": jobs, "min": mn, "max": mx, "stale": rng.choice([-1, -1, 0, 1, 3])}


def eff_max(spec):
    return min(spec["max"], 10000)


def descr_ids(spec):
    """JobDescription (the real class) -> small index, by first appearance"""
    from redun.job_array import JobDescription
    ids, out = {}, []
    for i, (n, o, s) in enumerate(spec["jobs"]):
        d = JobDescription(rt.FakeJob(i, n, dict(o), s))
        out.append(ids.setdefault(d, len(ids)))
    return out, ids


def cq_jobs(spec, dids):
    return cq_list([f"(mkjob {i}%nat {d}%nat {'true' if j[2] else 'false'})"
                    for i, (j, d) in enumerate(zip(spec["jobs"], dids))])


def cq_natlist(l):
    return "[" + ";".join(f"{x}" for x in l) + "]%nat" if l else "(@nil nat)"


def cq_natlists(ll):
    return "[" + "; ".join(cq_natlist(l) for l in ll) + "]" if ll else "(@nil (list nat))"


# ------------------------------------------------------------------ one controlled execution
class Exec:
    """Drives one rt.Run; evaluates the property on what the real class did."""

    def __init__(self, spec, opcode_mode, clock_mode, rng=None):
        self.spec = spec
        self.rng = rng
        self.t = 0
        self.big = False
        self.clock_mode = clock_mode
        self.run = rt.Run(spec, opcode_mode=opcode_mode, clock=self.clock)
        self.ctl = self.run.ctl
        self.problems: list[tuple[str, str]] = []      # (key, what)
        self.quiescent_checks = 0
        self.steps = 0

    def clock(self, who):
        if self.big:
            return BIG_CLOCK
        if self.clock_mode == "zero":
            return 0
        if self.clock_mode == "tick":
            self.t += 1
            return self.t
        r = self.rng.random()
        if r < 0.1:
            return self.rng.randint(0, 12)          # arbitrary (non-monotone) reading
        self.t += self.rng.choice([0, 0, 1, 1, 2, 4])
        return self.t

    # ---- scheduling primitives
    def threads(self):
        return [n for n in ("A", self.run.monitor()) if n and self.ctl.runnable(n)]

    def enabled(self):
        return [n for n in self.threads() if not self.ctl.blocked(n)]

    def step(self, name):
        self.ctl.step(name)
        self.steps += 1
        self.check_quiescent()

    def a_done(self):
        return not self.ctl.runnable("A")

    def a_boundary(self):
        return self.a_done() or self.ctl.mark.get("A", False)

    def m_idle(self):
        m = self.run.monitor()
        return m is None or self.ctl.at_wait(m)

    # ---- the property, on the real objects
    def check_quiescent(self):
        """Activity has stopped (no add_job in progress, monitor asleep or gone): num_pending must
        equal the number of jobs added and not yet handed off."""
        if not (self.a_boundary() and self.m_idle()):
            return
        self.quiescent_checks += 1
        r = self.run
        done_adds = r.n_done
        handed = len(r.handed())
        want = done_adds - handed
        in_pending = sum(len(v) for _, v in r.pending_obs())
        if in_pending != want:
            self.problem("conservation:pending-differs-from-added-minus-handed-off",
                         f"{in_pending} job(s) in pending, {done_adds} added, {handed} handed off")
        if r.npend() != want:
            self.problem(self.classify_counter(want), f"num_pending == {r.npend()} with {want} job(s) not yet handed off "
                         f"(activity stopped after event {len(self.ctl.log)})")

    def classify_counter(self, want):
        """K_LOST only if every read-modify-write of num_pending computed the right delta and the
        difference is exactly explained by an update overwritten between the monitor's unlocked
        read and write."""
        log, extra = self.ctl.log, self.ctl.extra
        holder = None
        held_at = {}
        for i, (w, l, _) in enumerate(log):
            if l == rt.ACQ:
                holder = w
            elif l == rt.REL:
                holder = None
            held_at[i] = holder
        last_get = {}
        total = 0
        racy_unlocked_monitor = False
        other_race = False
        writes = []
        for idx, kind, v in extra:
            who = log[idx][0]
            if kind == "get":
                last_get[who] = (idx, v)
            else:
                if who not in last_get:
                    return "num_pending:write-without-read"
                g, rv = last_get.pop(who)
                total += v - rv
                overwritten = [w for w in writes if g < w[0] < idx and w[1] != who]
                if overwritten:
                    m_idx = (g, idx) if who == "M" else None
                    # which of the two read-modify-writes ran outside the lock?
                    m_rmw_unlocked = (held_at.get(g) != "M") if who == "M" else \
                        any(held_at.get(w[0]) != "M" for w in overwritten)
                    if m_rmw_unlocked:
                        racy_unlocked_monitor = True
                    else:
                        other_race = True
                writes.append((idx, who))
        if total == want and racy_unlocked_monitor and not other_race:
            return K_LOST
        return "num_pending:wrong-count-not-explained-by-the-unlocked-decrement"

    def classify_error(self, e):
        log = self.ctl.log
        at = e["at"]            # index of the ONERR event
        holder = None
        for w, l, _ in log[:at]:
            if l == rt.ACQ:
                holder = w
            elif l == rt.REL:
                holder = None
        # the failing access is the last monitor event before ONERR that is not a release
        k = at - 1
        while k >= 0 and not (log[k][0] == "M" and log[k][1] != rt.REL):
            k -= 1
        if k < 0 or e["site"] != "get_stale_descrs":
            return f"monitor-fails:{e['type']}:{e['site']}"
        # was the lock held by the monitor when it failed?
        h = None
        for w, l, _ in log[:k]:
            if l == rt.ACQ:
                h = w
            elif l == rt.REL:
                h = None
        if h == "M":
            return f"monitor-fails:{e['type']}:get_stale_descrs:under-lock"
        if e["type"] == "RuntimeError" and "changed size" in e["msg"] and log[k][1] == rt.NEXT:
            it = max(i for i in range(k) if log[i][0] == "M" and log[i][1] == rt.ITER)
            if any(w == "A" and l == rt.PGET for w, l, _ in log[it:k]):
                return K_RUNTIME
        if e["type"] == "KeyError" and log[k][1] == rt.TSGET:
            la = [l for w, l, _ in log[:k] if w == "A" and l != rt.BLOCKED]
            if la and la[-1] in (rt.PGET, rt.TIME):
                return K_KEYERR
        e["debug"] = {"k": k, "at": at, "failing": list(log[k]), "around": [list(x) for x in log[max(0, k - 6):at + 1]]}
        return f"monitor-fails:{e['type']}:get_stale_descrs:no-concurrent-add_job"

    def problem(self, key, what):
        if key not in [k for k, _ in self.problems]:
            self.problems.append((key, what))

    def check_batches(self):
        spec = self.spec
        mn, mx = spec["min"], eff_max(spec)
        seen = set()
        for who, b in self.run.subs:
            ids = [j.jid for j in b]
            if not b:
                self.problem("batch:empty", "empty batch submitted")
                continue
            if any((j.task.fullname, j.get_options()) != (b[0].task.fullname, b[0].get_options()) for j in b):
                self.problem("batch:mixed-task-or-options", f"batch {ids} mixes tasks/options")
            if len(b) != 1 and (mn == 0 or len(b) < mn or len(b) > mx):
                self.problem("batch:size", f"batch {ids} has size {len(b)} (min {mn}, max {mx})")
            for j in b:
                if j.jid in seen:
                    self.problem("handoff:twice", f"job {j.jid} submitted twice")
                seen.add(j.jid)
        return seen

    def finish(self, drain=True):
        """Let the adder return, let the monitor fall asleep, then let time pass (every group
        becomes stale) until nothing is pending; evaluate the whole property."""
        limit = 4000 if not self.ctl.opcode_mode else 60000
        n = 0
        while n < limit and not (self.a_done() and self.m_idle()):
            en = self.enabled()
            if not en:
                self.problem("deadlock", "no thread can move")
                break
            self.step("A" if "A" in en else en[0])
            n += 1
        if drain:
            self.big = True
            passes = 0
            max_passes = 3 + math.ceil(len(self.spec["jobs"]) / max(1, eff_max(self.spec)))
            while self.run.monitor() and self.run.pending_obs() and passes < max_passes and n < limit:
                self.step(self.run.monitor())
                n += 1
                while n < limit and self.run.monitor() and not self.m_idle():
                    self.step(self.run.monitor())
                    n += 1
                passes += 1
        for e in self.run.errs:
            key = self.classify_error(e)
            self.problem(key, f"monitor thread failed: {e['type']}: {e['msg']} in {e['site']} "
                         f"(reported through on_error)" + (f" {e['debug']}" if "debug" in e else ""))
        seen = self.check_batches()
        if any(lab == rt.UNEXPECTED for _, lab, _ in self.ctl.log):
            self.problem("harness:unmodelled-access", "the code touched shared state in a way the harness does not model")
        if drain and self.a_done():
            total = len(self.spec["jobs"])
            if not self.run.errs:
                missing = sorted(set(range(total)) - seen)
                if missing:
                    self.problem("handoff:never", f"jobs {missing} were added and never submitted (monitor alive, "
                                 f"every group stale)")

    def observed(self):
        r = self.run
        _, ids = descr_ids(self.spec)
        pend = [[ids[k]] + js for k, js in r.pending_obs()]
        stamps = [(ids[k], v) for k, v in dict.items(r.a.pending_timestamps)]
        return {"log": list(self.ctl.log), "outs": list(r.outs), "pend": pend, "stamps": stamps,
                "npend": r.npend(), "alive": r.monitor() is not None}

    def close(self):
        self.run.close()


def coq_term(layout, spec, obs):
    dids, _ = descr_ids(spec)
    sched = cq_list([f"({'TA' if w == 'A' else 'TM'}, {cq_Z(v)})" for w, _, v in obs["log"]])
    labels = cq_natlist([l for _, l, _ in obs["log"]])
    stamps = cq_list([f"({k}%nat, {cq_Z(v)})" for k, v in obs["stamps"]]) if obs["stamps"] else "(@nil (nat * Z))"
    return (f"check_case {layout} (mkparams {spec['min']}%nat {eff_max(spec)}%nat {cq_Z(spec['stale'])}) "
            f"{cq_jobs(spec, dids)} {sched} {labels} {cq_natlists(obs['outs'])} {cq_natlists(obs['pend'])} "
            f"{stamps} {cq_Z(obs['npend'])} {'true' if obs['alive'] else 'false'}")


# ------------------------------------------------------------------ strategies
def run_choices(spec, choices, clock_mode, wait_budget):
    """Event mode.  `choices`: forced thread letters for the first steps; afterwards the default
    policy (stay on the current thread; at a voluntary switch point prefer the adder).  Returns the
    Exec (closed by the caller) and, per step, (chosen, alternatives-with-cost, cost so far)."""
    ex = Exec(spec, False, clock_mode)
    trace = []
    cur = None
    cost = 0
    waits = 0
    try:
        for i in range(600):
            en = ex.enabled()
            m = ex.run.monitor()
            if m in en and ex.ctl.at_wait(m) and waits >= wait_budget and not ex.a_done():
                en = [x for x in en if x != m]
            if ex.a_done() and ex.m_idle():
                break
            if not en:
                break
            letters = {("A" if x == "A" else "M"): x for x in en}
            cur_name = letters.get(cur)
            free = cur_name is None or (cur == "A" and ex.a_boundary()) or (cur == "M" and ex.ctl.at_wait(cur_name))
            default = cur if not free else ("A" if "A" in letters else "M")
            alts = [(l, 0 if free else 1) for l in letters if l != default]
            if i < len(choices):
                ch = choices[i]
                if ch not in letters:
                    break
                if ch != default:
                    cost += 0 if free else 1
            else:
                ch = default
            trace.append((ch, alts, cost))
            if ch == "M" and ex.ctl.at_wait(letters[ch]):
                waits += 1
            ex.step(letters[ch])
            cur = ch
        ex.finish(drain=True)
    except BaseException:
        ex.close()
        raise
    return ex, trace


def enumerate_schedules(spec, clock_mode, bound, wait_budget, max_runs, visit):
    """Stateless preemption-bounded search, cheapest schedules first."""
    heap = [(0, 0, [])]
    counter = 1
    runs = 0
    while heap and runs < max_runs:
        c0, _, prefix = heapq.heappop(heap)
        ex, trace = run_choices(spec, prefix, clock_mode, wait_budget)
        try:
            runs += 1
            visit(ex, [t[0] for t in trace])
        finally:
            ex.close()
        for i in range(len(prefix), len(trace)):
            ch, alts, cost = trace[i]
            base = trace[i - 1][2] if i else 0
            for alt, extra in alts:
                if base + extra <= bound:
                    heapq.heappush(heap, (base + extra, counter, [t[0] for t in trace[:i]] + [alt]))
                    counter += 1
    return runs, not heap


def run_random(spec, rng, opcode_mode, nsteps):
    ex = Exec(spec, opcode_mode, "random", rng)
    try:
        sticky = rng.choice([0.0, 0.5, 0.8, 0.95])
        cur = None
        for _ in range(nsteps):
            th = ex.threads()
            if not th:
                break
            en = [x for x in th if not ex.ctl.blocked(x)]
            if cur in en and rng.random() < sticky:
                ch = cur
            elif en and rng.random() < 0.97:
                ch = rng.choice(en)
            else:
                ch = rng.choice(th)          # occasionally poll a blocked thread (a blocked acquire)
            ex.step(ch)
            cur = ch
        ex.finish(drain=True)
    except BaseException:
        ex.close()
        raise
    return ex


SCENARIOS = [
    # (spec, clock mode) for the enumeration: all stale (stale_time -1, clock 0) unless said otherwise
    ({"jobs": [["t1", {}, False], ["t2", {}, False]], "min": 2, "max": 3, "stale": -1}, "zero"),
    ({"jobs": [["t1", {}, False], ["t1", {}, False], ["t2", {}, False]], "min": 2, "max": 2, "stale": -1}, "zero"),
    ({"jobs": [["t1", {}, False], ["t1", {}, False], ["t1", {}, False]], "min": 1, "max": 2, "stale": 2}, "tick"),
    ({"jobs": [["t1", {}, False], ["s", {}, True], ["t1", {"memory": 1}, False]], "min": 3, "max": 5, "stale": 0}, "tick"),
]


class Check(PropertyCheck):
    id = "C11"
    module = "Props.C11"
    theorems = ["C11_conservation", "C11_exactly_once_at_quiescence", "C11_no_duplicates", "C11_batches_wellformed",
                "C11_init_params_ok", "C11_submit_never_fails",
                "C11_monitor_never_fails_refuted", "C11_monitor_keyerror_refuted", "C11_num_pending_refuted",
                "C11_unlocked_scan_fails", "C11_unlocked_decrement_drifts",
                "C11_monitor_never_fails_fixed", "C11_num_pending_exact_fixed", "C11_nonvacuous"]
    extra_modules = ["Model.Arrayer"]
    allowed_axioms = []
    assumptions = [
        "one adder thread: add_job is only called from the scheduler thread (Executor.submit); the translator pins the "
        "call sites in aws_batch.py / gcp_batch.py / k8s.py; stop() is not part of the schedules",
        "threads may be preempted between any two bytecode instructions (Python language level; the three shipped "
        "witnesses only need switches at calls / backward jumps, where CPython >= 3.10 really switches)",
        "the submit / on_error callbacks return normally and do not touch the arrayer",
        "CPython dict iteration raises RuntimeError when the dict's size differs from the size at iterator creation; "
        "defaultdict inserts on a missing key; both exercised on the real dicts in every correspondence case",
        "JobDescription identifies (task fullname, str(sorted(options.items()))); the oracle compares task and options "
        "of the real job objects directly",
    ]
    rule = ("an execution of the real JobArrayer under the deterministic thread scheduler: generated job stream "
            "(1-6 jobs, 1-3 descriptions, script jobs), size bounds incl. min 0 and max above MAX_ARRAY_SIZE, stale "
            "times, a schedule (preemption-bounded enumeration at shared-access granularity, random at access and at "
            "bytecode granularity) and clock readings; non-trivial if both threads moved and a batch was handed "
            "off; distinct by (spec, event log)")

    layout = None

    # ------------------------------------------------------------------
    def translate(self):
        try:
            text, info = tr_jobarray.translate()
        except astutil.TranslateError as e:
            raise TranslateError(str(e))
        self.layout = info["layout"]
        GEN.mkdir(exist_ok=True)
        p = GEN / "C11Gen.v"
        p.write_text(text)
        return [p]

    def layout_term(self):
        if self.layout is None:
            return "shipped"
        return f"(mklayout {'true' if self.layout[0] else 'false'} {'true' if self.layout[1] else 'false'})"

    # ------------------------------------------------------------------
    def note(self, ex, kind):
        obs = ex.observed()
        both = {w for w, _, _ in obs["log"]} >= {"A", "M"}
        nontriv = both and any(o[0] == 1 for o in obs["outs"])
        key = (json.dumps(ex.spec, sort_keys=True), tuple(obs["log"]))
        self.count(key if nontriv else None)
        self.stat("strategy", kind)
        self.stat("events_per_run", min(len(obs["log"]) // 25 * 25, 300))
        self.stat("jobs", len(ex.spec["jobs"]))
        self.stat("min,max", f"{ex.spec['min']},{ex.spec['max']}")
        self.stat("monitor_errors", len(ex.run.errs))
        self.stat("blocked_acquires", min(sum(1 for _, l, _ in obs["log"] if l == rt.BLOCKED), 3))
        self.stat("quiescent_states_checked", "n", ex.quiescent_checks)
        for key_, what in ex.problems:
            self.stat("oracle_outcome", key_)
            self.findings.append(Finding(key_, what, {"kind": "schedule", "spec": ex.spec, "strategy": kind,
                                                       "opcode_mode": ex.ctl.opcode_mode,
                                                       "events": [[w, l, v] for w, l, v in obs["log"]],
                                                       "event_names": rt.LABEL_NAMES, "problems": ex.problems}))
        if not ex.problems:
            self.stat("oracle_outcome", "property holds on this execution")
        return obs

    def add_case(self, ex, obs, kind):
        if len(self.terms) < self.case_cap:
            self.terms.append(coq_term(self.layout_term(), ex.spec, obs))
            self.descr.append({"spec": ex.spec, "strategy": kind, "events": [[w, l, v] for w, l, v in obs["log"]]})
            self.sample({"spec": ex.spec, "strategy": kind, "events": len(obs["log"]), "callbacks": obs["outs"]}, 4)

    def correspond(self):
        """Runs everything (the executions serve both the correspondence and the oracle)."""
        quick = self.tier == "quick"
        self.terms, self.descr = [], []
        self.case_cap = 900 if quick else 8000
        # 0. constructor: init_params
        from redun.job_array import JobArrayer
        bad = []
        for mn in (0, 1, 2, 5, 10000, 10001):
            for mx in (0, 1, 2, 4, 5, 9999, 10000, 10001, 50000):
                try:
                    a = JobArrayer(lambda b: None, lambda e: None, 1.0, 1.0, mn, mx)
                    exp = f"Some (mkparams {mn}%nat {a.max_array_size}%nat 1%Z)"
                    if a.min_array_size != mn:
                        bad.append((mn, mx))
                except ValueError:
                    exp = "None"
                self.terms.append(f"match init_params {mn}%nat {mx}%nat 1%Z, {exp} with "
                                  f"| Some p, Some q => (pmin p =? pmin q) && (pmax p =? pmax q) | None, None => true "
                                  f"| _, _ => false end")
                self.descr.append({"init": [mn, mx]})
        # 1. corpus
        corpus = CORPUS / "C11.jsonl"
        if corpus.exists():
            for line in corpus.read_text().splitlines():
                if line.strip():
                    doc = json.loads(line)
                    ex = replay_events(doc["spec"], doc["events"], doc.get("opcode_mode", False))
                    try:
                        self.add_case(ex, self.note(ex, "corpus"), "corpus")
                    finally:
                        ex.close()
        # 2. preemption-bounded enumeration (event granularity)
        budget = 260 if quick else 6000
        for k, (spec, cm) in enumerate(SCENARIOS):
            def visit(ex, choices, k=k):
                obs = self.note(ex, f"enumeration:scenario{k}")
                if self.rng.random() < (0.5 if quick else 0.2):
                    self.add_case(ex, obs, f"enumeration:scenario{k}")
            runs, exhausted = enumerate_schedules(spec, cm, 2 if (quick and k < 1) or not quick else 1,
                                                  wait_budget=2, max_runs=budget, visit=visit)
            self.stat("enumeration", f"scenario{k}:runs", runs)
            self.stat("enumeration", f"scenario{k}:bound-exhausted", int(exhausted))
        # 3. random schedules, event granularity
        for i in range(250 if quick else 5000):
            spec = gen_spec(self.rng)
            ex = run_random(spec, self.rng, False, self.rng.randint(5, 120))
            try:
                self.add_case(ex, self.note(ex, "random:access-granularity"), "random:access-granularity")
            finally:
                ex.close()
        # 4. random schedules, bytecode granularity
        for i in range(120 if quick else 2500):
            spec = gen_spec(self.rng, max_jobs=5)
            ex = run_random(spec, self.rng, True, self.rng.randint(50, 1500))
            try:
                self.add_case(ex, self.note(ex, "random:bytecode-granularity"), "random:bytecode-granularity")
            finally:
                ex.close()
        ok, failing, diags = run_bool_cases("C11", ["Model.Arrayer"], "", self.terms, chunk=150)
        self.ob("correspondence",
                f"Model/Arrayer.v under the extracted layout replays {len(self.terms)} recorded executions of the real "
                f"JobArrayer step by step (labels, callbacks, pending, timestamps, num_pending, liveness) + init_params",
                ok and not failing and not bad,
                "\n".join(diags) + "".join(f"\nmismatch: {json.dumps(self.descr[i])[:1500]}" for i in failing[:5]))

    # ------------------------------------------------------------------
    def oracle(self):
        """The executions were evaluated in correspond(); here: the shipped witnesses of Props/C11.v are
        replayed on the real class, and the verdict is tied to the extracted layout."""
        shipped_stale = self.layout is None or not self.layout[0]
        shipped_cnt = self.layout is None or not self.layout[1]
        for name, spec, events, key in WITNESSES:
            ex = replay_events(spec, events, False)
            try:
                keys = [k for k, _ in ex.problems]
                self.stat("witness", f"{name}:{'reproduces' if key in keys else 'does not reproduce'}")
                for k, what in ex.problems:
                    self.findings.append(Finding(k, what, {"kind": "schedule", "spec": spec, "strategy": "witness:" + name,
                                                           "opcode_mode": False,
                                                           "events": [[w, l, v] for w, l, v in ex.ctl.log],
                                                           "problems": ex.problems}))
                expect = shipped_stale if key != K_LOST else shipped_cnt
                self.ob("oracle", f"Coq witness {name} {'reproduces' if expect else 'no longer reproduces'} on the real "
                        f"class, as the extracted layout says", (key in keys) == expect,
                        f"problems seen: {ex.problems}")
                self.evaluations += 1
            finally:
                ex.close()
        kinds = sorted({f.key for f in self.findings})
        self.ob("oracle", "implementation oracle ran on every execution (exactly-once, batch shape, monitor errors, "
                "num_pending at every quiescent state, final drain)", True)
        self.stat("oracle", "distinct_finding_keys", len(kinds))

    def replay(self, doc):
        r = doc.get("replay", {})
        if r.get("kind") == "schedule":
            ex = replay_events(r["spec"], [tuple(e) for e in r["events"]], r.get("opcode_mode", False))
            try:
                print("replay: spec", json.dumps(r["spec"]))
                for w, l, v in ex.ctl.log[:400]:
                    print(f"  {w}: {rt.LABEL_NAMES.get(l, l)}" + (f" -> {v}" if l == rt.TIME else ""))
                if ex.problems:
                    for k, what in ex.problems:
                        print("replay: STILL FAILS:", k, "--", what)
                    return 1
                print("replay: property holds on this schedule now")
                return 0
            finally:
                ex.close()
        print("replay: nothing to replay (no failing input was found); broken obligations:",
              json.dumps(doc.get("broken_obligations", []))[:2000])
        return 1


def replay_events(spec, events, opcode_mode=False):
    """Re-run a recorded event log at event granularity: the k-th event says which thread moves
    and, for time.time(), what the clock reads.  (A log recorded at bytecode granularity replays
    identically: only the order of shared accesses matters.)"""
    vals = {"A": [], "M": []}
    for w, l, v in events:
        if l == rt.TIME:
            vals[w].append(v)
    ex = Exec(spec, False, "zero")
    pos = {"A": 0, "M": 0}

    def clock(who):
        if ex.big:
            return BIG_CLOCK
        q = vals.get(who, [])
        i = pos.get(who, 0)
        pos[who] = i + 1
        return q[i] if i < len(q) else 0
    ex.ctl.clock = clock
    try:
        for w, l, v in events:
            name = ex.run.thread(w)
            if name is None or not ex.ctl.runnable(name):
                break
            ex.step(name)
        ex.finish(drain=True)
    except BaseException:
        ex.close()
        raise
    return ex


# The witnesses proved in Props/C11.v (schedules of Proofs/ArrayerWitness.v), as thread orders.
# Labels are only informative here (replay follows the thread letters; TIME values are used).
def _sched(s):
    return [(c, 0, 0) for c in s]


WITNESSES = [
    # add t1 completely (starts the monitor); monitor: wait, time, iter, next, check; adder inserts t2;
    # monitor: next -> RuntimeError
    ("runtime_error", {"jobs": [["t1", {}, False], ["t2", {}, False]], "min": 2, "max": 3, "stale": -1},
     _sched("AAAAAAAA" + "MMMMM" + "AA" + "M" + "MM"), K_RUNTIME),
    # adder has inserted t1 into pending but not yet its timestamp when the (second) monitor pass reads it
    ("key_error", {"jobs": [["t1", {}, False], ["t2", {}, False]], "min": 2, "max": 3, "stale": 5},
     _sched("AAAAAAAA" + "AA" + "MMMMM" + "MM"), K_KEYERR),
    # monitor reads num_pending, adder adds a job, monitor writes the stale value minus 1
    ("lost_update", {"jobs": [["t1", {}, False], ["t1", {}, False]], "min": 2, "max": 3, "stale": -1},
     _sched("AAAAAAAA" + "MMMMMM" + "MMMM" + "M" + "M" + "AAAAAAAA" + "M"), K_LOST),
]
