"""Shared pieces of the scheduler job-machine checks (C05 C06 C08 C09 C12 C28)."""
from __future__ import annotations

import json
import random
from pathlib import Path

from harness import jobgen, sched
from harness.lib import GEN, VERIF, Finding, TranslateError, coq_eval, run_bool_cases
from harness.progs import vm
from translate import astutil, tr_sched

PINS_FILE = VERIF / "translate" / "pins_sched.json"


def translate_variant(pid: str, tie_lemmas: str):
    """Writes Gen/<pid>Gen.v (gen_variant + the property's tie lemmas). Returns (path, variant)."""
    pins = json.loads(PINS_FILE.read_text())
    try:
        text, variant, _ = tr_sched.translate(pins=pins)
    except astutil.TranslateError as e:
        raise TranslateError(str(e))
    GEN.mkdir(exist_ok=True)
    p = GEN / f"{pid}Gen.v"
    p.write_text(text + tie_lemmas)
    return p, variant


def cq_variant(v):
    b = lambda x: "true" if x else "false"
    return ("{| release_if_holds := %s; recheck_on_skip := %s; ctx_strict := %s; pending_owner_safe := %s; ctx_exact := %s |}"
            % (b(v["release_if_holds"]), b(v["recheck_on_skip"]), b(v["ctx_strict"]), b(v["pending_owner_safe"]),
               b(v.get("ctx_exact", True))))


RES = ["r0", "r1"]


def random_run(rng: random.Random, depth=None, infeasible=0.0, allow_ctx=False, dryrun=False, **kw):
    limits = {r: rng.choice([1, 1, 2, 3]) for r in RES}
    spec = jobgen.gen_spec(rng, RES, depth=depth if depth is not None else rng.randint(1, 3), limits=limits,
                           infeasible=infeasible, allow_ctx=allow_ctx)
    out = sched.run_program(lambda: vm.call(spec), limits, rng, dryrun=dryrun,
                            complete_prob=rng.choice([0.1, 0.3, 0.7]), **kw)
    out["spec"], out["limits"] = spec, limits
    return out


def trace_term(out, variant, dry=False):
    lim = "[" + "; ".join(f"({out['limits'][r]})%Z" for r in RES) + "]"
    return (f"trace_ok {lim} {'true' if dry else 'false'} {cq_variant(variant)} {len(RES)} "
            f"{sched.cq_trace(out['trace'])}")


def correspond_traces(check, variant, n, tag, **kw):
    """n random programs on the real Scheduler; every observed step must be a model step with the
    same observable state. Returns the list of runs (for the oracles)."""
    runs, terms = [], []
    for i in range(n):
        out = random_run(check.rng, **kw)
        runs.append(out)
        terms.append(trace_term(out, variant))
        tr = out["trace"]
        kinds = {}
        for op, _ in tr:
            kinds[op[0]] = kinds.get(op[0], 0) + 1
        for k, v in kinds.items():
            check.stat("ops", k, v)
        check.stat("jobs_per_program", min(len(out["tracer"].jobobj) // 4 * 4, 20))
        check.stat("outcome", "deadlock" if "deadlock" in out else "error" if "error" in out else "value")
        nontrivial = len(out["tracer"].jobobj) >= 3
        check.count(repr(out["spec"]) if nontrivial else None)
        check.sample({"spec": repr(out["spec"])[:300], "limits": out["limits"], "ops": len(tr)}, 3)
    ok, failing, diags = run_bool_cases(tag, ["Model.JobMachine", "Model.JobTrace"], "", terms, chunk=12)
    detail = "\n".join(diags) + "".join(
        f"\nmismatch on program {runs[i]['spec']!r} limits {runs[i]['limits']}" for i in failing[:5])
    check.ob("correspondence",
             f"every step of the real Scheduler is a step of the job machine with equal observables "
             f"(limits_used, waiting, pending, queue, submits, statuses) on {n} generated programs", ok and not failing, detail)
    return runs, failing
