"""C10 — deterministic thread scheduler and in-process fakes for the five executor classes.

One controlled thread runs at a time.  Threads are paused (sys.settrace line events) exactly at
the *marked lines* that `translate/tr_monitor.py` extracts from the executor source (shared reads /
writes of the running flag and of the pending collections, thread creation, join test) and at the
return of a thread's target function.  `Det.step(name)` lets one thread run to its next marked
line.  The executor module's `threading` and `time` names are replaced by shims so that the
monitor / submission threads the real code creates are controlled threads and sleeps are no-ops.
The cloud / container API is an in-process fake in which every submitted job has succeeded.
"""
from __future__ import annotations

import configparser
import contextlib
import importlib
import logging
import shutil
import sys
import tempfile
import threading
import time
from types import SimpleNamespace
from unittest import mock

STEP_TIMEOUT = 20.0


class Stuck(Exception):
    pass


class Rec:
    def __init__(self, name, thread):
        self.name, self.thread = name, thread
        self.sem = threading.Semaphore(0)
        self.status = "new"      # new | paused | blocked | done
        self.pos = None
        self.exc = None


class CThread(threading.Thread):
    def __init__(self, det, target, fixed_name=None):
        super().__init__(daemon=True)
        self.det, self.target_fn, self.fixed_name = det, target, fixed_name
        self.rec = None

    def start(self):
        self.rec = self.det.register(self)
        super().start()

    def run(self):
        rec = self.rec
        rec.sem.acquire()
        sys.settrace(self.det.trace)
        try:
            self.target_fn()
        except BaseException as e:  # noqa: BLE001 - recorded, reported by the harness
            rec.exc = e
        finally:
            sys.settrace(None)
            rec.status = "done"
            self.det.ctl.release()

    def join(self, timeout=None):
        cur = self.det.current()
        if cur is None:
            return super().join(timeout)
        # cooperative join from a controlled thread: report "blocked" until the target is dead
        while self.is_alive():
            cur.status = "blocked"
            cur.pos = ("join", self.rec.name if self.rec else "?")
            self.det.ctl.release()
            cur.sem.acquire()


class CLock:
    """Replaces executor._lock (fixed discipline): acquiring it is a scheduling point; a paused thread
    never holds it (no marked line lies inside a critical section)."""

    def __init__(self, det):
        self.det = det
        self.lock = threading.Lock()

    def __enter__(self):
        if self.det.current() is not None:
            self.det.pause(("lock", 0))
        self.lock.acquire()
        return self

    def __exit__(self, *a):
        self.lock.release()
        return False


class ThreadingShim:
    """Stands in for the `threading` module inside one executor module."""

    def __init__(self, det):
        self._det = det

    def Thread(self, target=None, daemon=None, **kw):
        return CThread(self._det, target)

    def __getattr__(self, name):
        return getattr(threading, name)


class Det:
    def __init__(self, filename, lines, ret_funcs):
        self.marks = {filename: set(lines)}     # file -> marked lines (more files: add_file)
        self.ret = set(ret_funcs)
        self.ctl = threading.Semaphore(0)
        self.recs: dict[str, Rec] = {}
        self.counts = {"M": 0, "U": 0, "A": 0}
        self.aborting = False

    # -- registration / tracing (called in controlled threads) ---------------
    def register(self, th: CThread) -> Rec:
        if th.fixed_name:
            name = th.fixed_name
        else:
            kind = {"_submission_thread": "U", "_monitor_stale_jobs": "A"}.get(
                getattr(th.target_fn, "__name__", ""), "M")
            name = f"{kind}{self.counts[kind]}"
            self.counts[kind] += 1
        rec = Rec(name, th)
        self.recs[name] = rec
        return rec

    def current(self):
        t = threading.current_thread()
        return t.rec if isinstance(t, CThread) else None

    def trace(self, frame, event, arg):
        if frame.f_code.co_filename not in self.marks:
            return None
        return self.local

    def add_file(self, filename, lines):
        self.marks[filename] = set(lines)

    def local(self, frame, event, arg):
        if event == "line":
            if frame.f_lineno in self.marks.get(frame.f_code.co_filename, ()):
                self.pause(("line", frame.f_lineno))
        elif event == "return" and frame.f_code.co_name in self.ret:
            self.pause(("ret", frame.f_code.co_name))
        return self.local

    def pause(self, pos):
        if self.aborting:
            return
        rec = self.current()
        rec.status, rec.pos = "paused", pos
        self.ctl.release()
        rec.sem.acquire()

    # -- controller side -------------------------------------------------------
    def _wait(self, rec):
        if not self.ctl.acquire(timeout=STEP_TIMEOUT):
            raise Stuck(f"thread {rec.name} did not reach a scheduling point (last at {rec.pos})")
        if rec.status == "done":
            threading.Thread.join(rec.thread, STEP_TIMEOUT)

    def step(self, name) -> str:
        rec = self.recs[name]
        if rec.status == "done":
            raise Stuck(f"thread {name} already finished")
        rec.status = "running"
        rec.sem.release()
        self._wait(rec)
        # let threads created during this step run up to their first scheduling point
        while True:
            new = [r for r in self.recs.values() if r.status == "new"]
            if not new:
                break
            for r in new:
                r.status = "running"
                r.sem.release()
                self._wait(r)
        return rec.status

    def live(self):
        return [n for n, r in self.recs.items() if r.status != "done"]

    def abort(self):
        """Let every paused thread run to completion untraced (best effort cleanup)."""
        self.aborting = True
        for _ in range(50):
            live = [r for r in self.recs.values() if r.status != "done"]
            if not live:
                break
            for r in live:
                r.sem.release()
            time.sleep(0.01)


# ------------------------------------------------------------------------------
# fakes
# ------------------------------------------------------------------------------
class FakeTask:
    script = False
    namespace = "ns"
    name = "t"
    fullname = "ns.t"
    hash = "taskhash"

    def get_task_option(self, k, d=None):
        return d


class FakeJob:
    def __init__(self, n, script=False):
        self.n = n
        self.id = f"job{n}"
        self.eval_hash = f"{n:040x}"
        self.args = ((n,), {})
        self.task = FakeTask()
        self.task.script = script
        self.execution = None
        self.status = "RUNNING"

    def get_options(self):
        return {}

    def get_option(self, k, default=None):
        return default

    def __repr__(self):
        return f"FakeJob({self.n})"


class FakeScheduler:
    def __init__(self, tmp):
        self.reported = []
        self.err = False
        self.errors = []
        self.logger = SimpleNamespace(level=logging.DEBUG)
        self.config = SimpleNamespace(configdir=tmp)

    def done_job(self, job, result, job_tags=None):
        self.reported.append(job.n)

    def reject_job(self, job, error, error_traceback=None, job_tags=None):
        if job is None:
            self.err = True
            self.errors.append(repr(error))
        else:
            self.reported.append(job.n)

    def log(self, *a, **k):
        pass

    def add_job_tags(self, job, tags):
        pass


def section(d):
    cp = configparser.ConfigParser()
    cp.read_dict({"x": {k: str(v) for k, v in d.items()}})
    return cp["x"]


class SpinLimit(BaseException):
    """A polling loop slept too often without any scheduling point (only possible when no lines are marked)."""


class TimeShim:
    def __init__(self, det=None, yield_on_sleep=False, limit=3000):
        self.n, self.limit, self.det, self.yield_on_sleep = 0, limit, det, yield_on_sleep

    def sleep(self, s):
        self.n += 1
        if self.n > self.limit:
            raise SpinLimit()
        if self.yield_on_sleep and self.det.current() is not None:
            self.det.pause(("sleep", 0))     # fallback mode: polling loops yield where they sleep

    time = staticmethod(time.time)


class Adapter:
    """Builds one executor instance wired to fakes; knows how to read its observable state."""
    key = ""
    modname = ""
    tracked_attr = ""
    queue_attr = None
    flag_attr = "is_running"

    def __init__(self, info, repo):
        self.info = info
        self.mod = importlib.import_module(self.modname)
        want = str((repo / info["file"]).resolve())
        have = str(getattr(self.mod, "__file__", ""))
        if have != want:
            raise RuntimeError(f"{self.modname} imported from {have}, expected {want} (set PYTHONPATH)")
        lines = []
        self.arr = info.get("arr")      # arrayer mode: dict(locked=..., lines=..., file=...) from translate_counter
        for label, ls in info["lines"].items():
            if label in ("ret", "lock") or (self.arr and label not in ("guard", "snap", "pop")):
                continue
            lines += ls
        # arrayer mode: a monitor's way out (stop, join, return) and _start are not scheduling points, so
        # the monitor-exit race (known finding) cannot occur and any loss has another cause
        self.det = Det(self.mod.__file__, lines, [] if self.arr else info["lines"]["ret"])
        self.repo = repo
        self.tmp = tempfile.mkdtemp(prefix="rv_c10_")
        self.sched = FakeScheduler(self.tmp)
        # fake cloud: None = every run has finished as soon as it is polled (the fake of the property text);
        # a set = only these job numbers have finished, the others are still in flight ("waves" histories)
        self.finished = set() if info.get("waves") else None
        self.stack = contextlib.ExitStack()
        self.ex = None

    def cloud_point(self, label):
        """A (fake) CLI / cloud API call made by a monitor thread while it collects statuses.  In "park" mode
        it is a scheduling point: the monitor is parked mid-walk while other threads run."""
        if self.info.get("park"):
            cur = self.det.current()
            if cur is not None and cur.name[0] == "M":
                self.det.pause(("cloud", label))

    def lazily(self, ids, label):
        """Iterate the collection the executor handed to the status call the way the real call does:
        item by item, around a slow remote call (a live dict passed here fails like it would for real)."""
        for i in ids:
            self.cloud_point(label)
            yield i

    def fin(self, cloud_id):
        """Has the run with this cloud-side id finished?"""
        if self.finished is None:
            return True
        import re
        return int(re.findall(r"\d+", str(cloud_id))[0]) in self.finished

    def complete(self, n):
        self.finished.add(n)

    def patch(self, obj, name, val):
        self.stack.enter_context(mock.patch.object(obj, name, val))

    def open(self):
        self.patch(self.mod, "threading", ThreadingShim(self.det))
        self.patch(self.mod, "time", TimeShim(self.det, bool(self.info.get("fallback"))))
        self.patch(self.mod, "parse_job_result", lambda prefix, job, *a, **k: (job.n, True))
        if self.arr:
            ja = importlib.import_module("redun.job_array")
            want = str((self.repo / self.arr["file"]).resolve())
            if str(ja.__file__) != want:
                raise RuntimeError(f"redun.job_array imported from {ja.__file__}, expected {want}")
            self.det.add_file(ja.__file__, self.arr["lines"]["idle"])
            self.patch(ja, "threading", ThreadingShim(self.det))
            if not self.arr["locked"]:
                det = self.det
                dec_lines = set(self.arr["lines"]["dec"])

                def hooked_len(obj):
                    # `self.num_pending -= len(jobs)`: num_pending has been read, not yet stored -
                    # the only point inside that statement where CPython can switch threads
                    f = sys._getframe(1)
                    if f.f_code.co_name == "submit_pending_jobs" and f.f_lineno in dec_lines \
                            and det.current() is not None:
                        det.pause(("len", f.f_lineno))
                    return len(obj)
                self.stack.enter_context(mock.patch.object(ja, "len", hooked_len, create=True))
        self.build()
        if self.info.get("locked"):
            self.ex._lock = CLock(self.det)
        if self.arr:
            self.ex.arrayer._lock = CLock(self.det)
        return self

    def arr_cfg(self, k8s=False):
        if self.arr:
            return {"min_array_size": 100, "max_array_size": 1000, "job_stale_time": -1}
        return {"min_array_size": 0, "max_array_size": 0} if k8s else {"min_array_size": 0}

    def close(self):
        try:
            self.det.abort()
        finally:
            self.stack.close()
            shutil.rmtree(self.tmp, ignore_errors=True)

    def build(self):
        raise NotImplementedError

    def submit(self, job):
        self.ex._submit(job)

    def observe(self):
        ex = self.ex
        tracked = [j.n for j in getattr(ex, self.tracked_attr).values()]
        queue = [j.n for j in getattr(ex, self.queue_attr)] if self.queue_attr else []
        mons = sorted((n for n in self.det.recs if n[0] == "M"), key=lambda n: int(n[1:]))
        subs = sorted((n for n in self.det.recs if n[0] == "U"), key=lambda n: int(n[1:]))
        o = dict(flag=bool(getattr(ex, self.flag_attr)), queue=queue, tracked=tracked,
                 reported=list(self.sched.reported), err=self.sched.err,
                 mons=[self.det.recs[n].thread.is_alive() for n in mons],
                 subs=[self.det.recs[n].thread.is_alive() for n in subs])
        if self.arr:
            o["held"] = [j.n for v in ex.arrayer.pending.values() for j in v]
            o["num_pending"] = ex.arrayer.num_pending
        return o


class DockerAd(Adapter):
    key, modname, tracked_attr, flag_attr = "docker", "redun.executors.docker", "_pending_jobs", "_is_running"

    def build(self):
        m = self.mod
        self.patch(m, "submit_task", lambda image, prefix, job, task, **k: {"jobId": f"c{job.n}"})

        # the real iter_job_status runs; the docker CLI (subprocess) and the status files are the fake
        ad = self
        ad.removed = set()
        ad.containers = {}      # container id -> job

        class FakeSubprocess:
            CalledProcessError = __import__("subprocess").CalledProcessError

            @staticmethod
            def check_output(cmd, *a, **k):
                if cmd[:2] == ["docker", "ps"]:
                    ad.cloud_point("docker ps")
                    return "\n".join(c for c in ad.containers if c not in ad.removed and not ad.fin(c)).encode()
                if cmd[:2] in (["docker", "logs"], ["docker", "rm"]):
                    ad.cloud_point(" ".join(cmd[:2]))
                    if cmd[2] in ad.removed or cmd[2] not in ad.containers:
                        raise FakeSubprocess.CalledProcessError(1, cmd, b"No such container")
                    if cmd[1] == "rm":
                        ad.removed.add(cmd[2])
                    return b""
                raise AssertionError(f"unexpected command {cmd}")

            def __getattr__(self, name):
                return getattr(__import__("subprocess"), name)
        self.patch(m, "subprocess", FakeSubprocess())

        def submit_task(image, prefix, job, task, **k):
            cid = f"c{job.n}"
            ad.containers[cid] = job
            path = m.get_job_scratch_file(prefix, job, m.SCRATCH_STATUS)
            import os
            os.makedirs(os.path.dirname(path), exist_ok=True)
            with open(path, "w") as f:
                f.write("ok")
            return {"jobId": cid}
        self.patch(m, "submit_task", submit_task)
        self.ex = m.DockerExecutor("d", scheduler=self.sched, config=section(
            {"image": "img", "scratch": self.tmp, "job_monitor_interval": 0, "code_package": False}))


class BatchAd(Adapter):
    key, modname, tracked_attr = "aws_batch", "redun.executors.aws_batch", "pending_batch_jobs"

    def build(self):
        m = self.mod
        self.patch(m.aws_utils, "get_aws_user", lambda *a, **k: "user")
        self.patch(m, "submit_task", lambda image, queue, prefix, job, task, **k: {"jobId": f"b{job.n}", "jobName": "n"})

        def iter_batch_job_status(job_ids, pending_truncate=10, aws_region=None):
            for jid in self.lazily(job_ids, "describe_jobs"):
                yield {"jobId": jid, "status": m.SUCCEEDED if self.fin(jid) else "RUNNING"}
        self.patch(m, "iter_batch_job_status", iter_batch_job_status)
        self.patch(m, "get_job_log_stream", lambda job, aws_region=None: None)
        self.patch(m, "get_task_command", lambda task, args, kwargs: "cmd")
        self.patch(m, "submit_command", lambda image, queue, prefix, job, command, **k: {"jobId": f"b{job.n}", "jobName": "n"})
        self.ex = m.AWSBatchExecutor("b", scheduler=self.sched, config=section(
            {"image": "img", "queue": "q", "s3_scratch": self.tmp + "/s3", "aws_region": "us-west-2",
             "job_monitor_interval": 0, "code_package": False, **self.arr_cfg(), "debug_scratch": self.tmp + "/dbg"}))
        self.ex.gather_inflight_jobs = lambda: None


class FakeK8sJob:
    def __init__(self, name, done=True):
        self.metadata = SimpleNamespace(name=name, uid="uid-" + name)
        self.spec = SimpleNamespace(parallelism=1)
        self.status = SimpleNamespace(succeeded=1 if done else None, failed=None, conditions=None,
                                      completed_indexes=None)


class K8sAd(Adapter):
    key, modname, tracked_attr = "k8s", "redun.executors.k8s", "pending_k8s_jobs"

    def build(self):
        m = self.mod

        class Client:
            core = object()

            def version(self):
                return (1, 25)
        self.patch(m.k8s_utils, "K8SClient", Client)
        self.patch(m.k8s_utils, "create_namespace", lambda *a, **k: None)
        self.patch(m.k8s_utils, "delete_job", lambda *a, **k: None)
        self.patch(m, "submit_task", lambda client, image, ns, prefix, job, task, **k: FakeK8sJob(f"k{job.n}"))
        self.patch(m, "k8s_describe_jobs", lambda client, names, namespace=None: [FakeK8sJob(n, self.fin(n)) for n in self.lazily(names, "read_job")])
        self.patch(m, "get_k8s_job_pods", lambda core, name: [])
        self.patch(m, "get_task_command", lambda task, args, kwargs: "cmd")
        self.patch(m, "submit_command", lambda client, image, ns, prefix, job, command, **k: FakeK8sJob(f"k{job.n}"))
        self.ex = m.K8SExecutor("k", scheduler=self.sched, config=section(
            {"image": "img", "scratch": self.tmp, "type": "k8s", "job_monitor_interval": 0,
             "code_package": False, **self.arr_cfg(k8s=True)}))
        self.ex.gather_inflight_jobs = lambda: None


class GcpAd(Adapter):
    key, modname, tracked_attr = "gcp_batch", "redun.executors.gcp_batch", "pending_batch_tasks"

    def build(self):
        m = self.mod
        self.patch(m.gcp_utils, "get_gcp_batch_client", lambda *a, **k: object())
        self.patch(m.gcp_utils, "get_gcp_compute_client", lambda *a, **k: object())
        self.patch(m, "get_oneshot_command", lambda *a, **k: ["x"])
        self.patch(m.gcp_utils, "get_compute_machine_type",
                   lambda *a, **k: SimpleNamespace(memory_mb=16384, guest_cpus=4))

        def batch_submit(client=None, job_name=None, **k):
            n = job_name[len(m.REDUN_JOB_PREFIX):]
            return SimpleNamespace(task_groups=[SimpleNamespace(name=f"tg-{n}")], name=job_name)
        self.patch(m.gcp_utils, "batch_submit", batch_submit)
        State = m.TaskStatus.State
        self.patch(m.gcp_utils, "get_task",
                   lambda client=None, task_name=None: self.cloud_point("get_task") or SimpleNamespace(
                       name=task_name, status=SimpleNamespace(state=State.SUCCEEDED if self.fin(task_name) else State.RUNNING)))
        self.ex = m.GCPBatchExecutor("g", scheduler=self.sched, config=section(
            {"image": "img", "project": "p", "region": "r", "gcs_scratch": self.tmp + "/gcs",
             "job_monitor_interval": 0, "code_package": False, **self.arr_cfg(), "debug_scratch": self.tmp + "/dbg"}))
        self.ex.gather_inflight_jobs = lambda: None


class GlueAd(Adapter):
    key, modname, tracked_attr, queue_attr = "aws_glue", "redun.executors.aws_glue", "running_glue_jobs", "pending_glue_jobs"

    def build(self):
        m = self.mod

        def glue_describe_jobs(ids, glue_job_name=None, aws_region=None):
            for i in self.lazily(ids, "get_job_run"):
                yield {"Id": i, "JobRunState": "SUCCEEDED" if self.fin(i) else "RUNNING"}
        self.patch(m, "glue_describe_jobs", glue_describe_jobs)
        self.ex = m.AWSGlueExecutor("gl", scheduler=self.sched, config=section(
            {"s3_scratch": self.tmp + "/s3", "aws_region": "us-west-2", "role": "r", "job_monitor_interval": 0,
             "job_retry_interval": 0, "code_package": False}))
        self.ex.glue_job_name = "gj"
        self.ex.gather_inflight_jobs = lambda: None
        self.ex.submit_pending_job = lambda job: f"g{job.n}"

    def submit(self, job):
        self.ex.submit(job)


ADAPTERS = {a.key: a for a in (DockerAd, BatchAd, K8sAd, GcpAd, GlueAd)}


class Run:
    """One execution of the real executor under the deterministic scheduler."""

    def __init__(self, key, info, repo, njobs):
        pause_between = bool(info.get("fallback"))
        self.key, self.njobs = key, njobs
        self.ad = ADAPTERS[key](info, repo).open()
        self.det = self.ad.det
        # program: what the scheduler thread does. ("job", script?) | ("wait",) = yield until stepped again
        # | ("stop",) = yield, then executor.stop() (Scheduler.run's `finally: executor.stop()`)
        program = info.get("program") or [("job", False)] * njobs
        self.jobs = []
        steps = []
        for item in program:
            if item[0] == "job":
                j = FakeJob(len(self.jobs), script=bool(item[1]))
                self.jobs.append(j)
                steps.append(("job", j))
            else:
                steps.append((item[0], None))
        self.history = []   # (action, status, observation)

        def body():
            for kind, j in steps:
                if kind == "job":
                    if pause_between:      # fallback mode (no marked lines): yield before every _submit
                        self.det.pause(("submit", j.n))
                    self.ad.submit(j)
                elif kind == "wait":
                    self.det.pause(("wait", 0))
                elif kind == "stop":
                    self.det.pause(("extstop", 0))
                    self.ad.ex.stop()
        th = CThread(self.det, body, fixed_name="S")
        th.start()
        # run the scheduler thread to its first scheduling point (before the first insert)
        rec = self.det.recs["S"]
        rec.status = "running"
        rec.sem.release()
        self.det._wait(rec)
        if rec.exc is not None:
            self.close()
            raise RuntimeError(f"scheduler thread raised before the first insert: {rec.exc!r}")

    def threads(self):
        """Names of threads that have not finished, S first."""
        live = self.det.live()
        return sorted(live, key=lambda n: (n[0] != "S", n[0], int(n[1:] or 0)))

    def step(self, name):
        status = self.det.step(name)
        o = self.ad.observe()
        self.history.append((name, status, o))
        for n, rec in self.det.recs.items():
            if rec.exc is not None:
                raise RuntimeError(f"thread {n} raised {rec.exc!r}")
        return status, o

    def done(self):
        return not self.det.live()

    def close(self):
        self.ad.close()


def action_name(a):
    """('S',) | ('M', i) | ('U', i) <-> thread names."""
    return "S" if a[0] == "S" else f"{a[0]}{a[1]}"


def name_action(n):
    return ("S",) if n == "S" else (n[0], int(n[1:]))
