(** Literal helpers used by generated case files. *)
From Coq Require Import List NArith Ascii.
From RV Require Import Base.Decimal.
Import ListNotations.

Definition bs (l : list N) : bytes := map ascii_of_N l.

Fixpoint bytes_eq (a b : bytes) : bool :=
  match a, b with
  | [], [] => true
  | x :: a', y :: b' => Ascii.eqb x y && bytes_eq a' b'
  | _, _ => false
  end.

Definition opt_eq {A} (eq : A -> A -> bool) (a b : option A) : bool :=
  match a, b with
  | Some x, Some y => eq x y
  | None, None => true
  | _, _ => false
  end.

Fixpoint list_eq {A} (eq : A -> A -> bool) (a b : list A) : bool :=
  match a, b with
  | [], [] => true
  | x :: a', y :: b' => eq x y && list_eq eq a' b'
  | _, _ => false
  end.
