From Coq Require Import List ZArith Ascii String Decimal DecimalString DecimalZ DecimalPos DecimalN Lia Bool.
From RV Require Import Base.Decimal.
Import ListNotations.
Open Scope list_scope.

Lemma to_int_not_nil z : Z.to_int z <> Pos Nil /\ Z.to_int z <> Neg Nil.
Proof.
  destruct z as [|p|p]; simpl; split; try discriminate.
  - intros [= H]. generalize (DecimalPos.Unsigned.to_uint_nonnil p). congruence.
  - intros [= H]. generalize (DecimalPos.Unsigned.to_uint_nonnil p). congruence.
Qed.

Lemma dec_of_Z_inj a b : dec_of_Z a = dec_of_Z b -> a = b.
Proof.
  unfold dec_of_Z. intros H.
  apply (f_equal string_of_list_ascii) in H.
  rewrite !string_of_list_ascii_of_string in H.
  apply (f_equal NilZero.int_of_string) in H.
  destruct (to_int_not_nil a), (to_int_not_nil b).
  rewrite !NilZero.isi in H by assumption.
  injection H as H. now apply DecimalZ.to_int_inj.
Qed.

Lemma string_of_uint_chars d :
  Forall (fun c => is_digit c = true) (list_ascii_of_string (NilEmpty.string_of_uint d)).
Proof.
  induction d; simpl; constructor; auto.
Qed.

Lemma nz_string_of_uint_chars d :
  Forall (fun c => is_digit c = true) (list_ascii_of_string (NilZero.string_of_uint d)).
Proof.
  destruct d; try apply string_of_uint_chars.
  simpl. constructor; auto.
Qed.

Lemma digit_is_dec c : is_digit c = true -> is_dec_char c = true.
Proof. unfold is_dec_char. intros ->. reflexivity. Qed.

Lemma dec_of_Z_chars z : Forall (fun c => is_dec_char c = true) (dec_of_Z z).
Proof.
  unfold dec_of_Z. destruct (Z.to_int z) as [d|d]; simpl.
  - eapply Forall_impl; [|apply nz_string_of_uint_chars]. apply digit_is_dec.
  - constructor; [reflexivity|].
    eapply Forall_impl; [|apply nz_string_of_uint_chars]. apply digit_is_dec.
Qed.

Lemma nz_string_of_uint_nonempty d : NilZero.string_of_uint d <> EmptyString.
Proof. destruct d; simpl; discriminate. Qed.

Lemma dec_of_Z_nonempty z : dec_of_Z z <> [].
Proof.
  unfold dec_of_Z. destruct (Z.to_int z) as [d|d]; simpl; try discriminate.
  generalize (nz_string_of_uint_nonempty d). destruct (NilZero.string_of_uint d); simpl; congruence.
Qed.

Lemma dec_of_nat_chars n : Forall (fun c => is_digit c = true) (dec_of_nat n).
Proof.
  unfold dec_of_nat, dec_of_Z. destruct n; simpl.
  - constructor; auto.
  - apply nz_string_of_uint_chars.
Qed.

Lemma dec_of_nat_inj a b : dec_of_nat a = dec_of_nat b -> a = b.
Proof. unfold dec_of_nat. intros H%dec_of_Z_inj. lia. Qed.

Lemma parse_dec_of_Z z : parse_dec (dec_of_Z z) = Some z.
Proof.
  unfold parse_dec.
  destruct (dec_of_Z z) as [|c r] eqn:E; [now apply dec_of_Z_nonempty in E|].
  assert (Hc : is_dec_char c = true).
  { generalize (dec_of_Z_chars z). rewrite E. now inversion 1. }
  destruct (Ascii.eqb_spec c "+"%char) as [->|_]; [discriminate|].
  rewrite <- E. unfold dec_of_Z. rewrite string_of_list_ascii_of_string.
  destruct (to_int_not_nil z).
  rewrite NilZero.isi by assumption. simpl. now rewrite DecimalZ.of_to.
Qed.
