(** Hash pre-images: what redun/hashing.py feeds to SHA-512.
    [hash_struct s] = H (bencode s); [hash_tag_bytes tag b] = H (bencode [tag] ++ b);
    [hash_bytes b] = H b; [hash_text s] = H (utf8 s).
    The hash function itself is a Section variable with a stated injectivity premise
    (collision resistance of truncated SHA-512) — never an axiom. *)
From Coq Require Import List ZArith Ascii.
From RV Require Import Base.Decimal Model.Bencode Proofs.BencodeFacts.
Import ListNotations.
Open Scope list_scope.

Definition layout (tag : bytes) (fields : list data) : data := BList (BStr tag :: fields).
Definition pre_struct (d : data) : bytes := enc d.
Definition pre_tag_bytes (tag : bytes) (b : bytes) : bytes := enc (BList [BStr tag]) ++ b.

Lemma pre_struct_inj d d' : pre_struct d = pre_struct d' -> d = d'.
Proof. apply enc_injective. Qed.

Lemma layout_inj t fs t' fs' : pre_struct (layout t fs) = pre_struct (layout t' fs') -> t = t' /\ fs = fs'.
Proof. intros H%pre_struct_inj. unfold layout in H. injection H as -> ->. auto. Qed.

Lemma pre_tag_bytes_inj t b t' b' : pre_tag_bytes t b = pre_tag_bytes t' b' -> t = t' /\ b = b'.
Proof.
  unfold pre_tag_bytes. intros H. apply enc_prefix_free in H. destruct H as [H ->].
  injection H as ->. auto.
Qed.

Section Hash.
  Variable hashstr : Type.
  Variable H : bytes -> hashstr.
  Hypothesis H_inj : forall a b, H a = H b -> a = b.

  Definition hash_struct (d : data) : hashstr := H (pre_struct d).
  Definition hash_tag_bytes (tag b : bytes) : hashstr := H (pre_tag_bytes tag b).

  Lemma hash_struct_inj d d' : hash_struct d = hash_struct d' -> d = d'.
  Proof. intros E%H_inj. now apply pre_struct_inj. Qed.

  Lemma hash_layout_inj t fs t' fs' :
    hash_struct (layout t fs) = hash_struct (layout t' fs') -> t = t' /\ fs = fs'.
  Proof. intros E%H_inj. now apply layout_inj. Qed.

  Lemma hash_tag_bytes_inj t b t' b' :
    hash_tag_bytes t b = hash_tag_bytes t' b' -> t = t' /\ b = b'.
  Proof. intros E%H_inj. now apply pre_tag_bytes_inj. Qed.
End Hash.
