(** Decimal printing of integers as bytes, as CPython's [str(int).encode()] does. *)
From Coq Require Import List ZArith Ascii String Decimal DecimalString DecimalZ Lia.
Import ListNotations.
Open Scope list_scope.

Definition bytes := list ascii.

Definition dec_of_Z (z : Z) : bytes :=
  list_ascii_of_string (NilZero.string_of_int (Z.to_int z)).

Definition dec_of_nat (n : nat) : bytes := dec_of_Z (Z.of_nat n).

(** Alphabet of decimal output. *)
Definition is_digit (c : ascii) : bool :=
  let n := nat_of_ascii c in Nat.leb 48 n && Nat.leb n 57.
Definition is_dec_char (c : ascii) : bool := is_digit c || Ascii.eqb c "-"%char.

(** What [int()] accepts on encoder output (and a little more: leading zeros,
    "-0", an explicit "+"), via the standard library's decimal reader. *)
Definition parse_dec (s : bytes) : option Z :=
  match s with
  | c :: r =>
      if Ascii.eqb c "+"%char then
        match r with
        | c' :: _ => if is_digit c' then option_map Z.of_int (NilZero.int_of_string (string_of_list_ascii r)) else None
        | [] => None
        end
      else option_map Z.of_int (NilZero.int_of_string (string_of_list_ascii s))
  | [] => None
  end.
