(** C10 — what the monitor's status collection iterates: a snapshot of the pending map, or the live map.

    Executable model, no proofs.  One monitor loop iteration is
        statuses = collect(SOURCE)        (walks SOURCE item by item around slow CLI / cloud calls:
                                           `docker logs`, `docker rm`, describe_jobs ...)
        for st in statuses: pop the job from the pending map, report it
    while the scheduler thread keeps submitting ([pending[id] = job]).
      Snapshot : SOURCE = dict(self._pending_jobs) / list(self.pending.keys())   (as shipped)
      Live     : SOURCE = self._pending_jobs itself - CPython raises
                 "RuntimeError: (Ordered)dict mutated during iteration" at the next step of the walk
                 once the map has been written: the statuses collected so far are discarded (their
                 containers are already removed), the monitor reports reject_job(None, error) and stops.
    The monitor leaves only when nothing is pending and the scheduler thread has finished (the
    leave-while-submitting race is the subject of Model/Monitor.v).  The fake completes every job. *)
From Coq Require Import List Bool Arith.
Import ListNotations.
Open Scope list_scope.

Inductive walk_source := Snapshot | Live.

Inductive wpc :=
| WIdle                                         (* at the loop guard *)
| WSnap (rem acc : list nat)                    (* walking a copy: still to visit, collected *)
| WLive (i n0 : nat) (acc : list nat)           (* walking the live map: position, size when the walk began *)
| WProcess (l : list nat)                       (* popping + reporting the collected statuses *)
| WDead.

Record wst := {
  w_todo : list nat;
  w_pending : list nat;      (* the pending map, insertion order *)
  w_removed : list nat;      (* containers already removed by the collection (`docker rm`) *)
  w_reported : list nat;
  w_err : bool;              (* reject_job(None, error) *)
  w_pc : wpc
}.

Definition winit (js : list nat) : wst :=
  {| w_todo := js; w_pending := []; w_removed := []; w_reported := []; w_err := false; w_pc := WIdle |}.

Inductive wact := WSubmit | WMon.

Definition set_pc (s : wst) (p : wpc) : wst :=
  {| w_todo := w_todo s; w_pending := w_pending s; w_removed := w_removed s; w_reported := w_reported s;
     w_err := w_err s; w_pc := p |}.

Fixpoint wmem (j : nat) (l : list nat) : bool :=
  match l with [] => false | x :: r => if Nat.eqb j x then true else wmem j r end.
Fixpoint wremove (j : nat) (l : list nat) : list nat :=
  match l with [] => [] | x :: r => if Nat.eqb j x then r else x :: wremove j r end.

Definition wstep (v : walk_source) (s : wst) (a : wact) : option wst :=
  match a with
  | WSubmit =>
      match w_todo s with
      | [] => None
      | j :: r => Some {| w_todo := r; w_pending := w_pending s ++ [j]; w_removed := w_removed s;
                          w_reported := w_reported s; w_err := w_err s; w_pc := w_pc s |}
      end
  | WMon =>
      match w_pc s with
      | WIdle =>
          match w_pending s, w_todo s with
          | [], [] => Some (set_pc s WDead)
          | [], _ => None
          | p, _ => Some (set_pc s (match v with Snapshot => WSnap p [] | Live => WLive 0 (length p) [] end))
          end
      | WSnap [] acc => Some (set_pc s (WProcess acc))
      | WSnap (j :: rem) acc =>
          Some {| w_todo := w_todo s; w_pending := w_pending s; w_removed := w_removed s ++ [j];
                  w_reported := w_reported s; w_err := w_err s; w_pc := WSnap rem (acc ++ [j]) |}
      | WLive i n0 acc =>
          if negb (Nat.eqb (length (w_pending s)) n0)
          then (* mutated during iteration: collected statuses lost, job-less error, monitor stops *)
               Some {| w_todo := w_todo s; w_pending := w_pending s; w_removed := w_removed s;
                       w_reported := w_reported s; w_err := true; w_pc := WDead |}
          else match nth_error (w_pending s) i with
               | Some j => Some {| w_todo := w_todo s; w_pending := w_pending s; w_removed := w_removed s ++ [j];
                                   w_reported := w_reported s; w_err := w_err s; w_pc := WLive (S i) n0 (acc ++ [j]) |}
               | None => Some (set_pc s (WProcess acc))
               end
      | WProcess [] => Some (set_pc s WIdle)
      | WProcess (j :: l) =>
          if wmem j (w_pending s)
          then Some {| w_todo := w_todo s; w_pending := wremove j (w_pending s); w_removed := w_removed s;
                       w_reported := w_reported s ++ [j]; w_err := w_err s; w_pc := WProcess l |}
          else Some {| w_todo := w_todo s; w_pending := w_pending s; w_removed := w_removed s;
                       w_reported := w_reported s; w_err := true; w_pc := WDead |}
      | WDead => None
      end
  end.

Fixpoint wrun (v : walk_source) (s : wst) (sch : list wact) : option wst :=
  match sch with
  | [] => Some s
  | a :: r => match wstep v s a with None => None | Some s' => wrun v s' r end
  end.

(** Two containers pending, the first one has been collected (and removed) when job 2 is submitted. *)
Definition witness_walk : list wact := [WSubmit; WSubmit; WMon; WMon; WSubmit; WMon].
