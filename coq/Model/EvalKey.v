(** Executable model of redun's evaluation (cache) key — no proofs here.

    Code path modelled (anchors of C15):
      scheduler.py  get_arg_defaults            -> [defaults]
      scheduler.py  _evaluate/args_then          -> [merged_kwargs]   ({**default_kwargs, **kwargs})
      task.py       hash_args_eval               -> [args2], [kwargs2]
      hashing.py    hash_arguments / hash_eval   -> [args_struct], [eval_struct]
    plus Python's own argument binding (what [sig.bind] does) as the *specification*:
    [arg_hash] says which value hash sits in which argument slot of a call.

    An argument value is represented by its value hash ([type_registry.get_hash]); a
    [JobInfo] instance is [AInfo] (its payload is whatever get_hash would give for it).
    Kinds of parameters modelled: positional-or-keyword, *var, keyword-only, **var.  Positional-only
    parameters are outside the model (redun passes unbound defaults by keyword, which
    Python rejects for positional-only parameters). *)
From Coq Require Import List ZArith Ascii Bool Arith.
From RV Require Import Base.Decimal Model.Bencode Base.HashSpec.
Import ListNotations.
Open Scope list_scope.

(** * Calls and signatures *)
Inductive aval := AVal (h : bytes) | AInfo (h : bytes).

(** [inspect.Signature.parameters] always lists positional parameters, then *var, then
    keyword-only parameters, then **var; the record keeps exactly that. *)
Record sigt := {
  s_pos : list (bytes * option aval);       (* name, default *)
  s_var : option bytes;                     (* *rest *)
  s_kwonly : list (bytes * option aval);
  s_varkw : option bytes                    (* **kw *)
}.
Record call := { c_args : list aval; c_kwargs : list (bytes * aval) }.

Definition olist {A} (o : option A) : list A := match o with Some x => [x] | None => [] end.

(** name, is-positional, default — in the order of [sig.parameters] *)
Definition params (sg : sigt) : list (bytes * bool * option aval) :=
  map (fun p => (fst p, true, snd p)) (s_pos sg) ++
  map (fun v => (v, false, None)) (olist (s_var sg)) ++
  map (fun p => (fst p, false, snd p)) (s_kwonly sg) ++
  map (fun v => (v, false, None)) (olist (s_varkw sg)).

Definition all_names (sg : sigt) : list bytes := map (fun p => fst (fst p)) (params sg).
Definition pos_names (sg : sigt) : list bytes := map fst (s_pos sg).
(** parameters a keyword argument can bind to *)
Definition named_names (sg : sigt) : list bytes := map fst (s_pos sg) ++ map fst (s_kwonly sg).
Definition named_params (sg : sigt) : list (bytes * option aval) := s_pos sg ++ s_kwonly sg.

Definition mem (x : bytes) (l : list bytes) : bool := existsb (bytes_eqb x) l.
Definition opt_mem (o : option bytes) (l : list bytes) : bool :=
  match o with Some x => mem x l | None => false end.   (* Python: [None not in config_args] *)

Fixpoint assoc {A} (k : bytes) (l : list (bytes * A)) : option A :=
  match l with
  | [] => None
  | (k', v) :: r => if bytes_eqb k k' then Some v else assoc k r
  end.

Definition is_info (a : aval) : bool := match a with AInfo _ => true | AVal _ => false end.
Definition hash_of (a : aval) : option bytes := match a with AVal h => Some h | AInfo _ => None end.

(** * Source-level configuration (what translate/tr_evalkey.py extracts) *)
Inductive pairing := PairAllParams | PairPositional.
Inductive info_mode := IDrop | IBlank | IKeep.
Inductive kw_slot := KwByArgName | KwByBoundParam.
Record evalkey_cfg := {
  args_pairing : pairing;      (* hash_args_eval: zip(sig.parameters, args) / zip(<positional names>, args);
                                  the variadic tail starts after as many arguments *)
  zip_info : info_mode;        (* a JobInfo among the zipped arguments: dropped / hashed as a blank JobInfo *)
  extras_info : info_mode;     (* a JobInfo in the variadic tail: hashed as it is / as a blank JobInfo *)
  kwargs_by : kw_slot;         (* config test on a keyword: its own name / the parameter it binds to *)
  defaults_pairing : pairing;  (* get_arg_defaults: [i < len(args)] over all parameters / positional ones only *)
  tag_args : bytes; args_fields : list nat;   (* 0 = list of positional hashes, 1 = dict of keyword hashes *)
  tag_eval : bytes; eval_fields : list nat    (* 0 = task hash, 1 = args hash *)
}.

Open Scope char_scope.
Definition TaskArguments_tag : bytes :=
  ["T";"a";"s";"k";"A";"r";"g";"u";"m";"e";"n";"t";"s"].
Definition Eval_tag : bytes := ["E";"v";"a";"l"].
Close Scope char_scope.

Definition shipped : evalkey_cfg := {|
  args_pairing := PairAllParams; zip_info := IDrop; extras_info := IKeep;
  kwargs_by := KwByArgName; defaults_pairing := PairAllParams;
  tag_args := TaskArguments_tag; args_fields := [0; 1]%nat;
  tag_eval := Eval_tag; eval_fields := [0; 1]%nat |}.

Definition fixed : evalkey_cfg := {|
  args_pairing := PairPositional; zip_info := IBlank; extras_info := IBlank;
  kwargs_by := KwByBoundParam; defaults_pairing := PairPositional;
  tag_args := TaskArguments_tag; args_fields := [0; 1]%nat;
  tag_eval := Eval_tag; eval_fields := [0; 1]%nat |}.

(** * scheduler.py: get_arg_defaults *)
Fixpoint defaults_from (pr : pairing) (i nargs : nat) (kwkeys : list bytes)
         (ps : list (bytes * bool * option aval)) : list (bytes * aval) :=
  match ps with
  | [] => []
  | (nm, positional, d) :: r =>
      (if Nat.ltb i nargs && match pr with PairAllParams => true | PairPositional => positional end then []
       else if mem nm kwkeys then []
       else match d with Some v => [(nm, v)] | None => [] end)
      ++ defaults_from pr (S i) nargs kwkeys r
  end.

Definition defaults (cfg : evalkey_cfg) (sg : sigt) (c : call) : list (bytes * aval) :=
  defaults_from (defaults_pairing cfg) 0 (length (c_args c)) (map fst (c_kwargs c)) (params sg).

(** [{**default_kwargs, **kwargs}] (the two never share a key) *)
Definition merged_kwargs (cfg : evalkey_cfg) (sg : sigt) (c : call) : list (bytes * aval) :=
  defaults cfg sg c ++ c_kwargs c.

(** * task.py: hash_args_eval *)
Definition emit (m : info_mode) (blank : bytes) (a : aval) : list bytes :=
  match a with
  | AVal h => [h]
  | AInfo h => match m with IDrop => [] | IBlank => [blank] | IKeep => [h] end
  end.

Fixpoint zip_args (m : info_mode) (blank : bytes) (conf nms : list bytes) (args : list aval) : list bytes :=
  match nms, args with
  | nm :: nms', a :: args' =>
      (if mem nm conf then [] else emit m blank a) ++ zip_args m blank conf nms' args'
  | _, _ => []
  end.

Definition pair_names (cfg : evalkey_cfg) (sg : sigt) : list bytes :=
  match args_pairing cfg with PairAllParams => all_names sg | PairPositional => pos_names sg end.

Definition args2 (cfg : evalkey_cfg) (blank : bytes) (sg : sigt) (conf : list bytes) (args : list aval) : list bytes :=
  let nms := pair_names cfg sg in
  zip_args (zip_info cfg) blank conf nms args ++
  (if opt_mem (s_var sg) conf then []
   else flat_map (emit (extras_info cfg) blank) (skipn (length nms) args)).

(** the parameter a keyword argument binds to (Python), or its own name (the shipped test) *)
Definition bound_kw_param (sg : sigt) (k : bytes) : option bytes :=
  if mem k (named_names sg) then Some k else s_varkw sg.
Definition kw_param (cfg : evalkey_cfg) (sg : sigt) (k : bytes) : option bytes :=
  match kwargs_by cfg with KwByArgName => Some k | KwByBoundParam => bound_kw_param sg k end.

Definition kwargs2 (cfg : evalkey_cfg) (sg : sigt) (conf : list bytes) (kw : list (bytes * aval)) : list (bytes * bytes) :=
  flat_map (fun ka : bytes * aval =>
              if opt_mem (kw_param cfg sg (fst ka)) conf then []
              else match snd ka with AVal h => [(fst ka, h)] | AInfo _ => [] end) kw.

(** * hashing.py: hash_arguments, hash_eval *)
Definition pick {A} (dflt : A) (l : list A) (order : list nat) : list A :=
  map (fun i => nth i l dflt) order.

Definition args_struct (cfg : evalkey_cfg) (pos : list bytes) (kw : list (bytes * bytes)) : data :=
  layout (tag_args cfg)
    (pick (BInt 0) [BList (map BStr pos); BDict (sort_kvs (map (fun kh => (fst kh, BStr (snd kh))) kw))]
          (args_fields cfg)).

Definition eval_struct (cfg : evalkey_cfg) (task_hash args_hash : bytes) : data :=
  layout (tag_eval cfg) (pick (BInt 0) [BStr task_hash; BStr args_hash] (eval_fields cfg)).

(** the structure hashed for the arguments of call [c] (after get_arg_defaults) *)
Definition call_args_struct (cfg : evalkey_cfg) (blank : bytes) (sg : sigt) (conf : list bytes) (c : call) : data :=
  args_struct cfg (args2 cfg blank sg conf (c_args c)) (kwargs2 cfg sg conf (merged_kwargs cfg sg c)).

Definition call_args_pre cfg blank sg conf c : bytes := pre_struct (call_args_struct cfg blank sg conf c).
Definition eval_pre cfg th ah : bytes := pre_struct (eval_struct cfg th ah).

(** [H] is the hash function on byte strings (SHA-512 truncated to 40 hex digits). *)
Definition call_args_hash (H : bytes -> bytes) cfg blank sg conf c : bytes := H (call_args_pre cfg blank sg conf c).
Definition call_eval_hash (H : bytes -> bytes) cfg blank sg conf (th : bytes) c : bytes :=
  H (eval_pre cfg th (call_args_hash H cfg blank sg conf c)).

(** * Specification: which value hash occupies which argument slot (Python's binding rules) *)
Inductive slot :=
| SNamed (name : bytes)      (* a positional-or-keyword or keyword-only parameter *)
| SExtra (i : nat)           (* i-th element collected by *var *)
| SKw (name : bytes).        (* keyword collected by **var *)

Fixpoint index_of (x : bytes) (l : list bytes) : option nat :=
  match l with
  | [] => None
  | y :: r => if bytes_eqb x y then Some 0%nat else option_map S (index_of x r)
  end.

(** the argument a named parameter receives: positionally, else by keyword, else its default *)
Definition arg_of (sg : sigt) (c : call) (nm : bytes) : option aval :=
  let by_kw := match assoc nm (c_kwargs c) with
               | Some a => Some a
               | None => match assoc nm (named_params sg) with Some d => d | None => None end
               end in
  match index_of nm (pos_names sg) with
  | Some i => if Nat.ltb i (length (c_args c)) then nth_error (c_args c) i else by_kw
  | None => by_kw
  end.

Definition obind {A B} (o : option A) (f : A -> option B) : option B :=
  match o with Some x => f x | None => None end.

(** [Some h]: the slot holds a value with hash [h] that the key must depend on;
    [None]: slot empty, bound to a declared config parameter, or holding a JobInfo placeholder. *)
Definition arg_hash (sg : sigt) (conf : list bytes) (c : call) (s : slot) : option bytes :=
  match s with
  | SNamed nm =>
      if negb (mem nm (named_names sg)) || mem nm conf then None else obind (arg_of sg c nm) hash_of
  | SExtra i =>
      if opt_mem (s_var sg) conf then None
      else obind (nth_error (skipn (length (pos_names sg)) (c_args c)) i) hash_of
  | SKw k =>
      if mem k (named_names sg) || opt_mem (s_varkw sg) conf then None
      else obind (assoc k (c_kwargs c)) hash_of
  end.

(** Python accepts the call ([sig.bind] does not raise) — used for non-vacuity and by the harness *)
Fixpoint nodupb (l : list bytes) : bool :=
  match l with [] => true | x :: r => negb (mem x r) && nodupb r end.
Definition is_some {A} (o : option A) : bool := match o with Some _ => true | None => false end.
Definition bind_ok (sg : sigt) (c : call) : bool :=
  let na := length (c_args c) in
  let keys := map fst (c_kwargs c) in
  (Nat.leb na (length (s_pos sg)) || is_some (s_var sg)) &&
  nodupb keys &&
  forallb (fun k => if mem k (named_names sg) then negb (mem k (firstn na (pos_names sg)))
                    else is_some (s_varkw sg)) keys &&
  forallb (fun p => mem (fst p) (firstn na (pos_names sg)) || mem (fst p) keys || is_some (snd p))
          (named_params sg).
Definition sig_ok (sg : sigt) : bool := nodupb (all_names sg).

(** * Glue for the correspondence run *)
Definition pre_agrees (model lit : bytes) : bool := bytes_eqb model lit.
