(** Glue for the correspondence run of the evaluation-tree model. No proofs. *)
From Coq Require Import List ZArith Bool Arith.
From RV Require Import Model.EvalTree.
Import ListNotations.

Fixpoint val_eqb (a b : val) {struct a} : bool :=
  match a, b with
  | VInt x, VInt y => Z.eqb x y
  | VRec x, VRec y => Z.eqb x y
  | VList x, VList y =>
      (fix go (x y : list val) : bool :=
         match x, y with [], [] => true | a :: x', b :: y' => val_eqb a b && go x' y' | _, _ => false end) x y
  | _, _ => false
  end.

Definition outcome_eqb (a b : outcome) : bool :=
  match a, b with Ok x, Ok y => val_eqb x y | Ko x, Ko y => Z.eqb x y | _, _ => false end.

(** the machine, driven by the real order of starts and finishes, ends with the real outcome
    (values exactly; for errors the real error must be admissible and the machine must fail too) *)
Definition check_run (s : spec) (ops : list op) (real : outcome) : bool :=
  admb s real &&
  match result (run s ops), real with
  | Some (Ok v), Ok _ => outcome_eqb (Ok v) real
  | Some (Ko _), Ko _ => true
  | _, _ => false
  end.

Fixpoint sub (s : spec) (p : list nat) : option spec :=
  match p with
  | [] => Some s
  | i :: p' => match nth_error (children s) i with Some c => sub c p' | None => None end
  end.

(** every job's own outcome is admissible for its sub-program *)
Definition check_node (s : spec) (p : list nat) (real : outcome) : bool :=
  match sub s p with Some c => admb c real | None => false end.
