(** Executable model of what C07 is about: how the value returned by an execution and the
    recorded call graph (call nodes with their argument lists) come about, as a function of the
    program AND of the schedule (order of `_exec_job_main_thread` entries, waits for resource
    limits with later re-entry, executor completion order, CSE collapses).  No proofs here.

    redun/scheduler.py: `_exec_job_main_thread` (call site of `_preprocess_args`),
    `_preprocess_args` (Handle fork counter `Job.handle_forks` of the PARENT job),
    `_done_job_main_thread` (`_postprocess_result`, evaluation of the result expression, which
    creates the child jobs), `_resolve_job_main_thread` (`record_call_node`), `Job.collapse`;
    redun/handle.py: `Handle.preprocess` (fork key), `HandleInfo.fork / apply_call / get_hash`.

    Hashes are idealised as the structures they hash (an injective hash): two recorded objects
    have the same hash in the model iff they are the same term.  `hash_call_node` sorts the child
    hashes; in the model the children are listed in creation order, which is schedule independent
    for the programs modelled here (all children of a job are created when its result expression
    is evaluated, in expression order).

    The machine is nondeterministic through its ops: ANY ready job may enter next, an entering job
    may be told to wait (any limit configuration is a refinement of "may wait"), any running job
    may complete next, an entering job may collapse into any job with the same task and arguments
    (a pending twin or a recorded call node).  A statement proved for all op lists therefore holds
    for every completion order and every limit configuration. *)
From Coq Require Import List ZArith Bool Arith.
Import ListNotations.
Open Scope list_scope.

(* ------------------------------------------------------------------------------------------ *)
(** * Values, with Handle states as structures *)
Inductive value :=
| VInt (n : Z)
| VList (l : list value)
| VHInit (name : nat)                            (* H("name"): hash from the constructor data *)
| VHFork (h : value) (key : nat)                 (* HandleInfo.fork: call_hash := hash of h, key *)
| VHCall (name : nat) (t : nat) (args : list value).
    (* HandleInfo.apply_call: call_hash := eval hash of the call (task t, preprocessed args), key "" *)

Definition is_handle (v : value) : bool :=
  match v with VInt _ | VList _ => false | _ => true end.

Fixpoint handle_name (v : value) : nat :=
  match v with
  | VHInit n => n
  | VHFork h _ => handle_name h
  | VHCall n _ _ => n
  | _ => 0
  end.

(** `self.__handle__.key`: non-empty exactly for a forked state *)
Definition key_of (v : value) : option nat :=
  match v with VHFork _ k => Some k | _ => None end.

Fixpoint value_eqb (a b : value) {struct a} : bool :=
  match a, b with
  | VInt x, VInt y => Z.eqb x y
  | VList l, VList m =>
      (fix go (l m : list value) {struct l} : bool :=
         match l, m with
         | [], [] => true
         | x :: l', y :: m' => value_eqb x y && go l' m'
         | _, _ => false
         end) l m
  | VHInit x, VHInit y => Nat.eqb x y
  | VHFork h k, VHFork h' k' => value_eqb h h' && Nat.eqb k k'
  | VHCall n t l, VHCall n' t' m =>
      Nat.eqb n n' && Nat.eqb t t' &&
      (fix go (l m : list value) {struct l} : bool :=
         match l, m with
         | [], [] => true
         | x :: l', y :: m' => value_eqb x y && go l' m'
         | _, _ => false
         end) l m
  | _, _ => false
  end.

Fixpoint list_eqb {A} (eqb : A -> A -> bool) (l m : list A) : bool :=
  match l, m with
  | [], [] => true
  | x :: l', y :: m' => eqb x y && list_eqb eqb l' m'
  | _, _ => false
  end.

(* ------------------------------------------------------------------------------------------ *)
(** * Expressions: what a task returns / what a call is given *)
Inductive expr :=
| EVal (v : value)
| EList (l : list expr)
| ECall (t : nat) (args : list expr).      (* a lazy TaskExpression *)

Definition call := (nat * list expr)%type.

Fixpoint expr_eqb (a b : expr) {struct a} : bool :=
  match a, b with
  | EVal x, EVal y => value_eqb x y
  | EList l, EList m =>
      (fix go (l m : list expr) {struct l} : bool :=
         match l, m with
         | [], [] => true
         | x :: l', y :: m' => expr_eqb x y && go l' m'
         | _, _ => false
         end) l m
  | ECall t l, ECall t' m =>
      Nat.eqb t t' &&
      (fix go (l m : list expr) {struct l} : bool :=
         match l, m with
         | [], [] => true
         | x :: l', y :: m' => expr_eqb x y && go l' m'
         | _, _ => false
         end) l m
  | _, _ => false
  end.

Definition call_eqb (c d : call) : bool :=
  Nat.eqb (fst c) (fst d) && list_eqb expr_eqb (snd c) (snd d).

Fixpoint index_of (c : call) (cs : list call) : option nat :=
  match cs with
  | [] => None
  | d :: r => if call_eqb d c then Some 0 else option_map S (index_of c r)
  end.

(** The child jobs a result expression gives rise to, in creation order (`Job.child_jobs`):
    `Scheduler.evaluate` walks the nested value in order; `_evaluate_apply` creates the Job of a
    TaskExpression BEFORE it evaluates the argument expressions, and evaluates an expression equal
    to one already seen under the same parent only once (`_pending_expr`). *)
Fixpoint calls_acc (e : expr) (acc : list call) {struct e} : list call :=
  match e with
  | EVal _ => acc
  | EList l => fold_left (fun acc x => calls_acc x acc) l acc
  | ECall t a =>
      match index_of (t, a) acc with
      | Some _ => acc
      | None => fold_left (fun acc x => calls_acc x acc) a (acc ++ [(t, a)])
      end
  end.
Definition calls_of (e : expr) : list call := calls_acc e [].

Section MapM.
  Context {A B : Type} (f : A -> option B).
  Fixpoint mapM (l : list A) : option (list B) :=
    match l with
    | [] => Some []
    | x :: r => match f x, mapM r with Some y, Some ys => Some (y :: ys) | _, _ => None end
    end.
End MapM.

(** The value of an expression once the calls in it have results ([results] is positional w.r.t.
    [calls]; [None] = not resolved yet). *)
Fixpoint subst (calls : list call) (results : list (option value)) (e : expr) {struct e} : option value :=
  match e with
  | EVal v => Some v
  | EList l => option_map VList (mapM (subst calls results) l)
  | ECall t a =>
      match index_of (t, a) calls with
      | Some i => match nth_error results i with Some (Some r) => Some r | _ => None end
      | None => None
      end
  end.

(* ------------------------------------------------------------------------------------------ *)
(** * `_preprocess_args` and `Handle.preprocess` *)

(** What the translator extracts from the source (translate/tr_timing.py). *)
Record cfg := {
  pre_every_entry : bool;   (* true (as shipped): `_preprocess_args` runs on EVERY entry of `_exec_job_main_thread`,
                               i.e. again when a job that waited for limits is re-nominated; false: once per job *)
  read_after_incr : bool;   (* `handle_forks[h] += 1` happens before `call_order = handle_forks[h]` *)
  root_order : nat;         (* call_order of a job without parent *)
  key_reuse : bool;         (* `self.__handle__.key or str(call_order)` *)
  forks_per_parent : bool   (* true: every Job has its own `handle_forks` (the counter a child uses is its PARENT job's);
                               false: all jobs of an execution share one counter *)
}.
Definition shipped : cfg :=
  {| pre_every_entry := true; read_after_incr := true; root_order := 0; key_reuse := true; forks_per_parent := true |}.
Definition fixed : cfg :=
  {| pre_every_entry := false; read_after_incr := true; root_order := 0; key_reuse := true; forks_per_parent := true |}.
(** one counter per execution (seeded change C07c): refuted, Props/C07.v *)
Definition per_execution : cfg :=
  {| pre_every_entry := false; read_after_incr := true; root_order := 0; key_reuse := true; forks_per_parent := false |}.

(** `Job.handle_forks`: defaultdict(int) keyed by the handle hash *)
Definition forks := list (value * nat).

Fixpoint lookup (f : forks) (h : value) : nat :=
  match f with
  | [] => 0
  | (k, n) :: r => if value_eqb k h then n else lookup r h
  end.

Fixpoint incr (f : forks) (h : value) : forks :=
  match f with
  | [] => [(h, 1)]
  | (k, n) :: r => if value_eqb k h then (k, S n) :: r else (k, n) :: incr r h
  end.

Definition fork_key (c : cfg) (h : value) (order : nat) : nat :=
  if key_reuse c then match key_of h with Some k => k | None => order end else order.

(** the forked state `h.fork(h.key or str(call_order))` *)
Definition fork_with (c : cfg) (h : value) (order : nat) : value := VHFork h (fork_key c h order).

(** `map_nested_value(preprocess_value, (args, kwargs))` with the parent's counter threaded through *)
Fixpoint prep_v (c : cfg) (f : forks) (v : value) {struct v} : forks * value :=
  match v with
  | VInt _ => (f, v)
  | VList l =>
      let '(f', l') :=
        (fix go (f : forks) (l : list value) {struct l} : forks * list value :=
           match l with
           | [] => (f, [])
           | x :: r => let '(f1, x') := prep_v c f x in
                       let '(f2, r') := go f1 r in (f2, x' :: r')
           end) f l in
      (f', VList l')
  | _ =>
      let f' := incr f v in
      (f', fork_with c v (lookup (if read_after_incr c then f' else f) v))
  end.

Fixpoint prep_l (c : cfg) (f : forks) (l : list value) : forks * list value :=
  match l with
  | [] => (f, [])
  | x :: r => let '(f1, x') := prep_v c f x in
              let '(f2, r') := prep_l c f1 r in (f2, x' :: r')
  end.

(** every fork gets the same call order [k] (no counter): a job without parent ([k = root_order]);
    also the schedule-independent reference ([k] = order of a first fork) *)
Fixpoint keys_v (c : cfg) (k : nat) (v : value) {struct v} : value :=
  match v with
  | VInt _ => v
  | VList l => VList (map (keys_v c k) l)
  | _ => fork_with c v k
  end.
Definition keys_l (c : cfg) (k : nat) (l : list value) : list value := map (keys_v c k) l.

Definition first_order (c : cfg) : nat := if read_after_incr c then 1 else 0.

(** `_postprocess_result(job, result, job.eval_hash)`: Handles in the returned nested value (not those
    inside the arguments of lazy calls) become `apply_call(eval_hash)` states *)
Fixpoint post_v (t : nat) (pre : list value) (v : value) {struct v} : value :=
  match v with
  | VInt _ => v
  | VList l => VList (map (post_v t pre) l)
  | _ => VHCall (handle_name v) t pre
  end.
Fixpoint post_e (t : nat) (pre : list value) (e : expr) {struct e} : expr :=
  match e with
  | EVal v => EVal (post_v t pre v)
  | EList l => EList (map (post_e t pre) l)
  | ECall t' a => ECall t' a
  end.

(* ------------------------------------------------------------------------------------------ *)
(** * Recorded call nodes and jobs *)
Inductive cnode := CN (t : nat) (args : list value) (res : value) (kids : list cnode).

Fixpoint cnode_eqb (a b : cnode) {struct a} : bool :=
  match a, b with
  | CN t x r k, CN t' x' r' k' =>
      Nat.eqb t t' && list_eqb value_eqb x x' && value_eqb r r' &&
      (fix go (l m : list cnode) {struct l} : bool :=
         match l, m with
         | [], [] => true
         | p :: l', q :: m' => cnode_eqb p q && go l' m'
         | _, _ => false
         end) k k'
  end.

Fixpoint all_sub (n : cnode) : list cnode :=
  match n with CN _ _ _ ks => n :: flat_map all_sub ks end.

Inductive status :=
| SCreated                                           (* arguments not ready, or Exec event not processed yet *)
| SWait (raw pre : list value)                       (* in _jobs_pending_limits: will re-enter *)
| SRun (raw pre : list value)                        (* handed to an executor *)
| SEval (raw pre : list value) (e : expr) (kids : list nat) (f : forks)
     (* `_done_job_main_thread` ran: [e] is the postprocessed result expression, [kids] the child jobs
        of `calls_of e` (same order), [f] this job's `handle_forks` *)
| SColl (raw pre : list value) (into : nat)          (* Job.collapse / CSE hit: takes the twin's result and call hash *)
| SRes (raw pre : list value) (res : value) (node : cnode) (kids : list nat).

Record job := mkJob {
  j_parent : option nat;
  j_task : nat;
  j_argx : list expr;       (* the argument expressions of the call *)
  j_st : status
}.

Definition state := list job.

Definition st_pre (s : status) : option (list value) :=
  match s with
  | SCreated => None
  | SWait _ p | SRun _ p | SEval _ p _ _ _ | SColl _ p _ | SRes _ p _ _ _ => Some p
  end.
Definition st_raw (s : status) : option (list value) :=
  match s with
  | SCreated => None
  | SWait r _ | SRun r _ | SEval r _ _ _ _ | SColl r _ _ | SRes r _ _ _ _ => Some r
  end.
Definition st_res (s : status) : option (value * cnode) :=
  match s with SRes _ _ r n _ => Some (r, n) | _ => None end.

Definition job_res (s : state) (j : nat) : option (value * cnode) :=
  match nth_error s j with Some jb => st_res (j_st jb) | None => None end.
Definition results (s : state) (kids : list nat) : list (option value) :=
  map (fun k => option_map fst (job_res s k)) kids.

Fixpoint upd {A} (l : list A) (i : nat) (x : A) : list A :=
  match l, i with
  | [], _ => []
  | _ :: r, 0 => x :: r
  | y :: r, S i' => y :: upd r i' x
  end.

Definition set_st (s : state) (j : nat) (st : status) : state :=
  match nth_error s j with
  | Some jb => upd s j (mkJob (j_parent jb) (j_task jb) (j_argx jb) st)
  | None => s
  end.

(* ------------------------------------------------------------------------------------------ *)
(** * The machine *)
Inductive decision :=
| DWait                 (* not within limits: `_add_job_pending_limits`, return *)
| DStart                (* consume, submit to the executor *)
| DColl (k : nat).      (* `_check_pending_job` found twin k / `_get_cache` found k's call node *)

Inductive op :=
| OEnter (j : nat) (d : decision)   (* one run of `_exec_job_main_thread` for job j *)
| ODone (j : nat)                   (* the executor finished j: `_done_job_main_thread` *)
| OResolve (j : nat).               (* `_resolve_job_main_thread` *)

Section Machine.
  Variable c : cfg.
  Variable body : nat -> list value -> expr.      (* the task functions: preprocessed args -> returned expression *)

  (** raw (evaluated, not yet preprocessed) arguments of job [jb] in state [s] *)
  Definition raw_args (s : state) (jb : job) : option (list value) :=
    match j_parent jb with
    | None => mapM (subst [] []) (j_argx jb)
    | Some p =>
        match nth_error s p with
        | Some pj =>
            match j_st pj with
            | SEval _ _ e kids _ => mapM (subst (calls_of e) (results s kids)) (j_argx jb)
            | _ => None
            end
        | None => None
        end
    end.

  (** `_preprocess_args`: returns the state with the parent's counter advanced and the preprocessed args *)
  Definition preprocess (s : state) (jb : job) (raw : list value) : option (state * list value) :=
    match j_parent jb with
    | None => Some (s, keys_l c (root_order c) raw)
    | Some p =>
        (* the job holding the counter: the parent, or — one counter per execution — the root job, which
           is evaluating its result as long as any other job exists *)
        let q := if forks_per_parent c then p else 0 in
        match nth_error s q with
        | Some pj =>
            match j_st pj with
            | SEval praw ppre e kids f =>
                let '(f', pre) := prep_l c f raw in
                Some (set_st s q (SEval praw ppre e kids f'), pre)
            | _ => None
            end
        | None => None
        end
    end.

  Definition started (st : status) : bool :=
    match st with SRun _ _ | SEval _ _ _ _ _ | SRes _ _ _ _ _ => true | _ => false end.

  Definition decide (s : state) (j : nat) (jb : job) (raw pre : list value) (d : decision) : option state :=
    match d with
    | DWait => Some (set_st s j (SWait raw pre))
    | DStart => Some (set_st s j (SRun raw pre))
    | DColl k =>
        match nth_error s k with
        | Some kb =>
            if negb (Nat.eqb k j) && Nat.eqb (j_task kb) (j_task jb) && started (j_st kb) &&
               match st_pre (j_st kb) with Some p => list_eqb value_eqb p pre | None => false end
            then Some (set_st s j (SColl raw pre k)) else None
        | None => None
        end
    end.

  Definition step (s : state) (o : op) : option state :=
    match o with
    | OEnter j d =>
        match nth_error s j with
        | Some jb =>
            match j_st jb with
            | SCreated =>
                match raw_args s jb with
                | Some raw =>
                    match preprocess s jb raw with
                    | Some (s1, pre) => decide s1 j jb raw pre d
                    | None => None
                    end
                | None => None
                end
            | SWait raw pre =>
                if pre_every_entry c then
                  match preprocess s jb raw with
                  | Some (s1, pre') => decide s1 j jb raw pre' d
                  | None => None
                  end
                else decide s j jb raw pre d
            | _ => None
            end
        | None => None
        end
    | ODone j =>
        match nth_error s j with
        | Some jb =>
            match j_st jb with
            | SRun raw pre =>
                let e := post_e (j_task jb) pre (body (j_task jb) pre) in
                let cs := calls_of e in
                let n := length s in
                Some (set_st s j (SEval raw pre e (seq n (length cs)) [])
                      ++ map (fun ca : call => mkJob (Some j) (fst ca) (snd ca) SCreated) cs)
            | _ => None
            end
        | None => None
        end
    | OResolve j =>
        match nth_error s j with
        | Some jb =>
            match j_st jb with
            | SEval raw pre e kids _ =>
                match subst (calls_of e) (results s kids) e, mapM (job_res s) kids with
                | Some r, Some rns => Some (set_st s j (SRes raw pre r (CN (j_task jb) pre r (map snd rns)) kids))
                | _, _ => None
                end
            | SColl raw pre k =>
                match job_res s k with
                | Some (r, n) => Some (set_st s j (SRes raw pre r n []))
                | None => None
                end
            | _ => None
            end
        | None => None
        end
    end.

  Fixpoint run (s : state) (ops : list op) : option state :=
    match ops with
    | [] => Some s
    | o :: r => match step s o with Some s' => run s' r | None => None end
    end.

  (** the execution of the root call [t0(args0)] *)
  Definition init (t0 : nat) (args0 : list value) : state :=
    [mkJob None t0 (map EVal args0) SCreated].
End Machine.

(** what C07 compares between two executions *)
Definition outcome (s : state) : option (value * cnode) := job_res s 0.
Definition recorded (s : state) : list cnode :=
  flat_map (fun jb => match st_res (j_st jb) with Some (_, n) => [n] | None => [] end) s.

Fixpoint mem_node (n : cnode) (l : list cnode) : bool :=
  match l with [] => false | m :: r => cnode_eqb m n || mem_node n r end.
Definition same_nodes (a b : list cnode) : bool :=
  forallb (fun n => mem_node n b) a && forallb (fun n => mem_node n a) b.

(* ------------------------------------------------------------------------------------------ *)
(** * The template programs of harness/progs/vm_c07.py *)
Inductive texpr :=
| TC (v : value)
| TH (name : nat)
| TP (i : nat)
| TL (l : list texpr)
| TCall (t : nat) (args : list texpr).

Definition all_vals (l : list expr) : option (list value) :=
  mapM (fun e => match e with EVal v => Some v | _ => None end) l.

(** a Python list whose members are all concrete is one concrete value *)
Definition mk_list (l : list expr) : expr :=
  match all_vals l with Some vs => EVal (VList vs) | None => EList l end.

Fixpoint inst (args : list value) (te : texpr) {struct te} : expr :=
  match te with
  | TC v => EVal v
  | TH n => EVal (VHInit n)
  | TP i => EVal (nth i args (VInt 0))
  | TL l => mk_list (map (inst args) l)
  | TCall t a => ECall t (map (inst args) a)
  end.

Definition tbody (prog : list texpr) (t : nat) (args : list value) : expr :=
  inst args (nth t prog (TC (VInt 0))).

(* ------------------------------------------------------------------------------------------ *)
(** * Correspondence interface (harness/props/c07.py)

    Several runs (op lists) of one program are replayed; the real hashes are compared with the model's
    structures as PARTITIONS: two recorded objects (argument lists, results, call nodes — over all jobs
    of all runs) must have the same real hash iff they are the same structure in the model.  A class is
    named by the index of its first member. *)
Fixpoint first_idx {A} (eqb : A -> A -> bool) (x : A) (l : list A) (i : nat) : nat :=
  match l with
  | [] => i
  | y :: r => if eqb y x then i else first_idx eqb x r (S i)
  end.
Definition classify {A} (eqb : A -> A -> bool) (l : list A) : list nat :=
  map (fun x => first_idx eqb x l 0) l.

Definition complete (s : state) : bool :=
  forallb (fun jb => match j_st jb with SRes _ _ _ _ _ => true | _ => false end) s.

Definition job_pre (jb : job) : list value := match st_pre (j_st jb) with Some p => p | None => [] end.
Definition job_resv (jb : job) : value := match st_res (j_st jb) with Some (r, _) => r | None => VInt 0 end.
Definition job_node (jb : job) : cnode :=
  match st_res (j_st jb) with Some (_, n) => n | None => CN 0 [] (VInt 0) [] end.

Definition runs_of (c : cfg) (prog : list texpr) (rootargs : list value) (opss : list (list op))
  : option (list state) :=
  mapM (fun ops => match run c (tbody prog) (init 0 rootargs) ops with
                   | Some s => if complete s then Some s else None
                   | None => None
                   end) opss.

Definition check_prog (c : cfg) (prog : list texpr) (rootargs : list value) (opss : list (list op))
    (exp_tasks : list (list nat)) (exp_args exp_res exp_node : list nat) : bool :=
  match runs_of c prog rootargs opss with
  | Some ss =>
      list_eqb (list_eqb Nat.eqb) (map (map j_task) ss) exp_tasks &&
      list_eqb Nat.eqb (classify (list_eqb value_eqb) (flat_map (map job_pre) ss)) exp_args &&
      list_eqb Nat.eqb (classify value_eqb (flat_map (map job_resv) ss)) exp_res &&
      list_eqb Nat.eqb (classify cnode_eqb (flat_map (map job_node) ss)) exp_node
  | None => false
  end.

(* ------------------------------------------------------------------------------------------ *)
(** * "No Handle state is passed to two sibling calls" (used to state the theorem about the
      repaired `_preprocess_args` call site) *)
Fixpoint handles_v (v : value) : list value :=
  match v with
  | VInt _ => []
  | VList l => flat_map handles_v l
  | _ => [v]
  end.
Definition handles_l (l : list value) : list value := flat_map handles_v l.

(** the Handle states job [jb] passes on, if it is a child of [p] whose arguments are evaluated *)
Definition contrib (p : nat) (jb : job) : list value :=
  match j_parent jb, st_raw (j_st jb) with
  | Some p', Some raw => if Nat.eqb p' p then handles_l raw else []
  | _, _ => []
  end.
(** all Handle states passed to child calls of job [p] so far (with multiplicity) *)
Definition uses (s : state) (p : nat) : list value := flat_map (contrib p) s.

Fixpoint count_v (h : value) (l : list value) : nat :=
  match l with
  | [] => 0
  | x :: r => (if value_eqb x h then 1 else 0) + count_v h r
  end.

Definition linear (s : state) : Prop := forall p h, count_v h (uses s p) <= 1.

Definition linear_b (s : state) : bool :=
  forallb (fun jb => match j_parent jb with Some p => Nat.ltb p (length s) | None => true end) s &&
  forallb (fun p => forallb (fun h => Nat.leb (count_v h (uses s p)) 1) (uses s p)) (seq 0 (length s)).
