(** Executable model for C24: the tag history kept by RedunBackendDb
    (redun/backends/db/__init__.py: Tag / TagEdit, record_tags, delete_tags, get_tags) as driven by
    the `redun tag add|update|rm` commands (redun/cli.py).  No proofs here.

    Tags are content addressed: tag_hash = hash_tag(entity_id, key, json_dumps(value), sorted(parents)).
    The model keeps the [tag] table as a list of rows in insertion order and uses the *position* of a
    row as its identity; a row is looked up by its content and its list of parent positions
    ([find_id]), which is what a look-up by hash does when hash_tag is injective.  Parent lists are
    always produced by a query over the table (ascending positions) or are singletons, so list
    equality on them is the order-insensitive identity that `sorted(parents)` gives the real hash.
    The correspondence run recomputes the real hash of every model row and compares whole tables.

    JSON values are identified by their normalised text (json_dumps), which is how both the hash and
    the sqlite column compare them; only `null` is special (see [pair_match]).

    Three sites carry a variant ([cfg]); [shipped] is the code as it is, [fixed] the repaired code:
      - [dedupe]       record_tags drops repeated (key, value) pairs of one call first;
      - [skip_current] with new=True a pair that is already current on a version that this call
                       does not supersede is left alone (no second current version);
      - [null_match]   delete_tags matches a pair whose value is JSON null.
    Python exceptions are outcomes: [DbError] (sqlalchemy IntegrityError at commit: the open
    transaction is lost, earlier commits of the same call stay), [CliError] (`tag rm` with no
    key: IndexError before the backend is touched).  Fuel is explicit: [OutOfFuel]. *)
From Coq Require Import String List Arith Bool PeanoNat.
Import ListNotations.
Open Scope list_scope.

Inductive jval := VNull | VJ (n : nat).
(** [CDel] is the row made by Tag.get_delete_tag(): entity_id "", key "", value None.  `redun tag`
    never produces an empty key (parse_tag_key_value rejects it), so it is a separate constructor. *)
Inductive content := CTag (e k : nat) (v : jval) | CDel.
Record row := mkRow { r_c : content; r_par : list nat; r_cur : bool }.
Record state := mkSt { rows : list row; edits : list (nat * nat) }.   (* edits: (parent, child) *)
Definition init : state := mkSt [] [].

Record cfg := mkCfg { dedupe : bool; skip_current : bool; null_match : bool }.
Definition shipped : cfg := mkCfg false false false.
Definition fixed : cfg := mkCfg true true true.
(** the code after the fix "record_tags treats a key-value pair listed twice as one tag" (the real
    code removes repeated tag rows by tag_hash after the parents are known; the keys of the call
    and hence the parents are the same with or without repetitions, so removing the repeated
    pairs first, as [record_tags] below does, gives the same rows) *)
Definition deduped : cfg := mkCfg true false false.

Inductive outcome := Done (s : state) | DbError (s : state) | CliError (s : state) | OutOfFuel.

(* ------------------------------------------------------------------ equality tests *)
Definition jval_eqb (a b : jval) : bool :=
  match a, b with VNull, VNull => true | VJ n, VJ m => n =? m | _, _ => false end.
Definition content_eqb (a b : content) : bool :=
  match a, b with
  | CTag e k v, CTag e' k' v' => (e =? e') && (k =? k') && jval_eqb v v'
  | CDel, CDel => true
  | _, _ => false
  end.
Fixpoint list_eqb (l l' : list nat) : bool :=
  match l, l' with
  | [], [] => true
  | a :: r, b :: r' => (a =? b) && list_eqb r r'
  | _, _ => false
  end.
Definition mem (n : nat) (l : list nat) : bool := existsb (Nat.eqb n) l.
Definition edit_eqb (a b : nat * nat) : bool := (fst a =? fst b) && (snd a =? snd b).
Definition mem_edit (a : nat * nat) (l : list (nat * nat)) : bool := existsb (edit_eqb a) l.
Definition memc (c : content) (l : list content) : bool := existsb (content_eqb c) l.

Fixpoint has_dup {A} (eqb : A -> A -> bool) (l : list A) : bool :=
  match l with [] => false | a :: r => existsb (eqb a) r || has_dup eqb r end.
(** keeps the first occurrence of every pair *)
Fixpoint nodupc_acc (seen l : list content) : list content :=
  match l with
  | [] => []
  | c :: r => if memc c seen then nodupc_acc seen r else c :: nodupc_acc (c :: seen) r
  end.
Definition nodupc (l : list content) : list content := nodupc_acc [] l.

(* ------------------------------------------------------------------ queries *)
Definition row_is (c : content) (ps : list nat) (r : row) : bool :=
  content_eqb (r_c r) c && list_eqb (r_par r) ps.
Fixpoint find_from (i : nat) (c : content) (ps : list nat) (l : list row) : option nat :=
  match l with
  | [] => None
  | r :: l' => if row_is c ps r then Some i else find_from (S i) c ps l'
  end.
(** look-up by tag_hash *)
Definition find_id (s : state) (c : content) (ps : list nat) : option nat := find_from 0 c ps (rows s).
Definition exists_row (s : state) (c : content) (ps : list nat) : bool :=
  match find_id s c ps with Some _ => true | None => false end.
(** TagEdit.parent_id == tag_hash has a row *)
Definition superseded (s : state) (i : nat) : bool := existsb (fun pe => fst pe =? i) (edits s).

Fixpoint ids_from (i : nat) (p : row -> bool) (l : list row) : list nat :=
  match l with
  | [] => []
  | r :: l' => if p r then i :: ids_from (S i) p l' else ids_from (S i) p l'
  end.
(** Tag.is_current AND Tag.entity_id == e AND pred(key, value) *)
Definition cur_match (e : nat) (pred : nat -> jval -> bool) (r : row) : bool :=
  r_cur r && match r_c r with CTag e' k v => (e' =? e) && pred k v | CDel => false end.

(** UPDATE tag SET is_current = false WHERE tag_hash IN parents *)
Fixpoint inval_from (i : nat) (ps : list nat) (l : list row) : list row :=
  match l with
  | [] => []
  | r :: l' => (if mem i ps then mkRow (r_c r) (r_par r) false else r) :: inval_from (S i) ps l'
  end.

Definition keys_of (tags : list content) : list nat :=
  flat_map (fun c => match c with CTag _ k _ => [k] | CDel => [] end) tags.

(* ------------------------------------------------------------------ record_tags *)
(** The tail of record_tags: "Add new tags", "Add new TagEdits", "Invalidate old tags", commit.
    [new_cs]/[new_es] are Python sets of distinct ORM objects, so two candidates with the same
    primary key that are both new violate the key at flush.  Nothing new => no commit => the
    pending invalidation dies with the process (one CLI command = one process). *)
Definition commit_batch (s : state) (cs : list content) (parents : list nat) : outcome :=
  let new_cs := filter (fun c => negb (exists_row s c parents)) cs in
  if has_dup content_eqb new_cs then DbError s else
  let rows1 := rows s ++ map (fun c => mkRow c parents true) new_cs in
  let idx := fun c => match find_from 0 c parents rows1 with Some i => i | None => 0 end in
  let wanted := flat_map (fun c => map (fun p => (p, idx c)) parents) cs in
  let new_es := filter (fun pe => negb (mem_edit pe (edits s))) wanted in
  if has_dup edit_eqb new_es then DbError s else
  match new_cs, new_es with
  | [], [] => Done s
  | _, _ => Done (mkSt (inval_from 0 parents rows1) (edits s ++ new_es))
  end.

(** candidate tag row (content with the parents of this call) exists and has a child edit *)
Definition is_sup (s : state) (parents : list nat) (c : content) : bool :=
  match find_id s c parents with Some i => superseded s i | None => false end.

(** [fixed] only: the pair is current on a row that this call does not supersede *)
Definition current_elsewhere (s : state) (c : content) (parents : list nat) : bool :=
  existsb (fun i => negb (mem i parents)) (ids_from 0 (fun r => r_cur r && content_eqb (r_c r) c) (rows s)).

(** The loop `for tag_row in superseded_tag_rows: self.record_tags(..., [(key, value)],
    parents=[tag_row.tag_hash], new=True)`; [rec] is that recursive call.  tag_row.tag_hash was
    computed before the loop, i.e. it is the position in [s0]. *)
Fixpoint go_sup (rec : state -> content -> nat -> outcome) (s0 : state) (ps : list nat)
         (s' : state) (l : list content) : outcome :=
  match l with
  | [] => Done s'
  | c :: l' =>
    match find_id s0 c ps with
    | Some i => match rec s' c i with Done s'' => go_sup rec s0 ps s'' l' | o => o end
    | None => go_sup rec s0 ps s' l'
    end
  end.

Fixpoint record_tags (g : cfg) (fuel : nat) (s : state) (e : nat) (tags : list content)
         (parents : list nat) (update new : bool) {struct fuel} : outcome :=
  match fuel with
  | O => OutOfFuel
  | S f =>
    match tags with
    | [] => Done s                                            (* if not tags: return [] *)
    | _ :: _ =>
      let tags := if dedupe g then nodupc tags else tags in
      let parents :=
        if update
        then parents ++ ids_from 0 (cur_match e (fun k _ => mem k (keys_of tags))) (rows s)
        else parents in
      if update || new then
        let tags := if skip_current g
                    then filter (fun c => negb (current_elsewhere s c parents)) tags else tags in
        let sup := filter (is_sup s parents) tags in
        let rest := filter (fun c => negb (is_sup s parents c)) tags in
        match go_sup (fun s' c i => record_tags g f s' e [c] [i] false true) s parents s sup with
        | Done s1 => commit_batch s1 rest parents
        | o => o
        end
      else commit_batch s tags parents
    end
  end.

(* ------------------------------------------------------------------ the tag commands *)
Inductive op :=
  | TAdd (e : nat) (tags : list (nat * jval))                     (* redun tag add E k=v ...    *)
  | TUpdate (e : nat) (tags : list (nat * jval))                  (* redun tag update E k=v ... *)
  | TRm (e : nat) (pairs : list (nat * jval)) (keys : list nat).  (* redun tag rm E k=v ... k ... *)

(** What [step] implements, as data for the tie with the translator's extraction:
    keyword flags (update, new) of the record_tags call of `tag add` and of `tag update`;
    the fields of a tag's identity (hash_tag); the column default of is_current ([commit_batch]
    inserts rows with [r_cur := true]). *)
Definition cli_model : bool * bool * bool * bool := (false, true, true, false).
Definition hash_fields_model : list string :=
  ["'Tag'"%string; "entity_id"%string; "key"%string; "json_dumps(value)"%string; "parents"%string].
Definition default_current_model : bool := true.

Definition ctag (e : nat) (kv : nat * jval) : content := CTag e (fst kv) (snd kv).

(** and_(Tag.key == key, Tag.value == cast(value, JSON)): a None value becomes CAST(NULL ...),
    and `=` with NULL is never true. *)
Definition pair_match (g : cfg) (pairs : list (nat * jval)) (k : nat) (v : jval) : bool :=
  existsb (fun kv => (k =? fst kv) &&
                     match snd kv with VNull => null_match g && jval_eqb v VNull | w => jval_eqb v w end) pairs.

Definition fuel_for (s : state) (n : nat) : nat := length (rows s) + n + 3.

Definition step (g : cfg) (s : state) (o : op) : outcome :=
  match o with
  | TAdd e tags => record_tags g (fuel_for s (length tags)) s e (map (ctag e) tags) [] false true
  | TUpdate e tags => record_tags g (fuel_for s (length tags)) s e (map (ctag e) tags) [] true false
  | TRm e [] [] => CliError s
  | TRm e pairs keys =>
    let parents := ids_from 0 (cur_match e (fun k v => pair_match g pairs k v || mem k keys)) (rows s) in
    record_tags g (fuel_for s 1) s 0 [CDel] parents false false
  end.

(** a failed command leaves what it had committed; the next command is a new process *)
Fixpoint run (g : cfg) (s : state) (ops : list op) : option state :=
  match ops with
  | [] => Some s
  | o :: r =>
    match step g s o with
    | Done s' | DbError s' | CliError s' => run g s' r
    | OutOfFuel => None
    end
  end.

(** 0 = ok, 1 = DbError, 2 = CliError, 3 = OutOfFuel; per command *)
Fixpoint run_log (g : cfg) (s : state) (ops : list op) : list nat :=
  match ops with
  | [] => []
  | o :: r =>
    match step g s o with
    | Done s' => 0 :: run_log g s' r
    | DbError s' => 1 :: run_log g s' r
    | CliError s' => 2 :: run_log g s' r
    | OutOfFuel => [3]
    end
  end.

(* ------------------------------------------------------------------ observations *)
(** get_tags([e])[e] as a list of pairs, one per current row (MultiMap keeps repetitions) *)
Definition cur_pairs (s : state) (e : nat) : list (nat * jval) :=
  flat_map (fun r => match r_c r with
                     | CTag e' k v => if r_cur r && (e' =? e) then [(k, v)] else []
                     | CDel => []
                     end) (rows s).

(* ------------------------------------------------------------------ the specification *)
(** key-value store per entity, as a list read as a set of (entity, key, value) *)
Definition spec_state := list (nat * nat * jval).
Definition pair_in (pairs : list (nat * jval)) (k : nat) (v : jval) : bool :=
  existsb (fun kv => (k =? fst kv) && jval_eqb v (snd kv)) pairs.
Definition spec_step (S : spec_state) (o : op) : spec_state :=
  match o with
  | TAdd e tags => map (fun kv => (e, fst kv, snd kv)) tags ++ S
  | TUpdate e tags =>
    map (fun kv => (e, fst kv, snd kv)) tags ++
    filter (fun t => match t with (e', k, _) => negb ((e' =? e) && mem k (map fst tags)) end) S
  | TRm e pairs keys =>
    filter (fun t => match t with (e', k, v) => negb ((e' =? e) && (pair_in pairs k v || mem k keys)) end) S
  end.
Definition spec_run (ops : list op) : spec_state := fold_left spec_step ops [].
Definition spec_has (S : spec_state) (e k : nat) (v : jval) : bool :=
  existsb (fun t => match t with (e', k', v') => (e' =? e) && (k' =? k) && jval_eqb v' v end) S.

(* ------------------------------------------------------------------ for the correspondence run *)
(** position-free picture of a row: its content and the pictures of its parents *)
Inductive tree := T (c : content) (cur : bool) (ps : list tree).
Fixpoint tree_of (fuel : nat) (s : state) (i : nat) : tree :=
  match fuel with
  | O => T CDel false []
  | S f =>
    match nth_error (rows s) i with
    | Some r => T (r_c r) (r_cur r) (map (tree_of f s) (r_par r))
    | None => T CDel false []
    end
  end.
Definition trees (s : state) : list tree :=
  map (tree_of (S (length (rows s))) s) (seq 0 (length (rows s))).
(** equality of pictures with parents read as sets *)
Fixpoint tree_eqb (a b : tree) {struct a} : bool :=
  match a, b with
  | T c cu ps, T c' cu' ps' =>
    content_eqb c c' && Bool.eqb cu cu' && (length ps =? length ps') &&
    forallb (fun p => existsb (fun p' => tree_eqb p p') ps') ps
  end.
Definition trees_equiv (l l' : list tree) : bool :=
  (length l =? length l') &&
  forallb (fun a => existsb (tree_eqb a) l') l && forallb (fun b => existsb (fun a => tree_eqb a b) l) l'.
(** the TagEdit table is exactly the parent lists of the rows *)
Definition edits_consistent (s : state) : bool :=
  forallb (fun pe => match nth_error (rows s) (snd pe) with
                     | Some r => mem (fst pe) (r_par r) | None => false end) (edits s) &&
  forallb (fun i => match nth_error (rows s) i with
                    | Some r => forallb (fun p => mem_edit (p, i) (edits s)) (r_par r) | None => false end)
          (seq 0 (length (rows s))) &&
  negb (has_dup edit_eqb (edits s)).
Definition state_of (o : option state) : state := match o with Some s => s | None => init end.
