(** Commit-segmented recording of call nodes in the database backend (C03, C22).

    Executable model, no proofs.  What is modelled (redun/backends/db/__init__.py,
    redun/scheduler.py):

    - the session: committed tables [com] and rows added but not yet committed [pen];
      [session.commit()] moves [pen] into [com], [session.rollback()] and process death drop
      [pen] (premise: a commit persists all pending rows or none);
    - [db_retry]: catch OperationalError, rollback, count on the shared attribute
      [_db_retries_attempt] (reset by every wrapper entry, including nested ones), retry;
    - [record_value] (nested inside [record_call_node], itself wrapped by [db_retry]);
    - [record_call_node] as a *step list* extracted by translate/tr_record.py; the interpreter
      below runs any step list, the theorems are about the two lists [rcn_shipped]/[rcn_fixed];
    - foreign keys and primary keys are enforced by the database (SQLite: PRAGMA foreign_keys=ON):
      a violating insert raises IntegrityError, which [db_retry] does not catch, so the
      scheduler dies ([RDied]);
    - [_get_call_node]: the subtree-task subset test (context filter not modelled: C05);
    - the scheduler's computation of a job's [subtree_tasks] ([Job.calc_subtree_tasks],
      [_resolve_job_main_thread]) for executed jobs, ultimate-reduction hits and CSE hits;
    - [put_records] of serialised CallNodes: CallNodeSerializer carries call node, edges and
      arguments but no CallSubtreeTask rows.

    Hashes are [nat].  A call hash is modelled by the Merkle tree it is the hash of
    ([hash_call_node(task_hash, args_hash, result_hash, child_call_hashes)]; injectivity of that
    hash is C20's premise), so "every task that ran anywhere beneath the call in the recorded
    call tree" is a function of the call hash: [tasks_of].  [args] is the list of argument value
    hashes (what [args_hash] hashes).  ArgumentResult (upstream) rows, tags, jobs and executions
    are not modelled here. *)
From Coq Require Import List Arith Bool PeanoNat.
Import ListNotations.
Open Scope list_scope.

(* ------------------------------------------------------------------ call hashes *)
Inductive tree := Node (task : nat) (args : list nat) (res : nat) (kids : list tree).

Definition t_task (c : tree) := match c with Node t _ _ _ => t end.
Definition t_args (c : tree) := match c with Node _ a _ _ => a end.
Definition t_res (c : tree) := match c with Node _ _ r _ => r end.
Definition t_kids (c : tree) := match c with Node _ _ _ k => k end.

Fixpoint nats_eqb (a b : list nat) : bool :=
  match a, b with
  | [], [] => true
  | x :: a', y :: b' => Nat.eqb x y && nats_eqb a' b'
  | _, _ => false
  end.

Fixpoint tree_eqb (x y : tree) {struct x} : bool :=
  match x, y with
  | Node t a r ks, Node t' a' r' ks' =>
      Nat.eqb t t' && nats_eqb a a' && Nat.eqb r r' &&
      (fix go (l l' : list tree) {struct l} : bool :=
         match l, l' with
         | [], [] => true
         | u :: l1, w :: l1' => tree_eqb u w && go l1 l1'
         | _, _ => false
         end) ks ks'
  end.

(** Every task hash in the recorded call tree. *)
Fixpoint tasks_of (c : tree) : list nat :=
  match c with
  | Node t _ _ ks => t :: (fix go (l : list tree) : list nat :=
                             match l with [] => [] | u :: l1 => tasks_of u ++ go l1 end) ks
  end.

(** The call node and all call nodes below it (ownership closure walked by [iter_record_ids]). *)
Fixpoint subtrees (c : tree) : list tree :=
  match c with
  | Node _ _ _ ks => c :: (fix go (l : list tree) : list tree :=
                             match l with [] => [] | u :: l1 => subtrees u ++ go l1 end) ks
  end.

Definition memn (x : nat) (l : list nat) : bool := existsb (Nat.eqb x) l.
Definition memt (x : tree) (l : list tree) : bool := existsb (tree_eqb x) l.
Definition subset (a b : list nat) : bool := forallb (fun x => memn x b) a.

Fixpoint dedup (l : list nat) : list nat :=
  match l with [] => [] | x :: r => if memn x r then dedup r else x :: dedup r end.
Fixpoint dedupt (l : list tree) : list tree :=
  match l with [] => [] | x :: r => if memt x r then dedupt r else x :: dedupt r end.

(* ------------------------------------------------------------------ tables *)
Record db := mkdb {
  vals : list nat;                      (* Value.value_hash (task values included) *)
  nodes : list tree;                    (* CallNode, newest first *)
  edges : list (tree * tree * nat);     (* CallEdge parent, child, call_order *)
  argrows : list (tree * nat * nat);    (* Argument call_hash, arg_position, value_hash *)
  subs : list (tree * nat)              (* CallSubtreeTask call_hash, task_hash *)
}.
Definition db0 : db := mkdb [] [] [] [] [].
Definition db_app (a b : db) : db :=
  mkdb (vals a ++ vals b) (nodes a ++ nodes b) (edges a ++ edges b) (argrows a ++ argrows b) (subs a ++ subs b).

Record state := mkst {
  com : db;                             (* committed *)
  pen : db;                             (* added to the session, not committed *)
  att : nat;                            (* RedunBackendDb._db_retries_attempt *)
  jobs : list (tree * list nat);        (* finished jobs of the running execution: call hash, job.subtree_tasks *)
  reg : list nat;                       (* scheduler.task_registry.task_hashes of the running execution *)
  alive : bool                          (* a scheduler process is running *)
}.
Definition st0 : state := mkst db0 db0 0 [] [] false.

(** What queries in the session see. *)
Definition vis (s : state) : db := db_app (pen s) (com s).

Definition set_pen (s : state) (p : db) := mkst (com s) p (att s) (jobs s) (reg s) (alive s).
Definition set_att (s : state) (a : nat) := mkst (com s) (pen s) a (jobs s) (reg s) (alive s).
Definition do_commit (s : state) := mkst (vis s) db0 (att s) (jobs s) (reg s) (alive s).
Definition do_rollback (s : state) := set_pen s db0.
(** the catch block of [db_retry]: rollback, count *)
Definition caught (s : state) := set_att (do_rollback s) (S (att s)).
(** the process is gone: nothing pending survives, no job objects *)
Definition die (s : state) := mkst (com s) db0 (att s) [] (reg s) false.

Definition add_val (v : nat) (s : state) :=
  set_pen s (mkdb (v :: vals (pen s)) (nodes (pen s)) (edges (pen s)) (argrows (pen s)) (subs (pen s))).
Definition add_node (c : tree) (s : state) :=
  set_pen s (mkdb (vals (pen s)) (c :: nodes (pen s)) (edges (pen s)) (argrows (pen s)) (subs (pen s))).
Definition add_edges (es : list (tree * tree * nat)) (s : state) :=
  set_pen s (mkdb (vals (pen s)) (nodes (pen s)) (es ++ edges (pen s)) (argrows (pen s)) (subs (pen s))).
Definition add_arg (c : tree) (i v : nat) (s : state) :=
  set_pen s (mkdb (vals (pen s)) (nodes (pen s)) (edges (pen s)) ((c, i, v) :: argrows (pen s)) (subs (pen s))).
Definition add_subs (c : tree) (ts : list nat) (s : state) :=
  set_pen s (mkdb (vals (pen s)) (nodes (pen s)) (edges (pen s)) (argrows (pen s))
                  (map (fun t => (c, t)) ts ++ subs (pen s))).

(** CallSubtreeTask.task_hash of the rows of call node [c]. *)
Definition rows (d : db) (c : tree) : list nat :=
  map snd (filter (fun p => tree_eqb (fst p) c) (subs d)).

(* ------------------------------------------------------------------ faults *)
(** The fate of one [session.commit()] attempt.  A plan is consumed one entry per attempt;
    an exhausted plan means every further commit succeeds.  [FCrash]: the process dies before
    the commit takes effect (dying right after commit k is dying before commit k+1). *)
Inductive fate := FOk | FFail | FCrash.

Inductive res :=
| ROk (s : state) (pl : list fate)
| RRaise (s : state) (pl : list fate)    (* OperationalError leaves the function (nothing rolled back yet) *)
| RDied (s : state)                      (* process death / IntegrityError reaches the scheduler *)
| RFuel.                                 (* interpreter out of fuel; never happens, see Proofs *)

Definition bind (r : res) (k : state -> list fate -> res) : res :=
  match r with ROk s pl => k s pl | other => other end.

Definition try_commit (s : state) (pl : list fate) : res :=
  match pl with
  | [] => ROk (do_commit s) []
  | FOk :: pl' => ROk (do_commit s) pl'
  | FFail :: pl' => RRaise s pl'
  | FCrash :: _ => RDied (die s)
  end.

(* ------------------------------------------------------------------ record_value *)
(** [@db_retry def record_value]: one attempt returns early if the value is visible, else adds it
    and commits.  The loop is the wrapper; it is structural in the plan because every retry has
    consumed a failing entry. *)
Fixpoint rec_value_loop (R v : nat) (s : state) (pl : list fate) {struct pl} : res :=
  if memn v (vals (vis s)) then ROk s pl
  else match pl with
       | [] => ROk (do_commit (add_val v s)) []
       | FOk :: pl' => ROk (do_commit (add_val v s)) pl'
       | FCrash :: _ => RDied (die s)
       | FFail :: pl' =>
           let s' := caught s in
           if R <? att s' then RRaise s' pl' else rec_value_loop R v s' pl'
       end.
Definition rec_value (R v : nat) (s : state) (pl : list fate) : res :=
  rec_value_loop R v (set_att s 0) pl.

Fixpoint rec_values (R : nat) (vs : list nat) (s : state) (pl : list fate) : res :=
  match vs with
  | [] => ROk s pl
  | v :: vs' => bind (rec_value R v s pl) (rec_values R vs')
  end.

(* ------------------------------------------------------------------ record_call_node *)
Inductive bstep :=
| BAddNode                 (* session.add(CallNode(...)) *)
| BAddEdges                (* CallEdge for every child call hash that is recorded *)
| BArgs                    (* self._record_args(...): per argument record_value + Argument row; commit *)
| BArgValues               (* repaired: record_value of every argument, before anything of the CallNode is pending *)
| BAddArgs                 (* repaired: the Argument rows only (values already recorded), no commit *)
| BTaskValues              (* if some child is not recorded: record_value(task) for every subtree task *)
| BAddSubs (missing_only : bool)   (* CallSubtreeTask rows, all of them / only those not yet recorded *)
| BCommit.
Inductive step :=
| SIfNew (body : list bstep)       (* if not session.query(CallNode).filter_by(call_hash=...).first(): *)
| SB (b : bstep).

Definition rcn_shipped : list step :=
  [SIfNew [BAddNode; BAddEdges; BArgs; BTaskValues; BAddSubs false; BCommit]].
(** repaired: all values first (they commit on their own), then the CallNode with its edges and
    arguments; subtree rows are completed even if the CallNode exists; one commit for all of it *)
Definition rcn_fixed : list step :=
  [SIfNew [BArgValues; BTaskValues; BAddNode; BAddEdges; BAddArgs]; SB (BAddSubs true); SB BCommit].

Record params := mkp {
  p_call : tree;                 (* hash_call_node(task_hash, args_hash, result_hash, child_call_hashes) *)
  p_subtree : list nat           (* {task.hash for task in subtree_tasks} *)
}.

(** the argument loop of [_record_args] (before its commit) *)
Fixpoint args_loop (R : nat) (c : tree) (i : nat) (vs : list nat) (s : state) (pl : list fate) : res :=
  match vs with
  | [] => ROk s pl
  | v :: vs' =>
      bind (rec_value R v s pl) (fun s1 pl1 =>
        (* Argument.call_hash -> call_node.call_hash, Argument.value_hash -> value.value_hash *)
        if memt c (nodes (vis s1)) && memn v (vals (vis s1))
        then args_loop R c (S i) vs' (add_arg c i v s1) pl1
        else RDied (die s1))
  end.

(** Argument rows only *)
Fixpoint add_args_loop (c : tree) (i : nat) (vs : list nat) (s : state) (pl : list fate) : res :=
  match vs with
  | [] => ROk s pl
  | v :: vs' =>
      if memt c (nodes (vis s)) && memn v (vals (vis s))
      then add_args_loop c (S i) vs' (add_arg c i v s) pl
      else RDied (die s)
  end.

Fixpoint recorded_edges (d : db) (c : tree) (i : nat) (ks : list tree) : list (tree * tree * nat) :=
  match ks with
  | [] => []
  | k :: ks' => (if memt k (nodes d) then [(c, k, i)] else []) ++ recorded_edges d c (S i) ks'
  end.

Definition run_b (R : nat) (p : params) (b : bstep) (s : state) (pl : list fate) : res :=
  let c := p_call p in
  match b with
  | BAddNode =>
      (* primary key call_hash; CallNode.value_hash -> value.value_hash *)
      if negb (memt c (nodes (vis s))) && memn (t_res c) (vals (vis s))
      then ROk (add_node c s) pl else RDied (die s)
  | BAddEdges =>
      if memt c (nodes (vis s))
      then ROk (add_edges (recorded_edges (vis s) c 0 (t_kids c)) s) pl
      else match recorded_edges (vis s) c 0 (t_kids c) with [] => ROk s pl | _ => RDied (die s) end
  | BArgs => bind (args_loop R c 0 (t_args c) s pl) try_commit
  | BArgValues => rec_values R (t_args c) s pl
  | BAddArgs => add_args_loop c 0 (t_args c) s pl
  | BTaskValues =>
      if existsb (fun k => negb (memt k (nodes (vis s)))) (t_kids c)
      then rec_values R (p_subtree p) s pl else ROk s pl
  | BAddSubs missing =>
      let want := dedup (p_subtree p) in
      let new := if missing then filter (fun t => negb (memn t (rows (vis s) c))) want else want in
      match new with
      | [] => ROk s pl
      | _ =>
          (* foreign key call_hash; primary key (call_hash, task_hash) *)
          if memt c (nodes (vis s)) && forallb (fun t => negb (memn t (rows (vis s) c))) new
          then ROk (add_subs c new s) pl else RDied (die s)
      end
  | BCommit => try_commit s pl
  end.

Fixpoint run_bs (R : nat) (p : params) (bs : list bstep) (s : state) (pl : list fate) : res :=
  match bs with
  | [] => ROk s pl
  | b :: bs' => bind (run_b R p b s pl) (run_bs R p bs')
  end.

Fixpoint run_steps (R : nat) (p : params) (ss : list step) (s : state) (pl : list fate) : res :=
  match ss with
  | [] => ROk s pl
  | SIfNew body :: ss' =>
      if memt (p_call p) (nodes (vis s)) then run_steps R p ss' s pl
      else bind (run_bs R p body s pl) (run_steps R p ss')
  | SB b :: ss' => bind (run_b R p b s pl) (run_steps R p ss')
  end.

(** the [db_retry] wrapper around [record_call_node] *)
Fixpoint rcn_loop (fuel R : nat) (ss : list step) (p : params) (s : state) (pl : list fate) : res :=
  match fuel with
  | 0 => RFuel
  | S f =>
      match run_steps R p ss s pl with
      | RRaise s1 pl1 =>
          let s' := caught s1 in
          if R <? att s' then RDied (die s') else rcn_loop f R ss p s' pl1
      | other => other
      end
  end.
Definition record_call_node (R : nat) (ss : list step) (p : params) (s : state) (pl : list fate) : res :=
  rcn_loop (S (length pl)) R ss p (set_att s 0) pl.

(** a top-level [record_value] call of the scheduler: an escaping OperationalError kills the run *)
Definition record_value_top (R v : nat) (s : state) (pl : list fate) : res :=
  match rec_value R v s pl with
  | RRaise s1 _ => RDied (die s1)
  | other => other
  end.

(* ------------------------------------------------------------------ _get_call_node *)
(** _resolve_job_main_thread: where a job replayed from a recorded call node (ultimate reduction or CSE)
    gets its subtree tasks from.  [HOwn]: as originally shipped (a CSE hit with check_valid=full keeps only its
    own task, otherwise the rows of the call node); [HBackend]: always own task + recorded rows;
    [HGuarded]: own task + recorded rows only if the parent job was not itself served from the cache. *)
Inductive hitmode := HOwn | HBackend | HGuarded.

Record cfg := mkcfg {
  c_rcn : list step;          (* record_call_node *)
  c_own : bool;               (* _get_call_node also requires the node's own task hash among its subtree rows *)
  c_hit : hitmode;            (* _resolve_job_main_thread: subtree tasks of a replayed job *)
  c_retries : nat             (* db_retries *)
}.
Definition shipped (R : nat) : cfg := mkcfg rcn_shipped false HOwn R.
Definition fixed (R : nat) : cfg := mkcfg rcn_fixed true HBackend R.
(** the lookup and the scheduler repaired, record_call_node as shipped *)
Definition mixed (R : nat) : cfg := mkcfg rcn_shipped true HBackend R.
(** as [mixed], but a replayed job skips the backend query when its parent was served from the cache *)
Definition guarded (R : nat) : cfg := mkcfg rcn_shipped true HGuarded R.

Definition current (own : bool) (d : db) (rg : list nat) (c : tree) : bool :=
  subset (rows d c) rg && (if own then memn (t_task c) (rows d c) else true).

Definition current_nodes (own : bool) (d : db) (t : nat) (a : list nat) (rg : list nat) : list tree :=
  filter (fun c => Nat.eqb (t_task c) t && nats_eqb (t_args c) a && current own d rg c) (nodes d).

Definition get_call_node (own : bool) (d : db) (t : nat) (a : list nat) (rg : list nat) : option tree :=
  hd_error (current_nodes own d t a rg).

(* ------------------------------------------------------------------ histories *)
Inductive event :=
| ENewExec (rg : list nat)           (* a scheduler process starts (after a normal end or a crash) with this registry *)
| ERecValue (v : nat) (pl : list fate)
| ERecord (t : nat) (a : list nat) (r : nat) (kids : list nat) (pl : list fate)
      (* a job that executed (or was a single-reduction hit) resolves: kids = indices of its finished
         child jobs; record_value(result); record_call_node(...) *)
| EHitUlt (t : nat) (a : list nat)   (* a check_valid="shallow" job asks the cache (ultimate reduction) *)
| EHitCSE (j : nat) (full : bool)    (* a job is replayed from the call node of finished job j of the same
                                        execution (CSE); full: its check_valid is "full" *)
| EImport (roots : list tree)        (* put_records of these call nodes and everything they own *)
| EHitUltC (t : nat) (a : list nat)  (* as EHitUlt / EHitCSE, for a job whose parent job was itself served from the cache *)
| EHitCSEC (j : nat) (full : bool).  (* (a single-reduction hit: the parent re-evaluates its children and records a call node) *)

Fixpoint lookup_jobs (js : list (tree * list nat)) (ks : list nat) : option (list (tree * list nat)) :=
  match ks with
  | [] => Some []
  | k :: ks' => match nth_error js k, lookup_jobs js ks' with
                | Some j, Some r => Some (j :: r)
                | _, _ => None
                end
  end.

Definition set_jobs (s : state) (js : list (tree * list nat)) := mkst (com s) (pen s) (att s) js (reg s) (alive s).

(** subtree tasks of a job replayed from call node [c] *)
Definition hit_subtree (g : cfg) (cse full parent_cached : bool) (s : state) (c : tree) : list nat :=
  let from_backend := filter (fun t => memn t (reg s)) (rows (vis s) c) in
  match c_hit g with
  | HBackend => t_task c :: from_backend
  | HGuarded => if parent_cached then [t_task c] else t_task c :: from_backend
  | HOwn => if cse && full then [t_task c] else from_backend
  end.

(** owned Value records (result, task, arguments) are transferred whether or not the CallNode
    record itself is new ([has_records] filters per record id) *)
Definition import_vals (s : state) (c : tree) : state :=
  fold_left (fun s v => if memn v (vals (vis s)) then s else add_val v s) (t_res c :: t_task c :: t_args c) s.

Definition import_one (s : state) (c : tree) : state :=
  if memt c (nodes (vis s)) then import_vals s c
  else
    let s1 := add_node c s in
    let s2 := add_edges ((fix go (i : nat) (ks : list tree) :=
                            match ks with [] => [] | k :: ks' => (c, k, i) :: go (S i) ks' end) 0 (t_kids c)) s1 in
    let s3 := (fix go (i : nat) (vs : list nat) (s : state) :=
                 match vs with [] => s | v :: vs' => go (S i) vs' (add_arg c i v s) end) 0 (t_args c) s2 in
    import_vals s3 c.

Definition step_event (g : cfg) (s : state) (e : event) : state :=
  match e with
  | ENewExec rg => mkst (com s) db0 0 [] rg true
  | EImport roots =>
      do_commit (fold_left import_one (dedupt (flat_map subtrees roots)) (do_rollback s))
  | _ =>
    if negb (alive s) then s else
    match e with
    | ERecValue v pl =>
        match record_value_top (c_retries g) v s pl with
        | ROk s' _ => s' | RDied s' => s' | RRaise s' _ => die s' | RFuel => s
        end
    | ERecord t a r kids pl =>
        match lookup_jobs (jobs s) kids with
        | None => s
        | Some js =>
            if negb (memn t (reg s)) then s else
            let c := Node t a r (map fst js) in
            let sub := t :: flat_map snd js in
            match bind (record_value_top (c_retries g) r s pl)
                       (record_call_node (c_retries g) (c_rcn g) (mkp c sub)) with
            | ROk s' _ => set_jobs s' (jobs s' ++ [(c, sub)])
            | RDied s' => s'
            | RRaise s' _ => die s'
            | RFuel => s
            end
        end
    | EHitUlt t a =>
        match get_call_node (c_own g) (vis s) t a (reg s) with
        | Some c => set_jobs s (jobs s ++ [(c, hit_subtree g false false false s c)])
        | None => s
        end
    | EHitCSE j full =>
        match nth_error (jobs s) j with
        | Some (c, _) =>
            if memt c (nodes (vis s)) then set_jobs s (jobs s ++ [(c, hit_subtree g true full false s c)]) else s
        | None => s
        end
    | EHitUltC t a =>
        match get_call_node (c_own g) (vis s) t a (reg s) with
        | Some c => set_jobs s (jobs s ++ [(c, hit_subtree g false false true s c)])
        | None => s
        end
    | EHitCSEC j full =>
        match nth_error (jobs s) j with
        | Some (c, _) =>
            if memt c (nodes (vis s)) then set_jobs s (jobs s ++ [(c, hit_subtree g true full true s c)]) else s
        | None => s
        end
    | _ => s
    end
  end.

Definition run (g : cfg) (es : list event) : state := fold_left (step_event g) es st0.

(** what the next shallow lookup of [t(a)] would replay, under registry [rg] *)
Definition shallow_hit (g : cfg) (s : state) (t : nat) (a : list nat) (rg : list nat) : option tree :=
  get_call_node (c_own g) (com s) t a rg.
