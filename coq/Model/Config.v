(** Executable model of redun/config.py (Config: nested sections, conversion to the
    two-level dictionary and back) and of the parts of CPython's configparser it drives
    (ExtendedInterpolation, read_dict/set, SectionProxy access).  No proofs here.

    Strings are UTF-8 byte lists; every delimiter the code looks at ('$', '{', '}', ':', '.')
    is ASCII, so byte-level find/split/replace agree with the code-point level ones.
    Python dicts are insertion-ordered association lists ([dget]/[dset]). *)
From Coq Require Import List Ascii Bool.
Import ListNotations.
Open Scope list_scope.
Open Scope char_scope.

Definition str := list ascii.

Fixpoint str_eqb (a b : str) : bool :=
  match a, b with
  | [], [] => true
  | x :: a', y :: b' => Ascii.eqb x y && str_eqb a' b'
  | _, _ => false
  end.

Definition is_nil {A} (l : list A) : bool := match l with [] => true | _ => false end.

(** * Python dict *)
Fixpoint dget {V} (k : str) (d : list (str * V)) : option V :=
  match d with
  | [] => None
  | (k', v) :: r => if str_eqb k k' then Some v else dget k r
  end.

(** [d[k] = v]: replaces in place, else appends. *)
Fixpoint dset {V} (k : str) (v : V) (d : list (str * V)) : list (str * V) :=
  match d with
  | [] => [(k, v)]
  | (k', v') :: r => if str_eqb k k' then (k', v) :: r else (k', v') :: dset k v r
  end.

Definition dhas {V} (k : str) (d : list (str * V)) : bool :=
  match dget k d with Some _ => true | None => false end.

(** * What the translator extracts from config.py *)
Record config_cfg := {
  sep : ascii;             (* _parse_sections: full_section.split(".") *)
  join_guard : bool;       (* convert_to_dict: f"{path}.{key}" if path else key *)
  env_over : bool;         (* RedunExtendedInterpolation.before_get: {**defaults, **os.environ} *)
  case_sensitive : bool;   (* RedunConfigParser.optionxform is the identity *)
  subst_guarded : bool;    (* substitute only if replace_config_dir is not None and isinstance(s, str) *)
  escape_dollar : bool     (* get_config_dict doubles '$' in the values it emits (the repair) *)
}.

Definition shipped : config_cfg := {|
  sep := "."; join_guard := true; env_over := true; case_sensitive := true; subst_guarded := true;
  escape_dollar := false |}.

Definition fixed : config_cfg := {|
  sep := "."; join_guard := true; env_over := true; case_sensitive := true; subst_guarded := true;
  escape_dollar := true |}.

(** * Results: Python exceptions are constructors *)
Inductive err :=
| InterpSyntax     (* configparser.InterpolationSyntaxError *)
| InterpMissing    (* configparser.InterpolationMissingOptionError *)
| InterpDepth      (* configparser.InterpolationDepthError *)
| SetValueError    (* ValueError("invalid interpolation syntax ...") from before_set *)
| NestError        (* _parse_sections walks into a SectionProxy / str: TypeError (or an interpolation error) *)
| KeyErr           (* KeyError / NoSectionError on access *)
| Unsupported.     (* the extracted configuration is outside what this model covers *)

Inductive res (A : Type) := Ok (a : A) | Err (e : err).
Arguments Ok {A} a.
Arguments Err {A} e.

Definition bind {A B} (r : res A) (f : A -> res B) : res B :=
  match r with Ok a => f a | Err e => Err e end.
Definition rmap {A B} (f : A -> B) (r : res A) : res B :=
  match r with Ok a => Ok (f a) | Err e => Err e end.

(** * ConfigParser state: DEFAULT section and the named sections, raw values *)
Record parser := { p_defaults : list (str * str); p_sections : list (str * list (str * str)) }.
Definition empty_parser : parser := {| p_defaults := []; p_sections := [] |}.

Definition DEFAULT : str := ["D";"E";"F";"A";"U";"L";"T"].

Definition is_dollar (c : ascii) : bool := Ascii.eqb c "$".
Definition has_dollar (s : str) : bool := existsb is_dollar s.

(** [parser.get(sect, opt, raw=True)]: ChainMap(section, defaults); None = NoSectionError/NoOptionError. *)
Definition raw_get (p : parser) (sect opt : str) : option str :=
  match dget sect (p_sections p) with
  | Some opts => match dget opt opts with Some v => Some v | None => dget opt (p_defaults p) end
  | None => if str_eqb sect DEFAULT then dget opt (p_defaults p) else None
  end.

Fixpoint split (c0 : ascii) (s : str) : list str :=
  match s with
  | [] => [[]]
  | c :: r =>
      if Ascii.eqb c c0 then [] :: split c0 r
      else match split c0 r with
           | h :: t => (c :: h) :: t
           | [] => [[c]]
           end
  end.

(** ** ExtendedInterpolation._interpolate_some
    [scan resolve nm s]: [nm = None] outside a reference, [Some acc] while reading the name of
    a [${...}] reference ([acc] reversed).  The regular expression [\$\{([^}]+)\}] needs a
    non-empty name and a closing brace. *)
Fixpoint scan (resolve : str -> res str) (nm : option str) (s : str) : res str :=
  match nm with
  | None =>
      match s with
      | [] => Ok []
      | c :: r =>
          if is_dollar c then
            match r with
            | [] => Err InterpSyntax
            | c' :: r' =>
                if is_dollar c' then rmap (cons "$") (scan resolve None r')
                else if Ascii.eqb c' "{" then scan resolve (Some []) r'
                else Err InterpSyntax
            end
          else rmap (cons c) (scan resolve None r)
      end
  | Some acc =>
      match s with
      | [] => Err InterpSyntax
      | c :: r =>
          if Ascii.eqb c "}" then
            if is_nil acc then Err InterpSyntax
            else bind (resolve (rev acc)) (fun v => rmap (app v) (scan resolve None r))
          else scan resolve (Some (c :: acc)) r
      end
  end.

(** [fuel] is configparser's MAX_INTERPOLATION_DEPTH (10): depth d is fuel 11 - d.
    [top]: the outermost call sees os.environ (redun's before_get), nested ones do not. *)
Fixpoint interp (cfg : config_cfg) (env : list (str * str)) (p : parser)
         (fuel : nat) (top : bool) (sect : str) (s : str) : res str :=
  match fuel with
  | O => Err InterpDepth
  | S fuel' =>
      let sub (v sect' : str) :=
        if has_dollar v then interp cfg env p fuel' false sect' v else Ok v in
      scan (fun name =>
              match split ":" name with
              | [o] =>
                  match (if top && env_over cfg then dget o env else None) with
                  | Some v => sub v sect
                  | None => match raw_get p sect o with Some v => sub v sect | None => Err InterpMissing end
                  end
              | [s2; o] =>
                  match raw_get p s2 o with Some v => sub v s2 | None => Err InterpMissing end
              | _ => Err InterpSyntax
              end) None s
  end.

Definition MAX_DEPTH : nat := 10.

(** [config[...section...][opt]]: SectionProxy.__getitem__ -> parser.get -> before_get. *)
Definition get_value (cfg : config_cfg) (env : list (str * str)) (p : parser) (sect opt : str) : res str :=
  if negb (case_sensitive cfg) then Err Unsupported else
  match dget sect (p_sections p) with
  | None => Err KeyErr
  | Some _ =>
      match raw_get p sect opt with
      | None => Err KeyErr
      | Some raw => interp cfg env p MAX_DEPTH true sect raw
      end
  end.

(** Option names of a section as SectionProxy iterates them: own options, then the DEFAULT ones. *)
Definition options (p : parser) (sect : str) : list str :=
  match dget sect (p_sections p) with
  | None => []
  | Some opts => map fst opts ++ filter (fun k => negb (dhas k opts)) (map fst (p_defaults p))
  end.

(** ** ExtendedInterpolation.before_set: remove "$$", remove [${name}], no '$' may remain. *)
Fixpoint strip_dd (s : str) : str :=
  match s with
  | [] => []
  | c :: r =>
      match r with
      | [] => [c]
      | c' :: r' => if is_dollar c && is_dollar c' then strip_dd r' else c :: strip_dd r
      end
  end.

(** [refs_ok m s]: no '$' survives [_KEYCRE.sub('', s)]. [m = None] outside a reference,
    [Some e] inside one ([e]: the name is still empty). *)
Fixpoint refs_ok (m : option bool) (s : str) : bool :=
  match m with
  | None =>
      match s with
      | [] => true
      | c :: r =>
          if is_dollar c then
            match r with
            | c' :: r' => if Ascii.eqb c' "{" then refs_ok (Some true) r' else false
            | [] => false
            end
          else refs_ok None r
      end
  | Some e =>
      match s with
      | [] => false
      | c :: r => if Ascii.eqb c "}" then (if e then false else refs_ok None r) else refs_ok (Some false) r
      end
  end.

Definition before_set_ok (v : str) : bool := refs_ok None (strip_dd v).

(** ** RawConfigParser.read_dict on a dict with str keys and str values *)
Definition set_option (p : parser) (sect k v : str) : res parser :=
  if negb (before_set_ok v) then Err SetValueError
  else if is_nil sect || str_eqb sect DEFAULT then
    Ok {| p_defaults := dset k v (p_defaults p); p_sections := p_sections p |}
  else match dget sect (p_sections p) with
       | None => Err KeyErr
       | Some opts => Ok {| p_defaults := p_defaults p; p_sections := dset sect (dset k v opts) (p_sections p) |}
       end.

Fixpoint set_options (p : parser) (sect : str) (kvs : list (str * str)) : res parser :=
  match kvs with
  | [] => Ok p
  | (k, v) :: r => bind (set_option p sect k v) (fun p' => set_options p' sect r)
  end.

(** add_section: "DEFAULT" raises ValueError and an existing name DuplicateSectionError; read_dict
    swallows both (a dict cannot repeat a key). *)
Definition add_section (p : parser) (sect : str) : parser :=
  if str_eqb sect DEFAULT || dhas sect (p_sections p) then p
  else {| p_defaults := p_defaults p; p_sections := p_sections p ++ [(sect, [])] |}.

Fixpoint read_dict (d : list (str * list (str * str))) (p : parser) : res parser :=
  match d with
  | [] => Ok p
  | (s, kvs) :: r => bind (set_options (add_section p s) s kvs) (fun p' => read_dict r p')
  end.

(** * Config._parse_sections: nested dicts whose leaves are SectionProxy objects (named by
    the full section name). *)
Inductive tree := Leaf (full : str) | Node (kids : list (str * tree)).

Fixpoint insert (parts : list str) (full : str) (kids : list (str * tree)) : res (list (str * tree)) :=
  match parts with
  | [] => Err Unsupported          (* str.split never returns [] *)
  | part :: rest =>
      match rest with
      | [] => Ok (dset part (Leaf full) kids)                 (* ptr[parts[-1]] = parser[full_section] *)
      | _ :: _ =>
          match dget part kids with
          | None => rmap (fun sub => kids ++ [(part, Node sub)]) (insert rest full [])
          | Some (Node sub) => rmap (fun sub' => dset part (Node sub') kids) (insert rest full sub)
          | Some (Leaf _) => Err NestError   (* ptr becomes a SectionProxy: every continuation raises *)
          end
      end
  end.

Fixpoint insert_all (es : list (list str * str)) (kids : list (str * tree)) : res (list (str * tree)) :=
  match es with
  | [] => Ok kids
  | (parts, full) :: r => bind (insert parts full kids) (insert_all r)
  end.

Definition entries (cfg : config_cfg) (names : list str) : list (list str * str) :=
  map (fun n => (split (sep cfg) n, n)) names.

Definition parse_sections (cfg : config_cfg) (p : parser) : res (list (str * tree)) :=
  insert_all (entries cfg (map fst (p_sections p))) [].

(** * Config.get_config_dict *)
Definition join (cfg : config_cfg) (path key : str) : str :=
  if join_guard cfg && is_nil path then key else path ++ sep cfg :: key.

(** convert_to_dict: the (path, full section name) pairs in visiting order. *)
Fixpoint walk (cfg : config_cfg) (path : str) (t : tree) : list (str * str) :=
  match t with
  | Leaf full => [(path, full)]
  | Node kids =>
      (fix go (kids : list (str * tree)) : list (str * str) :=
         match kids with
         | [] => []
         | (k, t') :: r => walk cfg (join cfg path k) t' ++ go r
         end) kids
  end.

Fixpoint prefixb (a s : str) : bool :=
  match a, s with
  | [], _ => true
  | x :: a', y :: s' => Ascii.eqb x y && prefixb a' s'
  | _ :: _, [] => false
  end.

Fixpoint contains (a s : str) : bool :=
  prefixb a s || match s with [] => false | _ :: r => contains a r end.

(** [s.replace(old, new)] (left to right, non-overlapping; empty [old] matches between
    all characters). [skip]: characters of the current match still to drop. *)
Fixpoint replace_aux (old new : str) (skip : nat) (s : str) : str :=
  match s with
  | [] => []
  | c :: r =>
      match skip with
      | S k => replace_aux old new k r
      | O => if prefixb old s then new ++ replace_aux old new (length old - 1) r
             else c :: replace_aux old new 0 r
      end
  end.

Definition replace (old new s : str) : str :=
  match old with
  | [] => new ++ flat_map (fun c => c :: new) s
  | _ :: _ => replace_aux old new 0 s
  end.

Fixpoint escape (s : str) : str :=
  match s with
  | [] => []
  | c :: r => if is_dollar c then "$" :: "$" :: escape r else c :: escape r
  end.

(** substitute_config_dir, then (repaired code only) the escaping of '$'. *)
Definition subst (local : str) (repl : option str) (v : str) : str :=
  match repl with Some r => replace local r v | None => v end.

Definition encode (cfg : config_cfg) (v : str) : str := if escape_dollar cfg then escape v else v.

Definition emit (cfg : config_cfg) (local : str) (repl : option str) (v : str) : str :=
  encode cfg (subst local repl v).

(** [{k: f(v) for k, v in proxy.items()}]: the first failing interpolation raises. *)
Fixpoint section_items (cfg : config_cfg) (env : list (str * str)) (p : parser) (sect : str) (f : str -> str)
         (ks : list str) : res (list (str * str)) :=
  match ks with
  | [] => Ok []
  | k :: r =>
      bind (get_value cfg env p sect k) (fun v =>
      rmap (cons (k, f v)) (section_items cfg env p sect f r))
  end.

Fixpoint fill (cfg : config_cfg) (env : list (str * str)) (p : parser) (f : str -> str)
         (leaves : list (str * str)) (result : list (str * list (str * str))) : res (list (str * list (str * str))) :=
  match leaves with
  | [] => Ok result
  | (path, full) :: r =>
      bind (section_items cfg env p full f (options p full)) (fun items =>
      fill cfg env p f r (dset path items result))
  end.

(** [local] is cli.get_config_dir() (never empty), [repl] the [replace_config_dir] argument. *)
Definition get_config_dict (cfg : config_cfg) (env : list (str * str)) (p : parser) (t : list (str * tree))
           (local : str) (repl : option str) : res (list (str * list (str * str))) :=
  if negb (subst_guarded cfg) then Err Unsupported else
  fill cfg env p (emit cfg local repl) (walk cfg [] (Node t)) [].

(** * A Config object and the round trip [Config(config_dict=c.get_config_dict(...))] *)
Record config := { c_parser : parser; c_tree : list (str * tree) }.

Definition load (cfg : config_cfg) (p : parser) : res config :=
  rmap (fun t => {| c_parser := p; c_tree := t |}) (parse_sections cfg p).

(** Config.__init__: [if config_dict: self.read_dict(config_dict)]; an empty dict leaves the
    fresh parser untouched, which is what read_dict would do. *)
Definition of_dict (cfg : config_cfg) (d : list (str * list (str * str))) : res config :=
  bind (read_dict d empty_parser) (load cfg).

Definition roundtrip (cfg : config_cfg) (env : list (str * str)) (c : config) (local : str) (repl : option str)
  : res config :=
  bind (get_config_dict cfg env (c_parser c) (c_tree c) local repl) (of_dict cfg).

(** * Glue for the correspondence run *)
Fixpoint list_eqb {A} (eq : A -> A -> bool) (a b : list A) : bool :=
  match a, b with
  | [], [] => true
  | x :: a', y :: b' => eq x y && list_eqb eq a' b'
  | _, _ => false
  end.

Definition kv_eqb (a b : str * str) : bool := str_eqb (fst a) (fst b) && str_eqb (snd a) (snd b).
Definition dict_eqb (a b : list (str * list (str * str))) : bool :=
  list_eqb (fun x y => str_eqb (fst x) (fst y) && list_eqb kv_eqb (snd x) (snd y)) a b.

Fixpoint tree_eqb (a b : tree) {struct a} : bool :=
  match a, b with
  | Leaf x, Leaf y => str_eqb x y
  | Node x, Node y =>
      (fix go (x y : list (str * tree)) : bool :=
         match x, y with
         | [], [] => true
         | (k, t) :: x', (k', t') :: y' => str_eqb k k' && tree_eqb t t' && go x' y'
         | _, _ => false
         end) x y
  | _, _ => false
  end.

Definition err_code (e : err) : nat :=
  match e with
  | InterpSyntax => 1 | InterpMissing => 2 | InterpDepth => 3 | SetValueError => 4
  | NestError => 5 | KeyErr => 6 | Unsupported => 7
  end.

(** expected outcome from the implementation: [inl code] = raised, [inr x] = value *)
Definition res_agrees {A} (eq : A -> A -> bool) (r : res A) (exp : nat + A) : bool :=
  match r, exp with
  | Ok a, inr b => eq a b
  | Err e, inl n => Nat.eqb (err_code e) n
  | _, _ => false
  end.

Definition parser_eqb (a b : parser) : bool :=
  list_eqb kv_eqb (p_defaults a) (p_defaults b) && dict_eqb (p_sections a) (p_sections b).
