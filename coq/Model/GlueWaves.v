(** C10 — AWS Glue executor: two background threads with different lifetimes, at the granularity
    of whole phases (multi-wave histories with Glue runs still in flight).

    Executable model, no proofs.  One action = one thread running, unpreempted, until it sleeps or
    returns (the preemption races inside a phase are the subject of Model/Monitor.v):
      GSubmit   the scheduler thread performs one whole submit(): pending_glue_jobs.append(job); _start()
      GSub      the submission thread: while is_running and pending: hand every pending job to Glue
                (running_glue_jobs); it returns once the queue is drained - "new job submissions will
                restart it"
      GComplete the (fake) Glue service finishes one run that is in flight
      GPoll     the monitor: one loop iteration (report every finished run) or, when
                not (is_running and (running or pending)), its way out: stop() clears is_running
    Variant of [_start] (translated from its AST: are the thread-alive checks reached when is_running
    is already true?):
      AlwaysCheck : if not is_running: is_running = True
                    if not monitor.is_alive(): start it;  if not submitter.is_alive(): start it
      EarlyReturn : if is_running: return   (then as above) *)
From Coq Require Import List Bool Arith.
Import ListNotations.
Open Scope list_scope.

Inductive start_variant := AlwaysCheck | EarlyReturn.

Record gst := {
  g_todo : list nat;
  g_queue : list nat;       (* pending_glue_jobs *)
  g_running : list nat;     (* running_glue_jobs *)
  g_finished : list nat;    (* runs the Glue service has finished (not necessarily polled yet) *)
  g_reported : list nat;
  g_flag : bool;            (* is_running *)
  g_mon : bool;             (* a monitor thread is alive *)
  g_sub : bool              (* a submission thread is alive *)
}.

Definition ginit (js : list nat) : gst :=
  {| g_todo := js; g_queue := []; g_running := []; g_finished := []; g_reported := [];
     g_flag := false; g_mon := false; g_sub := false |}.

Inductive gact := GSubmit | GSub | GComplete (j : nat) | GPoll.

Fixpoint gmem (j : nat) (l : list nat) : bool :=
  match l with [] => false | x :: r => if Nat.eqb j x then true else gmem j r end.

Definition nonnil {A} (l : list A) : bool := match l with [] => false | _ => true end.

Definition gstep (v : start_variant) (s : gst) (a : gact) : option gst :=
  match a with
  | GSubmit =>
      match g_todo s with
      | [] => None
      | j :: r =>
          let q := g_queue s ++ [j] in
          if g_flag s && match v with EarlyReturn => true | AlwaysCheck => false end
          then Some {| g_todo := r; g_queue := q; g_running := g_running s; g_finished := g_finished s;
                       g_reported := g_reported s; g_flag := true; g_mon := g_mon s; g_sub := g_sub s |}
          else Some {| g_todo := r; g_queue := q; g_running := g_running s; g_finished := g_finished s;
                       g_reported := g_reported s; g_flag := true; g_mon := true; g_sub := true |}
      end
  | GSub =>
      if g_sub s then
        if g_flag s
        then Some {| g_todo := g_todo s; g_queue := []; g_running := g_running s ++ g_queue s;
                     g_finished := g_finished s; g_reported := g_reported s;
                     g_flag := g_flag s; g_mon := g_mon s; g_sub := false |}
        else Some {| g_todo := g_todo s; g_queue := g_queue s; g_running := g_running s;
                     g_finished := g_finished s; g_reported := g_reported s;
                     g_flag := g_flag s; g_mon := g_mon s; g_sub := false |}
      else None
  | GComplete j =>
      if gmem j (g_running s) && negb (gmem j (g_finished s))
      then Some {| g_todo := g_todo s; g_queue := g_queue s; g_running := g_running s;
                   g_finished := g_finished s ++ [j]; g_reported := g_reported s;
                   g_flag := g_flag s; g_mon := g_mon s; g_sub := g_sub s |}
      else None
  | GPoll =>
      if g_mon s then
        if g_flag s && (nonnil (g_running s) || nonnil (g_queue s))
        then Some {| g_todo := g_todo s; g_queue := g_queue s;
                     g_running := filter (fun j => negb (gmem j (g_finished s))) (g_running s);
                     g_finished := g_finished s;
                     g_reported := g_reported s ++ filter (fun j => gmem j (g_finished s)) (g_running s);
                     g_flag := g_flag s; g_mon := true; g_sub := g_sub s |}
        else Some {| g_todo := g_todo s; g_queue := g_queue s; g_running := g_running s;
                     g_finished := g_finished s; g_reported := g_reported s;
                     g_flag := false; g_mon := false; g_sub := g_sub s |}
      else None
  end.

Fixpoint grun (v : start_variant) (s : gst) (sch : list gact) : option gst :=
  match sch with
  | [] => Some s
  | a :: r => match gstep v s a with None => None | Some s' => grun v s' r end
  end.

(** ---- replay of a recorded phase history of the real AWSGlueExecutor ---- *)
Definition gobs_t := (bool * list nat * list nat * list nat * bool * bool)%type.
Definition gobs (s : gst) : gobs_t :=
  (g_flag s, g_queue s, g_running s, g_reported s, g_mon s, g_sub s).

Fixpoint nl_eqb (l r : list nat) : bool :=
  match l, r with
  | [], [] => true
  | x :: l', y :: r' => Nat.eqb x y && nl_eqb l' r'
  | _, _ => false
  end.

Definition gobs_eqb (a b : gobs_t) : bool :=
  match a, b with
  | (f1, q1, t1, r1, m1, u1), (f2, q2, t2, r2, m2, u2) =>
      Bool.eqb f1 f2 && nl_eqb q1 q2 && nl_eqb t1 t2 && nl_eqb r1 r2 && Bool.eqb m1 m2 && Bool.eqb u1 u2
  end.

Fixpoint gcheck (v : start_variant) (s : gst) (items : list (gact * gobs_t)) : bool :=
  match items with
  | [] => true
  | (a, o) :: r => match gstep v s a with
                   | Some s' => gobs_eqb (gobs s') o && gcheck v s' r
                   | None => false
                   end
  end.

(** First wave handed to Glue, the submission thread has drained the queue and returned, a run is
    still in flight (the monitor keeps is_running set); then another submit. *)
Definition witness_waves : list gact := [GSubmit; GSub; GSubmit].
