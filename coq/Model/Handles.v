(** Executable model for C25: handle lineage and rollback.

    Code modelled (redun/backends/db/__init__.py, class RedunBackendDb and tables Handle / HandleEdge):
      advance_handle, rollback_handle, is_valid_handle;  redun/db_utils.py get_or_create;
    and the replay decision of redun/scheduler.py Scheduler._get_cache.  No proofs here.

    A handle state is identified by [hid] = (fullname, state).  The real identity is
    Handle.__handle__.hash = hash_struct(["Handle", fullname, ...]); the fullname is one of the hashed
    fields, so (assuming hash_struct is collision free, C14) a hash determines its fullname and the
    pair is the same identity.  get_or_create filters on (hash, fullname, key, value_hash); key is a
    hashed field and value_hash is the hash of the handle itself, so the look-up is a look-up by hash.

    The [handle] table is a list of (id, is_valid) rows, the [handle_edge] table a list of
    (parent, child) pairs (primary key = the pair, get_or_create never duplicates it).

    Sites that are *extracted from the source* by translate/tr_handles.py are fields of [cfg]:
      - [default_valid]    Column(Boolean, default=...) of Handle.is_valid
      - [adv_chain_upd] / [adv_child_upd] / [adv_parent_upd]
                           whether the three get_or_create(Handle, ...) calls of advance_handle carry
                           the update {"is_valid": True}
      - [rb_same_name]     rollback_handle's query filters parents on Handle.fullname == fullname
      - [rb_valid_only]    ... and on Handle.is_valid.is_(True)        (variant site 1)
      - [cse_checks_valid] _get_cache validates the Handles of a CSE hit before replaying it (variant site 2)
      - [rb_first_per_name] Scheduler._perform_rollbacks calls rollback_handle only for the first Handle of
                           each fullname among a job's arguments (the code rolls back every one: false)
    [shipped] is the code as it is in the snapshot, [fixed] the repaired code.

    Fuel is explicit: [OutOfFuel] / [DfsOutOfFuel]. *)
From Coq Require Import List NArith Bool Arith.
Import ListNotations.
Open Scope list_scope.

Definition hid := (N * N)%type.
Definition hid_eqb (a b : hid) : bool := N.eqb (fst a) (fst b) && N.eqb (snd a) (snd b).
Definition mem (i : hid) (l : list hid) : bool := existsb (hid_eqb i) l.
Definition edge_eqb (a b : hid * hid) : bool := hid_eqb (fst a) (fst b) && hid_eqb (snd a) (snd b).
Definition mem_edge (e : hid * hid) (l : list (hid * hid)) : bool := existsb (edge_eqb e) l.

Record cfg := mkCfg {
  default_valid : bool; adv_chain_upd : bool; adv_child_upd : bool; adv_parent_upd : bool;
  rb_same_name : bool; rb_valid_only : bool; cse_checks_valid : bool; rb_first_per_name : bool }.
Definition std_cfg (valid_only cse_checks : bool) : cfg := mkCfg true true true true true valid_only cse_checks false.
Definition shipped : cfg := std_cfg true false.
Definition fixed : cfg := std_cfg false true.

Record db := mkDb { rows : list (hid * bool); edges : list (hid * hid) }.
Definition db0 : db := mkDb [] [].

(** An in-memory Handle object as advance_handle sees it: its id, HandleInfo.is_recorded, and
    HandleInfo.fork_parent. *)
Inductive hobj := HObj (i : hid) (recorded : bool) (fp : option hobj).
Definition oid (o : hobj) : hid := match o with HObj i _ _ => i end.

(* ------------------------------------------------------------------ table primitives *)
Fixpoint lookup (i : hid) (rs : list (hid * bool)) : option bool :=
  match rs with
  | [] => None
  | (j, v) :: r => if hid_eqb i j then Some v else lookup i r
  end.

(** RedunBackendDb.is_valid_handle: `row and row[0]`; an unrecorded handle is not valid. *)
Definition is_valid_handle (d : db) (i : hid) : bool :=
  match lookup i (rows d) with Some v => v | None => false end.

(** get_or_create(session, Handle, {hash..}, update): an existing row gets the update applied,
    a new row is inserted with filter+update (column default when there is no update). *)
Fixpoint upsert (upd dflt : bool) (i : hid) (rs : list (hid * bool)) : list (hid * bool) :=
  match rs with
  | [] => [(i, if upd then true else dflt)]
  | (j, v) :: r => if hid_eqb i j then (j, if upd then true else v) :: r else (j, v) :: upsert upd dflt i r
  end.

Definition add_edge (e : hid * hid) (es : list (hid * hid)) : list (hid * hid) :=
  if mem_edge e es then es else es ++ [e].

(* ------------------------------------------------------------------ advance_handle *)
(** The fork_parent chain above an object (the `while queue` loop walks it to the root,
    whatever the is_recorded flags of the ancestors are). *)
Fixpoint chain_from (o : hobj) : list hid :=
  match o with
  | HObj i _ fp => i :: match fp with None => [] | Some p => chain_from p end
  end.

(** Rows touched by the "skipped recording" loop: for every parent that has a fork_parent and is
    not recorded, the whole chain above it.  (The loop pops from the end of a Python list; the
    order in which rows are upserted is not observable through the modelled API.) *)
Definition fork_touch (ps : list hobj) : list hid :=
  flat_map (fun p => match p with
                     | HObj _ false (Some q) => chain_from q
                     | _ => []
                     end) ps.

Definition advance (c : cfg) (ps : list hobj) (ch : hobj) (d : db) : db :=
  let r1 := fold_left (fun rs i => upsert (adv_chain_upd c) (default_valid c) i rs) (fork_touch ps) (rows d) in
  let r2 := upsert (adv_child_upd c) (default_valid c) (oid ch) r1 in
  fold_left (fun d' p => mkDb (upsert (adv_parent_upd c) (default_valid c) (oid p) (rows d'))
                              (add_edge (oid p, oid ch) (edges d')))
            ps (mkDb r2 (edges d)).

(* ------------------------------------------------------------------ rollback_handle *)
(** The joined query: HandleEdge rows whose parent Handle row exists, has the fullname of the
    handle being rolled back and (as shipped) is valid. *)
Definition rb_pairs (c : cfg) (h : hid) (d : db) : list (hid * hid) :=
  filter (fun e => (negb (rb_same_name c) || N.eqb (fst (fst e)) (fst h))
                   && match lookup (fst e) (rows d) with
                      | Some v => negb (rb_valid_only c) || v
                      | None => false
                      end) (edges d).

(** lookups[n] *)
Definition succs (pairs : list (hid * hid)) (n : hid) : list hid :=
  map snd (filter (fun e => hid_eqb (fst e) n) pairs).

Inductive dfs_res := DfsOk (visited : list hid) | DfsOutOfFuel.

(** `while queue: n = queue.pop(); if n in invalid_hashes: continue; add; queue.extend(lookups[n])`.
    The head of the model list is the end of the Python list. *)
Fixpoint dfs (pairs : list (hid * hid)) (fuel : nat) (queue visited : list hid) : dfs_res :=
  match queue with
  | [] => DfsOk visited
  | n :: q =>
    match fuel with
    | O => DfsOutOfFuel
    | S f => if mem n visited then dfs pairs f q visited
             else dfs pairs f (rev (succs pairs n) ++ q) (n :: visited)
    end
  end.

Definition fuel_for (pairs : list (hid * hid)) : nat :=
  length pairs + (length pairs + 1) * length pairs + 1.

Inductive outcome := Done (d : db) | OutOfFuel.

Definition invalidate (vis : list hid) (rs : list (hid * bool)) : list (hid * bool) :=
  map (fun r => if mem (fst r) vis then (fst r, false) else r) rs.

Definition rollback (c : cfg) (h : hid) (d : db) : outcome :=
  let pairs := rb_pairs c h d in
  match dfs pairs (fuel_for pairs) (rev (succs pairs h)) [] with
  | DfsOk vis => Done (mkDb (invalidate vis (rows d)) (edges d))
  | DfsOutOfFuel => OutOfFuel
  end.

(* ------------------------------------------------------------------ histories *)
Inductive op := Adv (ps : list hobj) (ch : hobj) | Rb (h : hobj).

Definition step (c : cfg) (d : db) (o : op) : outcome :=
  match o with
  | Adv ps ch => Done (advance c ps ch d)
  | Rb h => rollback c (oid h) d
  end.

Fixpoint run_from (c : cfg) (d : db) (hist : list op) : outcome :=
  match hist with
  | [] => Done d
  | o :: r => match step c d o with Done d' => run_from c d' r | OutOfFuel => OutOfFuel end
  end.
Definition run (c : cfg) (hist : list op) : outcome := run_from c db0 hist.

(* ------------------------------------------------------------------ Scheduler._perform_rollbacks *)
(** `for value in iter_nested_value((args, kwargs)): if isinstance(value, Handle): rollback_handle(value)`:
    one rollback per Handle state among the arguments of a job that is about to execute, in the order
    in which iter_nested_value visits them ([hs]).  With [rb_first_per_name] only the first Handle of
    each fullname is rolled back (a `seen_names` set). *)
Fixpoint first_per_name (seen : list N) (hs : list hobj) : list hobj :=
  match hs with
  | [] => []
  | h :: r => if existsb (N.eqb (fst (oid h))) seen then first_per_name seen r
              else h :: first_per_name (fst (oid h) :: seen) r
  end.
Definition arg_rollbacks (c : cfg) (hs : list hobj) : list op :=
  map Rb (if rb_first_per_name c then first_per_name [] hs else hs).
Definition perform_rollbacks (c : cfg) (hs : list hobj) (d : db) : outcome := run_from c d (arg_rollbacks c hs).

(* ------------------------------------------------------------------ reference lineage model *)
(** The specification: a set of valid states and a lineage relation, as predicates.  Advancing
    records parent -> child lineage and makes every state it names valid; rolling back to a state
    removes exactly the states derived from it (transitive closure over *all* recorded lineage). *)
Inductive tc (R : hid -> hid -> Prop) : hid -> hid -> Prop :=
| tc_one : forall a b, R a b -> tc R a b
| tc_cons : forall a b c, R a b -> tc R b c -> tc R a c.

Record lin := mkLin { V : hid -> Prop; E : hid -> hid -> Prop }.
Definition lin0 : lin := mkLin (fun _ => False) (fun _ _ => False).

Definition lin_step (l : lin) (o : op) : lin :=
  match o with
  | Adv ps ch =>
    mkLin (fun s => s = oid ch \/ In s (map oid ps) \/ In s (fork_touch ps) \/ V l s)
          (fun a b => (In a (map oid ps) /\ b = oid ch) \/ E l a b)
  | Rb h => mkLin (fun s => V l s /\ ~ tc (E l) (oid h) s) (E l)
  end.

Definition ref_from (l : lin) (hist : list op) : lin := fold_left lin_step hist l.
Definition ref (hist : list op) : lin := ref_from lin0 hist.

(** Well-formed histories: the handles of one advance carry one fullname (fork / apply_call clone
    the name; merge_handles asserts it). *)
Definition wf_op (o : op) : Prop :=
  match o with
  | Adv ps ch => forall p, In p ps -> fst (oid p) = fst (oid ch)
  | Rb _ => True
  end.

(* ------------------------------------------------------------------ replay decision (_get_cache) *)
Inductive cache_type := CSE | SINGLE | ULTIMATE | MISS.
(** Leaves of iter_nested_value(result): a Handle (with whether type_name == class_name, see
    Handle.is_valid) or any other value with the verdict of its own is_valid(). *)
Inductive leaf := LHandle (i : hid) (class_ok : bool) | LOther (valid : bool).
Inductive cached := CErr | CVal (ls : list leaf).

Definition leaf_valid (d : db) (l : leaf) : bool :=
  match l with
  | LHandle i ok => ok && is_valid_handle d i
  | LOther v => v
  end.
(** TypeRegistry.is_valid_nested *)
Definition valid_nested (d : db) (ls : list leaf) : bool := forallb (leaf_valid d) ls.
Definition is_cse (t : cache_type) : bool := match t with CSE => true | _ => false end.
Definition is_miss (t : cache_type) : bool := match t with MISS => true | _ => false end.

(** Scheduler._has_valid_handles (repaired code only): the Handle leaves are valid; other values
    are deliberately not validated on a CSE hit (redun/tests test_cse_no_validity). *)
Definition handles_valid (d : db) (ls : list leaf) : bool :=
  forallb (fun l => match l with LHandle _ _ => leaf_valid d l | LOther _ => true end) ls.

(** Returns whether the cached result is replayed (the `is_cached` component). *)
Definition get_cache (c : cfg) (d : db) (t : cache_type) (r : cached) : bool :=
  match r with
  | CErr => is_cse t
  | CVal ls =>
    if is_cse t then (if cse_checks_valid c then handles_valid d ls else true)
    else if is_miss t then false
    else valid_nested d ls
  end.

(* ------------------------------------------------------------------ harness support *)
(** Compare the model with observations of the real backend: after each op, the validity of the
    listed states; at the end, the edge table as a set. *)
Definition obs_ok (d : db) (obs : list (hid * bool)) : bool :=
  forallb (fun iv => Bool.eqb (is_valid_handle d (fst iv)) (snd iv)) obs.
Fixpoint check_trace (c : cfg) (d : db) (tr : list (op * list (hid * bool))) : option db :=
  match tr with
  | [] => Some d
  | (o, obs) :: r =>
    match step c d o with
    | Done d' => if obs_ok d' obs then check_trace c d' r else None
    | OutOfFuel => None
    end
  end.
Definition edges_same (a b : list (hid * hid)) : bool :=
  forallb (fun e => mem_edge e b) a && forallb (fun e => mem_edge e a) b.
Definition check_hist (c : cfg) (tr : list (op * list (hid * bool))) (es : list (hid * hid)) : bool :=
  match check_trace c db0 tr with
  | Some d => edges_same (edges d) es
  | None => false
  end.
