(** Glue for the correspondence run of the job machine: replay a trace of ops observed on the
    real scheduler and compare the model's observable state after marked ops. No proofs. *)
From Coq Require Import List ZArith Bool Arith.
From RV Require Import Model.JobMachine.
Import ListNotations.
Open Scope list_scope.

Record obs := {
  o_used : list Z;        (* limits_used at resources 0 .. R-1 *)
  o_waiting : list nat;   (* _jobs_pending_limits *)
  o_pending : list nat;   (* job ids in _pending_jobs (as a set) *)
  o_queue : nat;          (* number of queued events *)
  o_submits : list nat;   (* per job: times handed to an executor *)
  o_status : list nat     (* per job: 0 pending/running, 1 done, 2 failed, 3 waiting-limits, 4 collapsed, 5 dry-stop *)
}.

Definition status_code (x : job) : nat :=
  match jphase x with
  | PSettled (Ok _) => 1
  | PSettled (Ko _) => 2
  | PWaiting => 3
  | PCollapsed _ => 4
  | PDryStop => 0
  | _ => 0
  end.

Definition observe (R : nat) (s : state) : obs :=
  {| o_used := map (used s) (seq 0 R);
     o_waiting := waiting s;
     o_pending := map snd (pending s);
     o_queue := length (queue s);
     o_submits := map jsubmits (jobs s);
     o_status := map status_code (jobs s) |}.

Fixpoint list_eqb {A} (eq : A -> A -> bool) (a b : list A) : bool :=
  match a, b with
  | [], [] => true
  | x :: a', y :: b' => eq x y && list_eqb eq a' b'
  | _, _ => false
  end.

Definition subset (a b : list nat) : bool := forallb (fun x => existsb (Nat.eqb x) b) a.
Definition same_set (a b : list nat) : bool := subset a b && subset b a.

Definition obs_eqb (a b : obs) : bool :=
  list_eqb Z.eqb (o_used a) (o_used b) && list_eqb Nat.eqb (o_waiting a) (o_waiting b) &&
  same_set (o_pending a) (o_pending b) && Nat.eqb (o_queue a) (o_queue b) &&
  list_eqb Nat.eqb (o_submits a) (o_submits b) && list_eqb Nat.eqb (o_status a) (o_status b).

(** Replay; returns the index of the first step whose expected observation differs (None = all agree). *)
Fixpoint replay (c : config) (R : nat) (s : state) (i : nat) (tr : list (op * option obs)) : option nat :=
  match tr with
  | [] => None
  | (o, e) :: r =>
      let s' := step c s o in
      match e with
      | Some ob => if obs_eqb (observe R s') ob then replay c R s' (S i) r else Some i
      | None => replay c R s' (S i) r
      end
  end.

Definition mkcfg (limits : list Z) (dry : bool) (v : variant) : config :=
  {| limit_of := fun r => nth r limits 1%Z; dryrun := dry; vr := v |}.

Definition trace_ok (limits : list Z) (dry : bool) (v : variant) (R : nat) (tr : list (op * option obs)) : bool :=
  match replay (mkcfg limits dry v) R init 0 tr with None => true | Some _ => false end.

Definition trace_fail_at (limits : list Z) (dry : bool) (v : variant) (R : nat) (tr : list (op * option obs)) : option nat :=
  replay (mkcfg limits dry v) R init 0 tr.

Definition observe_after (limits : list Z) (dry : bool) (v : variant) (R : nat) (ops : list op) : obs :=
  observe R (run (mkcfg limits dry v) ops).
