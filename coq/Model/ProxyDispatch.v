(** C16 — TypeRegistry._get_proxy_type (redun/value.py): which ProxyValue class hashes a raw
    value.  Executable model, no proofs.

    A class is identified with its chain of ancestors (single inheritance, as for the
    container subclasses the check generates): [c :: rest] is the class with own id [c] whose
    base is the class [rest]; the MRO of a class is the list of its non-empty suffixes.
    The registry maps classes to proxies; a successful lookup is memoised for the class that
    was looked up (a miss is not).  [search_depth] is extracted from the `for` loop of
    _get_proxy_type by translate/tr_valuehash.py. *)
From Coq Require Import List NArith Bool.
Import ListNotations.
Open Scope list_scope.

Definition cls := list N.
Inductive proxy := PSet | PBool | POther (n : N).
Inductive search_depth :=
| FullMRO        (* for super_raw_type in raw_type.__class__.mro(raw_type) *)
| BasesOnly.     (* for super_raw_type in (raw_type, *raw_type.__bases__)  *)

Fixpoint cls_eqb (a b : cls) : bool :=
  match a, b with
  | [], [] => true
  | x :: a', y :: b' => N.eqb x y && cls_eqb a' b'
  | _, _ => false
  end.

Definition registry := list (cls * proxy).

Fixpoint lookup (r : registry) (k : cls) : option proxy :=
  match r with
  | [] => None
  | (k', p) :: r' => if cls_eqb k k' then Some p else lookup r' k
  end.

(** first registered class in the MRO *)
Fixpoint search_full (r : registry) (c : cls) : option proxy :=
  match c with
  | [] => None
  | _ :: rest => match lookup r c with Some p => Some p | None => search_full r rest end
  end.

(** the class itself, then its direct base only *)
Definition search_bases (r : registry) (c : cls) : option proxy :=
  match c with
  | [] => None
  | _ :: rest =>
      match lookup r c with
      | Some p => Some p
      | None => match rest with [] => None | _ :: _ => lookup r rest end
      end
  end.

Definition search (d : search_depth) : registry -> cls -> option proxy :=
  match d with FullMRO => search_full | BasesOnly => search_bases end.

(** _get_proxy_type: result and the registry afterwards *)
Definition get_proxy (d : search_depth) (r : registry) (c : cls) : option proxy * registry :=
  match search d r c with
  | Some p => (Some p, (c, p) :: r)
  | None => (None, r)
  end.

(** the registry after the classes of [hist] were looked up, in that order *)
Fixpoint after (d : search_depth) (r : registry) (hist : list cls) : registry :=
  match hist with
  | [] => r
  | c :: h => after d (snd (get_proxy d r c)) h
  end.

(** the proxy that hashes an instance of [c] in a process whose earlier lookups were [hist] *)
Definition dispatch (d : search_depth) (r0 : registry) (hist : list cls) (c : cls) : option proxy :=
  fst (get_proxy d (after d r0 hist) c).

(** ids used by the witnesses: object = 0, set = 1 *)
Definition c_object : cls := [0%N].
Definition c_set : cls := 1%N :: c_object.
Definition reg0 : registry := [(c_set, PSet)].
