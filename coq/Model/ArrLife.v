(** C10 — life cycle of the JobArrayer thread (redun/job_array.py: start / stop / _exit_flag).

    Executable model, no proofs.  The executor monitors of AWS Batch / K8S / GCP Batch call
    [arrayer.stop()] on their way out and every [add_job] calls [arrayer.start()]:
        start(): if thread.is_alive(): return
                 [self._exit_flag.clear()]                      <- ClearInStart (as shipped)
                 thread = Thread(_monitor_stale_jobs); thread.start()
        stop():  self._exit_flag.set()
                 if thread.is_alive(): thread.join() [; self._exit_flag.clear()]   <- ClearInStopIfAlive
        loop:    while not self._exit_flag.wait(...): submit what is held
    A submission either goes through the arrayer ([add_job]: held, then start()) or bypasses it
    (script tasks, reunited jobs: handed to the backend directly).  [LStop] is the monitor leaving:
    only when the arrayer holds nothing (exact counter, Model/ArrCounter.v); it is one step (a
    monitor's way out is not preempted - that race is the subject of Model/Monitor.v). *)
From Coq Require Import List Bool Arith.
Import ListNotations.
Open Scope list_scope.

Inductive clear_variant := ClearInStart | ClearInStopIfAlive.

Record lst := {
  l_todo : list (nat * bool);   (* scheduler thread: (job, bypasses the arrayer?) still to submit *)
  l_held : list nat;            (* arrayer.pending *)
  l_backend : list nat;         (* handed to the cloud API (submitted) *)
  l_flag : bool;                (* _exit_flag *)
  l_alive : bool                (* the arrayer thread *)
}.

Definition linit (js : list (nat * bool)) : lst :=
  {| l_todo := js; l_held := []; l_backend := []; l_flag := false; l_alive := false |}.

Inductive lact := LSubmit | LTick | LStop.

Definition lstep (v : clear_variant) (s : lst) (a : lact) : option lst :=
  match a with
  | LSubmit =>
      match l_todo s with
      | [] => None
      | (j, true) :: r =>
          Some {| l_todo := r; l_held := l_held s; l_backend := l_backend s ++ [j];
                  l_flag := l_flag s; l_alive := l_alive s |}
      | (j, false) :: r =>
          (* add_job: append under the lock, then start() *)
          if l_alive s
          then Some {| l_todo := r; l_held := l_held s ++ [j]; l_backend := l_backend s;
                       l_flag := l_flag s; l_alive := true |}
          else Some {| l_todo := r; l_held := l_held s ++ [j]; l_backend := l_backend s;
                       l_flag := match v with ClearInStart => false | ClearInStopIfAlive => l_flag s end;
                       l_alive := true |}
      end
  | LTick =>
      if l_alive s then
        if l_flag s
        then Some {| l_todo := l_todo s; l_held := l_held s; l_backend := l_backend s;
                     l_flag := l_flag s; l_alive := false |}          (* the loop sees the flag and returns *)
        else match l_held s with
             | [] => None                                              (* nothing stale: idle *)
             | h => Some {| l_todo := l_todo s; l_held := []; l_backend := l_backend s ++ h;
                            l_flag := l_flag s; l_alive := true |}
             end
      else None
  | LStop =>
      match l_held s with
      | [] => Some {| l_todo := l_todo s; l_held := []; l_backend := l_backend s;
                      l_flag := match v with
                                | ClearInStart => true
                                | ClearInStopIfAlive => negb (l_alive s)   (* cleared only after a join *)
                                end;
                      l_alive := false |}
      | _ => None
      end
  end.

Fixpoint lrun (v : clear_variant) (s : lst) (sch : list lact) : option lst :=
  match sch with
  | [] => Some s
  | a :: r => match lstep v s a with None => None | Some s' => lrun v s' r end
  end.

(** stop() with no live arrayer thread (first wave bypassed it), then a regular job. *)
Definition witness_life : list lact := [LSubmit; LStop; LSubmit; LTick].
Definition witness_life_jobs : list (nat * bool) := [(0, true); (1, false)].
