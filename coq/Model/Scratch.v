(** C32 — executable model of the remote-job scratch-file protocol.

    Sources modelled (redun 0.46):
      redun/executors/scratch.py   get_job_scratch_file, get_array_scratch_file,
                                   write_array_job_scratch_files, parse_job_result, parse_job_error
      redun/executors/command.py   get_oneshot_command (input file + the paths it passes)
      redun/cli.py                 RedunClient.oneshot_command (non-script tasks, --input given)
      redun/job_array.py           get_job_array_index
      redun/executors/aws_batch.py get_batch_job_name, get_hash_from_job_name, is_array_job_name,
                                   AWSBatchExecutor.gather_inflight_jobs, the reunite lookup of _submit,
                                   the result collection of _process_job_status

    No proofs here. Strings are [list ascii]. Python exceptions are constructors ([PErr], [Raised],
    [GRaise] ...); anything outside the modelled domain is an explicit [Unmodelled]. *)
From Coq Require Import List NArith Ascii String Bool.
From RV Require Import Base.Decimal Base.Lit.
Import ListNotations.
Open Scope list_scope.

Definition str := list ascii.
Definition lit (x : string) : str := list_ascii_of_string x.
Definition str_eqb (a b : str) : bool := bytes_eq a b.

Definition ch_slash : ascii := "/"%char.
Definition ch_dash : ascii := "-"%char.
Definition ch_nl : ascii := ascii_of_N 10.
Definition is_slash (c : ascii) := Ascii.eqb c ch_slash.
Definition is_dash (c : ascii) := Ascii.eqb c ch_dash.
Definition is_nl (c : ascii) := Ascii.eqb c ch_nl.

(** which attribute of the task the arrayer's grouping key (JobDescription) starts with *)
Inductive key_field := KFullname | KName.
(** how get_oneshot_command stages the pickled [args, kwargs] of a single job *)
Inductive stage_mode := Overwrite | IfAbsent.
(** when oneshot_command removes a previous output file before calling the task: only on the path
    that consulted the cache (shipped: the remove sits inside `if output_path and not args.no_cache`),
    always, or never *)
(** what the arrayer's grouping key (JobDescription.key) says about the job's options: the sorted
    (name, value) items, or the sorted option names only *)
Inductive opts_field := OItems | ONames.
Inductive clear_mode := ClearCached | ClearAlways | ClearNever.

(** ** Configuration extracted from the source by translate/tr_scratch.py *)
Record cfg := {
  f_input : str; f_output : str; f_error : str; f_hashes : str;   (* SCRATCH_INPUT/OUTPUT/ERROR/HASHES *)
  d_jobs : str; d_array : str;                                   (* "jobs", "array_jobs" path components *)
  arr_out_elem : str; arr_err_elem : str;   (* per-job file names listed in the array output / error spec files *)
  arr_suffix : str;                                              (* ARRAY_JOB_SUFFIX *)
  env_vars : list str;                                           (* lookup order of get_job_array_index *)
  key_task : key_field;                                          (* JobDescription.task_name *)
  stage_input : stage_mode;                                      (* get_oneshot_command, non-array branch *)
  clear_output : clear_mode;                                     (* oneshot_command: output_file.remove() *)
  key_opts : opts_field                                          (* JobDescription.key, option component *)
}.

Definition shipped : cfg := {|
  f_input := lit "input"; f_output := lit "output"; f_error := lit "error"; f_hashes := lit "eval_hashes";
  d_jobs := lit "jobs"; d_array := lit "array_jobs";
  arr_out_elem := lit "output"; arr_err_elem := lit "error";
  arr_suffix := lit "array";
  env_vars := [lit "AWS_BATCH_JOB_ARRAY_INDEX"; lit "JOB_COMPLETION_INDEX"; lit "BATCH_TASK_INDEX"];
  key_task := KFullname;
  stage_input := Overwrite;
  clear_output := ClearCached;
  key_opts := OItems
|}.

(** the variant whose grouping key lists the option names only *)
Definition names_only (c : cfg) : cfg := {|
  f_input := f_input c; f_output := f_output c; f_error := f_error c; f_hashes := f_hashes c;
  d_jobs := d_jobs c; d_array := d_array c; arr_out_elem := arr_out_elem c; arr_err_elem := arr_err_elem c;
  arr_suffix := arr_suffix c; env_vars := env_vars c; key_task := key_task c; stage_input := stage_input c;
  clear_output := clear_output c; key_opts := ONames |}.

Definition with_clear (m : clear_mode) (c : cfg) : cfg := {|
  f_input := f_input c; f_output := f_output c; f_error := f_error c; f_hashes := f_hashes c;
  d_jobs := d_jobs c; d_array := d_array c; arr_out_elem := arr_out_elem c; arr_err_elem := arr_err_elem c;
  arr_suffix := arr_suffix c; env_vars := env_vars c; key_task := key_task c; stage_input := stage_input c;
  clear_output := m; key_opts := key_opts c |}.

(** the variant that skips staging when an input file is already there *)
Definition if_absent (c : cfg) : cfg := {|
  f_input := f_input c; f_output := f_output c; f_error := f_error c; f_hashes := f_hashes c;
  d_jobs := d_jobs c; d_array := d_array c; arr_out_elem := arr_out_elem c; arr_err_elem := arr_err_elem c;
  arr_suffix := arr_suffix c; env_vars := env_vars c; key_task := key_task c; stage_input := IfAbsent;
  clear_output := clear_output c; key_opts := key_opts c |}.

(** the variant in which jobs are grouped by the short task name only *)
Definition by_name (c : cfg) : cfg := {|
  f_input := f_input c; f_output := f_output c; f_error := f_error c; f_hashes := f_hashes c;
  d_jobs := d_jobs c; d_array := d_array c; arr_out_elem := arr_out_elem c; arr_err_elem := arr_err_elem c;
  arr_suffix := arr_suffix c; env_vars := env_vars c; key_task := KName; stage_input := stage_input c;
  clear_output := clear_output c; key_opts := key_opts c |}.

(** ** Array grouping (job_array.py JobDescription / JobArrayer, aws_batch.py _submit_array_job) *)
Record tinfo := { t_ns : str; t_name : str; t_opts : str; t_optnames : str }.
  (* task namespace ([] if none), short name, str(sorted(job.get_options().items())),
     str(sorted(job.get_options())) *)
Definition ch_dot : ascii := "."%char.
Definition ch_space : ascii := " "%char.
(* Task.fullname *)
Definition fullname (t : tinfo) : str :=
  match t_ns t with [] => t_name t | ns => ns ++ ch_dot :: t_name t end.
(* JobDescription.key = task_name + " " + str(sorted(options.items())) *)
Definition descr_key (c : cfg) (t : tinfo) : str :=
  (match key_task c with KFullname => fullname t | KName => t_name t end)
  ++ ch_space :: (match key_opts c with OItems => t_opts t | ONames => t_optnames t end).

(** ** posixpath.join and the scratch paths *)
Definition pjoin (a b : str) : str :=
  match b with
  | c :: _ => if is_slash c then b else
      match a with
      | [] => b
      | _ => if is_slash (last a ch_dash) then a ++ b else a ++ ch_slash :: b
      end
  | [] => match a with [] => [] | _ => if is_slash (last a ch_dash) then a else a ++ [ch_slash] end
  end.

Definition job_file (c : cfg) (prefix h fname : str) : str := pjoin (pjoin (pjoin prefix (d_jobs c)) h) fname.
Definition array_file (c : cfg) (prefix aid fname : str) : str := pjoin (pjoin (pjoin prefix (d_array c)) aid) fname.

(** ** Job names (aws_batch.py) *)
Fixpoint starts_with (x p : str) {struct p} : bool :=
  match p, x with
  | [], _ => true
  | b :: p', a :: x' => Ascii.eqb a b && starts_with x' p'
  | _ :: _, [] => false
  end.
Definition ends_with (x suf : str) : bool := starts_with (rev x) (rev suf).

(* "{}-{}{}".format(prefix, job_hash, f"-{ARRAY_JOB_SUFFIX}" if array else "") *)
Definition batch_job_name (c : cfg) (prefix h : str) (array : bool) : str :=
  prefix ++ ch_dash :: h ++ (if array then ch_dash :: arr_suffix c else []).

Definition is_array_job_name (c : cfg) (name : str) : bool := ends_with name (ch_dash :: arr_suffix c).

Fixpoint take_nodash (x : str) : str :=
  match x with [] => [] | c :: r => if is_dash c then [] else c :: take_nodash r end.

(** [re.match(".*-(?P<hash>[^-]+)", x)]: [.*] is greedy and does not cross a newline, so the match
    uses the last '-' of the first line that is followed by a non-'-' character; the group is the
    maximal '-'-free run after it (it may contain newlines). *)
Fixpoint re_hash_go (x : str) (acc : option str) : option str :=
  match x with
  | [] => acc
  | c :: r =>
      if is_nl c then acc
      else if is_dash c then
        match r with
        | d :: _ => if is_dash d then re_hash_go r acc else re_hash_go r (Some (take_nodash r))
        | [] => acc
        end
      else re_hash_go r acc
  end.

Definition strip_suffix (x suf : str) : str :=
  if ends_with x suf then firstn (List.length x - List.length suf) x else x.

(* JobArrayer.pending[descr]: the jobs added under one description, in arrival order; each array
   (or chunk of max_array_size) is a sublist of it *)
Definition group_of {J : Type} (c : cfg) (info : J -> tinfo) (pending : list J) (k : str) : list J :=
  filter (fun j => bytes_eq (descr_key c (info j)) k) pending.
(* _submit_array_job -> submit_task -> get_oneshot_command: ONE command for the whole array, naming
   jobs[0].task ("All jobs identical so just grab the first one"); oneshot looks the task up by it *)
Definition array_command_task {J : Type} (info : J -> tinfo) (group : list J) : option str :=
  match group with [] => None | j :: _ => Some (fullname (info j)) end.

Definition hash_of_job_name (c : cfg) (name : str) : option str :=
  re_hash_go (strip_suffix name (ch_dash :: arr_suffix c)) None.

(** ** get_job_array_index (job_array.py) *)
Inductive idx_res := IdxNone | IdxOk (n : N) | IdxKeyError | IdxUnmodelled.

Definition digit_val (c : ascii) : N := (N_of_ascii c - 48)%N.
Definition all_digits (x : str) : bool := forallb is_digit x.
(* int(x) for x a non-empty ASCII digit string (leading zeros allowed); signs, blanks and '_' are
   not modelled *)
Definition parse_index (x : str) : idx_res :=
  match x with
  | [] => IdxUnmodelled
  | _ => if all_digits x then IdxOk (fold_left (fun a c => (a * 10 + digit_val c)%N) x 0%N) else IdxUnmodelled
  end.

Definition env_t := list (str * str).
Fixpoint env_get (e : env_t) (k : str) : option str :=
  match e with [] => None | (k', v) :: r => if str_eqb k k' then Some v else env_get r k end.

Fixpoint index_chain (vars : list str) (e : env_t) : idx_res :=
  match vars with
  | [] => IdxNone
  | v :: r => match env_get e v with Some x => parse_index x | None => index_chain r e end
  end.

Definition get_index (c : cfg) (e : env_t) (env_var : option str) : idx_res :=
  match env_var with
  | Some (a :: v) => match env_get e (a :: v) with Some x => parse_index x | None => IdxKeyError end
  | _ => index_chain (env_vars c) e
  end.

(** ** str.splitlines on ASCII text and "\n".join *)
Definition is_linebreak (c : ascii) : bool :=
  let n := N_of_ascii c in
  (N.eqb n 10 || N.eqb n 13 || N.eqb n 11 || N.eqb n 12 || N.eqb n 28 || N.eqb n 29 || N.eqb n 30)%N.

Fixpoint splitlines_go (cur : str) (x : str) : list str :=
  match x with
  | [] => match cur with [] => [] | _ => [rev cur] end
  | c :: r =>
      if N.eqb (N_of_ascii c) 13 then
        match r with
        | d :: r' => if is_nl d then rev cur :: splitlines_go [] r' else rev cur :: splitlines_go [] r
        | [] => [rev cur]
        end
      else if is_linebreak c then rev cur :: splitlines_go [] r
      else splitlines_go (c :: cur) r
  end.
Definition splitlines (x : str) : list str := splitlines_go [] x.

Fixpoint join_nl (l : list str) : str :=
  match l with
  | [] => []
  | [h] => h
  | h :: t => h ++ ch_nl :: join_nl t
  end.

(** ** Python objects, pickles, files *)
Inductive perr :=
| EIndex        (* IndexError: list index out of range *)
| ENoIndexVar   (* RedunClientError("Array job environment variable not set") *)
| EKeyEnv       (* KeyError: the --array-rank-env variable is not set *)
| ELoad         (* pickle / json could not be parsed *)
| EMissing      (* FileNotFoundError when opening a scratch file for reading *)
| EUnpack       (* ValueError / TypeError when unpacking a pair *)
| EScratch      (* scratch.ScratchError: error file could not be parsed *)
| ENotFound     (* scratch.ExceptionNotFoundError *)
| EOutputGone.  (* FileNotFoundError(output path) raised by the executor when output is missing *)

Inductive step (A : Type) := SOk (a : A) | SRaise (e : perr) | SUnmodelled.
Arguments SOk {A}. Arguments SRaise {A}. Arguments SUnmodelled {A}.

Section Proto.
  (** [V]: opaque Python values (argument tuples, kwargs dicts, results, exception instances). *)
  Variable V : Type.
  Inductive obj := Leaf (v : V) | Seq (l : list obj) | PErr (e : perr).

  (** pickle: [pbytes] is what ends up in a file. The round-trip law is a premise of the
      theorems, not of the model. *)
  Variable pbytes : Type.
  Variable dump : obj -> pbytes.
  Variable load : pbytes -> option obj.   (* None: unpickling raises *)

  Inductive blob :=
  | BPickle (b : pbytes)       (* written with pickle_dump *)
  | BJson (l : list str)       (* json.dump of a list of str *)
  | BText (t : str).           (* text file *)

  Definition fs_t := list (str * blob).
  Fixpoint fs_read (fs : fs_t) (p : str) : option blob :=
    match fs with [] => None | (q, b) :: r => if str_eqb p q then Some b else fs_read r p end.
  Fixpoint fs_remove (fs : fs_t) (p : str) : fs_t :=
    match fs with [] => [] | (q, b) :: r => if str_eqb p q then fs_remove r p else (q, b) :: fs_remove r p end.
  Definition fs_write (fs : fs_t) (p : str) (b : blob) : fs_t := (p, b) :: fs_remove fs p.

  (** The task body, the validity test of the type registry, Traceback.from_error. *)
  Inductive outcome := Ret (r : obj) | Exc (e : obj).
  Variable f : obj -> obj -> outcome.     (* task.func( *args, **kwargs) *)
  Variable valid : obj -> bool.           (* get_type_registry().is_valid_nested *)
  Variable tb_of : obj -> obj.            (* Traceback.from_error *)

  Record job := { j_hash : str; j_args : obj; j_kwargs : obj }.

  (** *** Writers (executor side) *)
  (* get_oneshot_command, non-array branch: pickle_dump([args, kwargs]) to jobs/<hash>/input *)
  Definition write_single (c : cfg) (prefix : str) (j : job) (fs : fs_t) : fs_t :=
    let p := job_file c prefix (j_hash j) (f_input c) in
    let b := BPickle (dump (Seq [j_args j; j_kwargs j])) in
    match stage_input c with
    | Overwrite => fs_write fs p b
    | IfAbsent => match fs_read fs p with Some _ => fs | None => fs_write fs p b end
    end.

  Definition write_array (c : cfg) (prefix aid : str) (jobs : list job) (include_hash : bool) (fs : fs_t) : fs_t :=
    let fs1 := fs_write fs (array_file c prefix aid (f_input c))
                 (BPickle (dump (Seq [Seq (map j_args jobs); Seq (map j_kwargs jobs)]))) in
    let fs2 := fs_write fs1 (array_file c prefix aid (f_output c))
                 (BJson (map (fun j => job_file c prefix (j_hash j) (arr_out_elem c)) jobs)) in
    let fs3 := fs_write fs2 (array_file c prefix aid (f_error c))
                 (BJson (map (fun j => job_file c prefix (j_hash j) (arr_err_elem c)) jobs)) in
    if include_hash then fs_write fs3 (array_file c prefix aid (f_hashes c)) (BText (join_nl (map j_hash jobs)))
    else fs3.

  (** *** oneshot (worker side) *)
  Record oargs := {
    a_array : bool; a_rank_env : option str;
    a_input : option str; a_output : option str; a_error : option str; a_no_cache : bool }.

  Definition args_single (c : cfg) (prefix h : str) (no_cache : bool) : oargs :=
    {| a_array := false; a_rank_env := None;
       a_input := Some (job_file c prefix h (f_input c)); a_output := Some (job_file c prefix h (f_output c));
       a_error := Some (job_file c prefix h (f_error c)); a_no_cache := no_cache |}.
  Definition args_array (c : cfg) (prefix aid : str) (no_cache : bool) : oargs :=
    {| a_array := true; a_rank_env := None;
       a_input := Some (array_file c prefix aid (f_input c)); a_output := Some (array_file c prefix aid (f_output c));
       a_error := Some (array_file c prefix aid (f_error c)); a_no_cache := no_cache |}.

  Inductive run := Returned (r : obj) | Raised (e : obj) | Unmodelled.

  (* with BaseFile(p).open() as f: l = json.load(f); l[idx] *)
  Definition read_spec (fs : fs_t) (p : str) (idx : N) : step str :=
    match fs_read fs p with
    | None => SRaise EMissing
    | Some (BJson l) => match nth_error l (N.to_nat idx) with Some x => SOk x | None => SRaise EIndex end
    | Some _ => SRaise ELoad
    end.

  (* pickle.load of the input file, unpacked as a pair, indexed for array jobs *)
  Definition read_input (fs : fs_t) (p : str) (array : bool) (idx : N) : step (obj * obj) :=
    match fs_read fs p with
    | None => SRaise EMissing
    | Some (BPickle b) =>
        match load b with
        | None => SRaise ELoad
        | Some (Seq [ta; tk]) =>
            if array then
              match ta, tk with
              | Seq la, Seq lk =>
                  match nth_error la (N.to_nat idx) with
                  | None => SRaise EIndex
                  | Some x => match nth_error lk (N.to_nat idx) with None => SRaise EIndex | Some y => SOk (x, y) end
                  end
              | Seq la, _ => match nth_error la (N.to_nat idx) with None => SRaise EIndex | Some _ => SUnmodelled end
              | _, _ => SUnmodelled     (* indexing an opaque value *)
              end
            else SOk (ta, tk)
        | Some (Seq _) => SRaise EUnpack
        | Some _ => SUnmodelled          (* unpacking an opaque value *)
        end
    | Some _ => SRaise ELoad
    end.

  (* the body of the try block, from "output_path = args.output" on *)
  (* output_file.remove() before the task is called *)
  Definition clear_prev (c : cfg) (nc : bool) (fs : fs_t) (op : str) : fs_t :=
    match clear_output c with
    | ClearAlways => fs_remove fs op
    | ClearCached => if nc then fs else fs_remove fs op
    | ClearNever => fs
    end.

  Definition oneshot_body (c : cfg) (a : oargs) (idx : N) (fs : fs_t) : fs_t * run :=
    let outp : step (option str) :=
      match a_output a with
      | None => SOk None
      | Some p => if a_array a then
                    match read_spec fs p idx with SOk x => SOk (Some x) | SRaise e => SRaise e | SUnmodelled => SUnmodelled end
                  else SOk (Some p)
      end in
    match outp with
    | SUnmodelled => (fs, Unmodelled)
    | SRaise e => (fs, Raised (PErr e))
    | SOk output_path =>
      match a_input a with
      | None => (fs, Unmodelled)          (* command-line argument parsing is not modelled *)
      | Some ip =>
        match read_input fs ip (a_array a) idx with
        | SUnmodelled => (fs, Unmodelled)
        | SRaise e => (fs, Raised (PErr e))
        | SOk (ta, tk) =>
          (* cache check *)
          let cached : step (fs_t * option obj) :=
            match output_path with
            | Some op =>
                if a_no_cache a then SOk (clear_prev c true fs op, None)
                else match fs_read fs op with
                     | None => SOk (clear_prev c false fs op, None)
                     | Some (BPickle b) =>
                         match load b with
                         | None => SRaise ELoad
                         | Some r => if valid r then SOk (fs, Some r) else SOk (clear_prev c false fs op, None)
                         end
                     | Some _ => SRaise ELoad
                     end
            | None => SOk (fs, None)
            end in
          match cached with
          | SUnmodelled => (fs, Unmodelled)
          | SRaise e => (fs, Raised (PErr e))
          | SOk (fs1, Some r) => (fs1, Returned r)
          | SOk (fs1, None) =>
              match f ta tk with
              | Exc e => (fs1, Raised e)
              | Ret r =>
                  match output_path with
                  | Some op => (fs_write fs1 op (BPickle (dump r)), Returned r)
                  | None => (fs1, Returned r)
                  end
              end
          end
        end
      end
    end.

  Definition oneshot (c : cfg) (env : env_t) (a : oargs) (fs : fs_t) : fs_t * run :=
    (* before the try block: array index and the error path; failures here leave no error file *)
    let pre : step (N * option str) :=
      if a_array a then
        match get_index c env (a_rank_env a) with
        | IdxNone => SRaise ENoIndexVar
        | IdxKeyError => SRaise EKeyEnv
        | IdxUnmodelled => SUnmodelled
        | IdxOk i =>
            match a_error a with
            | None => SOk (i, None)
            | Some p => match read_spec fs p i with SOk x => SOk (i, Some x) | SRaise e => SRaise e | SUnmodelled => SUnmodelled end
            end
        end
      else SOk (0%N, a_error a) in
    match pre with
    | SUnmodelled => (fs, Unmodelled)
    | SRaise e => (fs, Raised (PErr e))
    | SOk (idx, errp) =>
        let fs1 := match errp with Some p => fs_remove fs p | None => fs end in
        match oneshot_body c a idx fs1 with
        | (fs2, Raised e) =>
            (match errp with Some p => fs_write fs2 p (BPickle (dump (Seq [e; tb_of e]))) | None => fs2 end, Raised e)
        | other => other
        end
    end.

  (** *** Readers (executor side, non-script tasks) *)
  Inductive presult := PRes (r : obj) | PAbsent | PLoadRaises.
  Definition parse_job_result (c : cfg) (prefix h : str) (is_valid : option (obj -> bool)) (fs : fs_t) : presult :=
    match fs_read fs (job_file c prefix h (f_output c)) with
    | None => PAbsent
    | Some (BPickle b) =>
        match load b with
        | None => PLoadRaises
        | Some r => match is_valid with None => PRes r | Some g => if g r then PRes r else PAbsent end
        end
    | Some _ => PLoadRaises
    end.

  Definition parse_job_error (c : cfg) (prefix h : str) (fs : fs_t) : obj :=
    match fs_read fs (job_file c prefix h (f_error c)) with
    | None => PErr ENotFound
    | Some (BPickle b) => match load b with Some (Seq [e; _]) => e | _ => PErr EScratch end
    | Some _ => PErr EScratch
    end.

  (** What the executor hands to the scheduler when the remote process ended
      (_process_job_status: exit 0 = SUCCEEDED -> done_job(result), else reject_job(error)). *)
  Inductive collected := CDone (r : obj) | CReject (e : obj) | CRaises | CUnmodelled.
  Definition collect (c : cfg) (prefix h : str) (fs : fs_t) (r : run) : collected :=
    match r with
    | Returned _ => match parse_job_result c prefix h None fs with
                    | PRes x => CDone x | PAbsent => CReject (PErr EOutputGone) | PLoadRaises => CRaises end
    | Raised _ => CReject (parse_job_error c prefix h fs)
    | Unmodelled => CUnmodelled
    end.
  (** the executors that judge a finished non-script job by its scratch files
      (docker.iter_job_status: succeeded = output_file.exists(), hence DockerExecutor and every
      executor's debug mode; AWSBatchExecutor._can_override_failed): output present -> done_job(result),
      else reject_job(parse_job_error) *)
  Definition collect_by_output (c : cfg) (prefix h : str) (fs : fs_t) : collected :=
    match parse_job_result c prefix h None fs with
    | PRes x => CDone x
    | PLoadRaises => CRaises
    | PAbsent => CReject (parse_job_error c prefix h fs)
    end.

  Definition local (j : job) : collected :=
    match f (j_args j) (j_kwargs j) with Ret r => CDone r | Exc e => CReject e end.

  (** Whole protocol for one job / one array element. *)
  Definition remote_single (c : cfg) (prefix : str) (no_cache : bool) (j : job) (fs : fs_t) : fs_t * collected :=
    let '(fs', r) := oneshot c [] (args_single c prefix (j_hash j) no_cache) (write_single c prefix j fs) in
    (fs', collect c prefix (j_hash j) fs' r).

  Definition run_elem (c : cfg) (prefix aid : str) (no_cache : bool) (env : env_t) (fs : fs_t) : fs_t * run :=
    oneshot c env (args_array c prefix aid no_cache) fs.

  (** *** Reuniting (gather_inflight_jobs and the lookup in _submit) *)
  Record inflight := { in_name : str; in_id : str; in_children : list (str * N) }.   (* children: (jobId, index) *)

  Definition dict := list (str * str).
  Fixpoint dict_set (d : dict) (k v : str) : dict :=
    match d with
    | [] => [(k, v)]
    | (k', v') :: r => if str_eqb k k' then (k, v) :: r else (k', v') :: dict_set r k v
    end.
  Fixpoint dict_get (d : dict) (k : str) : option str :=
    match d with [] => None | (k', v) :: r => if str_eqb k k' then Some v else dict_get r k end.

  Definition adict := list (str * list (str * N)).
  Fixpoint adict_set (d : adict) (k : str) (v : list (str * N)) : adict :=
    match d with
    | [] => [(k, v)]
    | (k', v') :: r => if str_eqb k k' then (k, v) :: r else (k', v') :: adict_set r k v
    end.

  (* first loop *)
  Fixpoint gather_names (c : cfg) (l : list inflight) (m : dict) (arrays : adict) : dict * adict :=
    match l with
    | [] => (m, arrays)
    | j :: r =>
        if is_array_job_name c (in_name j) then gather_names c r m (adict_set arrays (in_name j) (in_children j))
        else match hash_of_job_name c (in_name j) with
             | Some h => gather_names c r (dict_set m h (in_id j)) arrays
             | None => gather_names c r m arrays
             end
    end.

  Inductive gres := GOk (m : dict) | GRaise (e : perr) | GUnmodelled.

  Fixpoint gather_children (hashes : list str) (ch : list (str * N)) (m : dict) : gres :=
    match ch with
    | [] => GOk m
    | (jid, i) :: r => match nth_error hashes (N.to_nat i) with
                       | Some h => gather_children hashes r (dict_set m h jid)
                       | None => GRaise EIndex
                       end
    end.

  (* second loop *)
  Fixpoint gather_arrays (c : cfg) (prefix : str) (fs : fs_t) (arrays : adict) (m : dict) : gres :=
    match arrays with
    | [] => GOk m
    | (name, ch) :: r =>
        match hash_of_job_name c name with
        | None => gather_arrays c prefix fs r m
        | Some ph =>
            match fs_read fs (array_file c prefix ph (f_hashes c)) with
            | None => gather_arrays c prefix fs r m
            | Some (BText t) =>
                match gather_children (splitlines t) ch m with
                | GOk m' => gather_arrays c prefix fs r m'
                | other => other
                end
            | Some _ => GUnmodelled
            end
        end
    end.

  Definition gather_inflight (c : cfg) (prefix : str) (fs : fs_t) (l : list inflight) (m0 : dict) : gres :=
    let '(m, arrays) := gather_names c l m0 [] in gather_arrays c prefix fs arrays m.

  (* _submit: `job.eval_hash in preexisting_batch_jobs` -> pop -> reunite with that remote job *)
  Definition reunite (m : dict) (eval_hash : str) : option str := dict_get m eval_hash.
End Proto.

Arguments Leaf {V}. Arguments Seq {V}. Arguments PErr {V}.
Arguments j_hash {V}. Arguments j_args {V}. Arguments j_kwargs {V}.

(** Hash alphabet: eval hashes and array uuids are non-empty lowercase hex strings. *)
Definition is_hex (c : ascii) : bool :=
  let n := N_of_ascii c in ((N.leb 48 n && N.leb n 57) || (N.leb 97 n && N.leb n 102))%N.
Definition hexstr (h : str) : bool := match h with [] => false | _ => forallb is_hex h end.
