(** Executable model of task hashing (C17). Definitions only, no proofs.

    Sources modelled:
      redun/utils.py  get_func_source                 -> [trim_source]
      redun/task.py   Task.__init__                   -> [mk_task]
                      Task._format_fullname           -> [fullname]
                      Task._calc_hash                 -> [task_calc] (pre-image [task_pre])
                      Task.options / export_options / update_context
                                                      -> [derive] with the forwarded kwargs [fwd_options]/[fwd_export]
                      wraps_task (create_tasks)       -> [wrap]
                      PartialTask._calc_hash/partial/options -> [partial_hash] ...
      redun/hashing.py hash_arguments                 -> [args_pre]/[args_hash]

    What is abstract (Section variables, premises of the theorems, never axioms):
      [H]        Hash().hexdigest() of the bytes fed to it (truncated SHA-512, hex)
      [vhash]    TypeRegistry.get_hash on a plain value
      [ohash]    TypeRegistry.get_hash on an option dict (pickle based, insertion-order sensitive)
      [sanitize] the in-place rewrite of option dicts done by Task._validate *after* the hash
                 has been computed (cache -> cache_scope, enum conversion)
    Strings are their UTF-8 bytes (bencode encodes str that way; see C14). *)
From Coq Require Import List ZArith Ascii String Bool.
From RV Require Import Base.Decimal Model.Bencode Base.HashSpec.
Import ListNotations.
Open Scope list_scope.

Definition b (s : string) : bytes := list_ascii_of_string s.
Arguments b _%string.

Inductive variant := AsShipped | Fixed.

(** * get_func_source: drop the lines before the first line that looks like a [def] *)
Definition nl : ascii := "010"%char.
Definition sp : ascii := " "%char.
Definition tab : ascii := "009"%char.

(** [source.split("\n")]: first line, remaining lines *)
Fixpoint split_nl (s : bytes) : bytes * list bytes :=
  match s with
  | [] => ([], [])
  | c :: r => let (l, ls) := split_nl r in
              if Ascii.eqb c nl then ([], l :: ls) else (c :: l, ls)
  end.
Definition lines (s : bytes) : list bytes := let (l, ls) := split_nl s in l :: ls.

(** ["\n".join(ls)] *)
Fixpoint join_nl (ls : list bytes) : bytes :=
  match ls with
  | [] => []
  | l :: r => match r with [] => l | _ :: _ => l ++ nl :: join_nl r end
  end.

Fixpoint starts_with (p s : bytes) : option bytes :=
  match p, s with
  | [], _ => Some s
  | a :: p', c :: s' => if Ascii.eqb a c then starts_with p' s' else None
  | _ :: _, [] => None
  end.

Fixpoint skip (f : ascii -> bool) (s : bytes) : bytes :=
  match s with
  | [] => []
  | c :: r => if f c then skip f r else s
  end.

Definition is_sp (c : ascii) : bool := Ascii.eqb c sp.
Definition is_blank (c : ascii) : bool := Ascii.eqb c sp || Ascii.eqb c tab.

(** AsShipped: [re.match(r"^ *def ", line)].
    Fixed:     [re.match(r"^[ \t]*(async[ \t]+)?def[ \t]", line)]. *)
Definition after_def (r : bytes) : bool :=
  match starts_with (b "def") r with
  | Some (c :: _) => is_blank c
  | _ => false
  end.

Definition is_def_line (v : variant) (l : bytes) : bool :=
  match v with
  | AsShipped =>
      match starts_with (b "def ") (skip is_sp l) with Some _ => true | None => false end
  | Fixed =>
      let r := skip is_blank l in
      match starts_with (b "async") r with
      | Some (c :: r') => if is_blank c then after_def (skip is_blank r') else false
      | Some [] => false
      | None => after_def r
      end
  end.

Fixpoint drop_until (f : bytes -> bool) (ls : list bytes) : option (list bytes) :=
  match ls with
  | [] => None
  | l :: r => if f l then Some ls else drop_until f r
  end.

(** [get_func_source] applied to what [inspect.getsource] returned *)
Definition trim_source (v : variant) (s : bytes) : bytes :=
  match drop_until (is_def_line v) (lines s) with
  | Some suf => join_nl suf
  | None => s
  end.

(** * Sorting hash strings ([sorted] on str = byte order on UTF-8) *)
Definition bytes_leb (x y : bytes) : bool := negb (bytes_ltb y x).

Fixpoint insert_b (x : bytes) (l : list bytes) : list bytes :=
  match l with
  | [] => [x]
  | y :: r => if bytes_leb x y then x :: l else y :: insert_b x r
  end.

Fixpoint sort_b (l : list bytes) : list bytes :=
  match l with
  | [] => []
  | x :: r => insert_b x (sort_b r)
  end.

(** * Python dicts with str keys, insertion ordered *)
Fixpoint dict_set {A} (k : bytes) (v : A) (l : list (bytes * A)) : list (bytes * A) :=
  match l with
  | [] => [(k, v)]
  | (k', v') :: r => if bytes_eqb k k' then (k, v) :: r else (k', v') :: dict_set k v r
  end.

(** [{**a, **upd}] *)
Definition dict_update {A} (a upd : list (bytes * A)) : list (bytes * A) :=
  fold_left (fun acc kv => dict_set (fst kv) (snd kv) acc) upd a.

(** The keyword arguments the clone constructors may forward. *)
Inductive kwarg :=
| KwName | KwNamespace | KwVersion | KwCompat | KwScript | KwSource | KwBase | KwOverride | KwExport
| KwIncludes.

Definition kwarg_eqb (x y : kwarg) : bool :=
  match x, y with
  | KwName, KwName | KwNamespace, KwNamespace | KwVersion, KwVersion | KwCompat, KwCompat
  | KwScript, KwScript | KwSource, KwSource | KwBase, KwBase | KwOverride, KwOverride
  | KwExport, KwExport | KwIncludes, KwIncludes => true
  | _, _ => false
  end.

Definition has_kw (k : kwarg) (l : list kwarg) : bool := existsb (kwarg_eqb k) l.

(** kwargs of [self.__class__(self.func, ...)] in [Task.options] (export_options=set(self._export_options):
    a copy of the current export set) *)
Definition fwd_options (v : variant) : list kwarg :=
  [KwName; KwNamespace; KwVersion; KwCompat; KwScript; KwSource; KwBase; KwOverride; KwExport]
  ++ match v with AsShipped => [] | Fixed => [KwIncludes] end.

(** ... and in [Task.export_options] *)
Definition fwd_export (v : variant) : list kwarg :=
  [KwName; KwNamespace; KwVersion; KwCompat; KwScript; KwSource; KwBase; KwOverride; KwExport]
  ++ match v with AsShipped => [] | Fixed => [KwIncludes] end.

Section TaskHash.
  Variable H : bytes -> bytes.
  Variable value : Type.
  Variable vhash : value -> bytes.
  Definition opts := list (bytes * value).
  Variable ohash : opts -> bytes.
  Variable sanitize : opts -> opts.
  Variable vt : variant.            (* which get_func_source *)

  (** An element of [hash_includes]: a plain value, or a Task (whose hash is the stored
      attribute [task.hash]). *)
  Inductive item := IVal (v : value) | ITask (stored_hash : bytes).
  Definition item_hash (i : item) : bytes :=
    match i with IVal v => vhash v | ITask h => h end.

  (** The Python function behind a task. *)
  Record pyfunc := {
    f_name : bytes;            (* func.__name__ *)
    f_namespace : bytes;       (* what compute_namespace(func, None) gives ("" if nothing) *)
    f_getsource : bytes        (* inspect.getsource(func) *)
  }.
  Definition get_func_source (f : pyfunc) : bytes := trim_source vt (f_getsource f).

  (** Attributes of a Task after [__init__]. [t_override] is the dict as it was when the hash
      was computed (before [_validate] rewrote it). *)
  Record task := {
    t_func : pyfunc;
    t_name : bytes;
    t_namespace : bytes;
    t_source : bytes;
    t_version : option bytes;
    t_compat : list bytes;
    t_script : bool;
    t_base : opts;
    t_override : opts;
    t_export : list bytes;
    t_includes : option (list item)
  }.

  Definition orelse {A} (o : option A) (d : A) : A := match o with Some x => x | None => d end.

  (** [Task.__init__] *)
  Definition mk_task (f : pyfunc) (name namespace version : option bytes) (compat : option (list bytes))
             (script : bool) (base override : option opts) (export : option (list bytes))
             (includes : option (list item)) (source : option bytes) : task :=
    {| t_func := f;
       t_name := match name with Some (c :: n) => c :: n | _ => f_name f end;   (* name or func.__name__ *)
       t_namespace := orelse namespace (f_namespace f);
       t_source := match source with Some s => s | None => get_func_source f end;
       t_version := version;
       t_compat := orelse compat [];
       t_script := script;
       t_base := orelse base [];
       t_override := orelse override [];
       t_export := orelse export [];
       t_includes := includes |}.

  (** [Task._format_fullname] *)
  Definition format_fullname (namespace name : bytes) : bytes :=
    match namespace with [] => name | _ :: _ => namespace ++ b "." ++ name end.
  Definition fullname (t : task) : bytes := format_fullname (t_namespace t) (t_name t).

  (** [if self.source: source = self.source else: source = get_func_source(self.func)] *)
  Definition eff_source (t : task) : bytes :=
    match t_source t with [] => get_func_source (t_func t) | _ :: _ => t_source t end.

  Definition identity_fields (t : task) : list data :=
    BStr (fullname t) ::
    match t_version t with
    | None => [BStr (b "source"); BStr (eff_source t)]
    | Some v => [BStr (b "version"); BStr v]
    end.

  (** [sorted(map(get_hash, self._hash_includes))] if truthy else [[]] *)
  Definition includes_hashes (t : task) : list bytes :=
    match t_includes t with None => [] | Some l => sort_b (map item_hash l) end.

  (** [[get_hash(self._task_options_override)]] if truthy else [[]] *)
  Definition options_hashes (o : opts) : list bytes :=
    match o with [] => [] | _ :: _ => [ohash o] end.

  Definition task_fields (t : task) (o : opts) : list data :=
    identity_fields t ++ map BStr (includes_hashes t) ++ map BStr (options_hashes o).

  Definition task_pre_with (t : task) (o : opts) : bytes := pre_struct (layout (b "Task") (task_fields t o)).

  Definition task_calc_with (t : task) (o : opts) : bytes :=
    match t_compat t with
    | c :: _ => c
    | [] => H (task_pre_with t o)
    end.

  (** [Task.hash]: computed by [__init__] on the override dict as passed *)
  Definition task_pre (t : task) : bytes := task_pre_with t (t_override t).
  Definition task_hash (t : task) : bytes := task_calc_with t (t_override t).
  (** [task._calc_hash()] called later: sees the dict rewritten by [_validate] *)
  Definition task_calc_now (t : task) : bytes := task_calc_with t (sanitize (t_override t)).

  (** * Clone constructors *)
  Definition fw {A} (k : kwarg) (fwd : list kwarg) (x : A) : option A :=
    if has_kw k fwd then Some x else None.

  Definition derive (fwd : list kwarg) (t : task) (new_override : opts) (new_export : list bytes) : task :=
    mk_task (t_func t)
            (fw KwName fwd (t_name t))
            (fw KwNamespace fwd (t_namespace t))
            (if has_kw KwVersion fwd then t_version t else None)
            (fw KwCompat fwd (t_compat t))
            (if has_kw KwScript fwd then t_script t else false)
            (fw KwBase fwd (t_base t))
            (fw KwOverride fwd new_override)
            (fw KwExport fwd new_export)
            (if has_kw KwIncludes fwd then t_includes t else None)
            (fw KwSource fwd (t_source t)).

  Definition new_override (t : task) (upd : opts) : opts := dict_update (sanitize (t_override t)) upd.

  Definition options (vf : variant) (t : task) (upd : opts) : task :=
    derive (fwd_options vf) t (new_override t upd) (t_export t).

  Definition export_keys (t : task) (upd : opts) : list bytes :=
    t_export t ++ map fst upd
    ++ (if existsb (fun k => bytes_eqb k (b "cache")) (t_export t ++ map fst upd) then [b "cache_scope"] else []).

  Definition export_options (vf : variant) (t : task) (upd : opts) : task :=
    derive (fwd_export vf) t (new_override t upd) (export_keys t upd).

  (** [update_context]: [self.options(_context_override=merged)]; the merge itself is C26 *)
  Definition update_context (vf : variant) (t : task) (merged : value) : task :=
    options vf t [(b "_context_override", merged)].

  (** * wraps_task: the visible task takes the hidden task's name and carries the hidden
        task (by its stored hash) as the last element of its hash_includes. *)
  Definition wrap (wrapper_body : pyfunc) (wrapper_includes : list item) (wbase : opts) (inner : task) : task :=
    mk_task wrapper_body (Some (t_name inner)) (Some (t_namespace inner)) None None false
            (Some wbase) None None
            (Some (wrapper_includes ++ [ITask (task_hash inner)])) None.

  (** * hash_arguments *)
  Definition hashed_kwargs (kwargs : list (bytes * value)) : list (bytes * data) :=
    map (fun kv => (fst kv, BStr (vhash (snd kv)))) kwargs.

  Definition args_pre (args : list value) (kwargs : list (bytes * value)) : bytes :=
    pre_struct (layout (b "TaskArguments")
                       [BList (map (fun v => BStr (vhash v)) args); BDict (sort_kvs (hashed_kwargs kwargs))]).
  Definition args_hash (args : list value) (kwargs : list (bytes * value)) : bytes := H (args_pre args kwargs).

  (** * PartialTask *)
  Record ptask := { p_task : task; p_args : list value; p_kwargs : list (bytes * value) }.

  Definition partial_pre (p : ptask) : bytes :=
    pre_struct (layout (b "PartialTask")
                       [BStr (task_calc_now (p_task p)); BStr (args_hash (p_args p) (p_kwargs p))]).
  Definition partial_hash (p : ptask) : bytes := H (partial_pre p).

  Definition partial (t : task) (args : list value) (kwargs : list (bytes * value)) : ptask :=
    {| p_task := t; p_args := args; p_kwargs := kwargs |}.
  Definition partial_more (p : ptask) (args : list value) (kwargs : list (bytes * value)) : ptask :=
    {| p_task := p_task p; p_args := p_args p ++ args; p_kwargs := dict_update (p_kwargs p) kwargs |}.
  Definition partial_options (vf : variant) (p : ptask) (upd : opts) : ptask :=
    partial (options vf (p_task p) upd) (p_args p) (p_kwargs p).
End TaskHash.

(* [value] is implicit everywhere *)
Arguments t_func {value} _.
Arguments t_name {value} _.
Arguments t_namespace {value} _.
Arguments t_source {value} _.
Arguments t_version {value} _.
Arguments t_compat {value} _.
Arguments t_script {value} _.
Arguments t_base {value} _.
Arguments t_override {value} _.
Arguments t_export {value} _.
Arguments t_includes {value} _.
Arguments p_task {value} _.
Arguments p_args {value} _.
Arguments p_kwargs {value} _.
Arguments IVal {value} _.
Arguments ITask {value} _.
Arguments Build_task {value}.
Arguments Build_ptask {value}.
Arguments item_hash {value}.
Arguments mk_task {value}.
Arguments fullname {value}.
Arguments eff_source {value}.
Arguments identity_fields {value}.
Arguments includes_hashes {value}.
Arguments options_hashes {value}.
Arguments task_fields {value}.
Arguments task_pre_with {value}.
Arguments task_calc_with H {value}.
Arguments task_pre {value}.
Arguments task_hash H {value}.
Arguments task_calc_now H {value}.
Arguments derive {value}.
Arguments new_override {value}.
Arguments options {value}.
Arguments export_keys {value}.
Arguments export_options {value}.
Arguments update_context {value}.
Arguments wrap H {value}.
Arguments hashed_kwargs {value}.
Arguments args_pre {value}.
Arguments args_hash H {value}.
Arguments partial_pre H {value}.
Arguments partial_hash H {value}.
Arguments partial {value}.
Arguments partial_more {value}.
Arguments partial_options {value}.

(** * Description of the source that the translator regenerates (tie: [gen = describe vt vf]). *)
Inductive field :=
| FLit (s : bytes)          (* a string literal *)
| FFullname                 (* self.fullname *)
| FSource                   (* the local [source] *)
| FVersion                  (* self.version *)
| FIncludes                 (* + hash_includes_hash *)
| FOptions                  (* + task_options_hash *)
| FInnerCalc                (* self.task._calc_hash() *)
| FArgsHash.                (* hash_arguments(get_type_registry(), self.args, self.kwargs) *)

Record description := {
  d_compat_first : bool;               (* [if self.compat: return self.compat[0]] comes first *)
  d_options_guard : bool;              (* options hashed (one element, get_hash of the override dict) iff the dict is truthy *)
  d_includes_guard_sorted : bool;      (* includes hashed iff truthy, as sorted(map(get_hash, ...)) *)
  d_version_none_test : bool;          (* [if self.version is None] selects the source layout *)
  d_source_fallback : bool;            (* [self.source] if truthy else get_func_source(self.func) *)
  d_unversioned : list field;
  d_versioned : list field;
  d_partial : list field;
  d_fullname_sep : bytes;              (* namespace + sep + name when namespace is truthy *)
  d_hash_before_validate : bool;       (* __init__: recompute_hash() precedes _validate() *)
  d_trim : variant;
  d_fwd_options : list kwarg;
  d_fwd_export : list kwarg;
  d_options_merge : bool;              (* both clone constructors build {**override, **update} *)
  d_partial_init_name_namespace : bool;(* PartialTask.__init__ passes only name, namespace *)
  d_wrap_includes_inner_last : bool    (* wraps_task: hash_includes=wrapper_hash_includes + [hidden_inner_task] *)
}.

Definition describe (vt vf : variant) : description := {|
  d_compat_first := true;
  d_options_guard := true;
  d_includes_guard_sorted := true;
  d_version_none_test := true;
  d_source_fallback := true;
  d_unversioned := [FLit (b "Task"); FFullname; FLit (b "source"); FSource; FIncludes; FOptions];
  d_versioned := [FLit (b "Task"); FFullname; FLit (b "version"); FVersion; FIncludes; FOptions];
  d_partial := [FLit (b "PartialTask"); FInnerCalc; FArgsHash];
  d_fullname_sep := b ".";
  d_hash_before_validate := true;
  d_trim := vt;
  d_fwd_options := fwd_options vf;
  d_fwd_export := fwd_export vf;
  d_options_merge := true;
  d_partial_init_name_namespace := true;
  d_wrap_includes_inner_last := true
|}.

(** * Glue for the correspondence run: table-backed instances of the abstract functions. *)
Fixpoint lookup_b {A} (k : bytes) (t : list (bytes * A)) : option A :=
  match t with
  | [] => None
  | (k', v) :: r => if bytes_eqb k k' then Some v else lookup_b k r
  end.

Definition tbl_fun (t : list (bytes * bytes)) (x : bytes) : bytes :=
  match lookup_b x t with Some d => d | None => [] end.

Fixpoint opts_eqb (x y : list (bytes * bytes)) : bool :=
  match x, y with
  | [], [] => true
  | (k, v) :: x', (k', v') :: y' => bytes_eqb k k' && bytes_eqb v v' && opts_eqb x' y'
  | _, _ => false
  end.

Fixpoint lookup_o {A} (k : list (bytes * bytes)) (t : list (list (bytes * bytes) * A)) : option A :=
  match t with
  | [] => None
  | (k', v) :: r => if opts_eqb k k' then Some v else lookup_o k r
  end.

Definition tbl_ohash (t : list (list (bytes * bytes) * bytes)) (o : list (bytes * bytes)) : bytes :=
  match lookup_o o t with Some d => d | None => [] end.

(** [sanitize] from a table; dicts not in the table are left alone *)
Definition tbl_sanitize (t : list (list (bytes * bytes) * list (bytes * bytes))) (o : list (bytes * bytes))
  : list (bytes * bytes) :=
  match lookup_o o t with Some d => d | None => o end.
