(** Record kinds of redun's content-addressed hashes and the leading type tag of each
    pre-image — data only, no proofs.
    A site is a call of hash_struct([tag, ...]) ([FStruct]), of hash_tag_bytes(tag, bytes)
    ([FTagBytes]) or a hash_struct call whose argument carries no leading tag ([FUntagged]:
    the digest of the sorted export-option names, used only as a field of the
    TaskExpression record).  translate/tr_evalkey.py regenerates the (site, form, tag) list
    from /repo; the record kind of each site is assigned here. *)
From Coq Require Import List Ascii String.
From RV Require Import Base.Decimal Model.Bencode Base.HashSpec.
Import ListNotations.
Local Open Scope string_scope.

Inductive pre_form := FStruct | FTagBytes | FUntagged.

Record tag_site := { ts_kind : string; ts_site : string; ts_form : pre_form; ts_tag : string }.
Definition site_of (s : tag_site) : string * pre_form * string := (ts_site s, ts_form s, ts_tag s).
Definition S_ (k site : string) (f : pre_form) (t : string) : tag_site :=
  {| ts_kind := k; ts_site := site; ts_form := f; ts_tag := t |}.

Definition shipped_sites : list tag_site := [
  S_ "Argument" "redun.backends.db.__init__:RedunBackendDb._record_args" FStruct "Argument";
  S_ "(field) export option names" "redun.expression:TaskExpression._calc_hash" FUntagged "list(sorted(self._export_options))";
  S_ "TaskExpression" "redun.expression:TaskExpression._calc_hash" FStruct "TaskExpression";
  S_ "SimpleExpression" "redun.expression:SimpleExpression._calc_hash" FStruct "SimpleExpression";
  S_ "SchedulerExpression" "redun.expression:SchedulerExpression._calc_hash" FStruct "SchedulerExpression";
  S_ "(field) export option names" "redun.expression:SchedulerExpression._calc_hash" FUntagged "list(sorted(self._export_options))";
  S_ "ValueExpression" "redun.expression:ValueExpression._calc_hash" FStruct "ValueExpression";
  S_ "File" "redun.file:LocalFileSystem.get_hash" FStruct "File";
  S_ "File" "redun.file:FsspecFileSystem.get_hash" FStruct "File";
  S_ "File" "redun.file:S3FileSystem.iter_file_hashes" FStruct "File";
  S_ "File" "redun.file:S3FileSystem.get_hash" FStruct "File";
  S_ "File" "redun.file:AzureBlobFileSystem.get_hash" FStruct "File";
  S_ "FileSet" "redun.file:FileSet._calc_hash@FileSet" FStruct "FileSet";
  S_ "ContentFileSet" "redun.file:FileSet._calc_hash@ContentFileSet" FStruct "ContentFileSet";
  S_ "Dir" "redun.file:FileSet._calc_hash@Dir" FStruct "Dir";
  S_ "IFileSet" "redun.file:FileSet._calc_hash@IFileSet" FStruct "IFileSet";
  S_ "ContentDir" "redun.file:FileSet._calc_hash@ContentDir" FStruct "ContentDir";
  S_ "IDir" "redun.file:FileSet._calc_hash@IDir" FStruct "IDir";
  S_ "Dir" "redun.file:Dir._calc_hash@Dir" FStruct "Dir";
  S_ "ContentDir" "redun.file:Dir._calc_hash@ContentDir" FStruct "ContentDir";
  S_ "IDir" "redun.file:Dir._calc_hash@IDir" FStruct "IDir";
  S_ "StagingFile" "redun.file:StagingFile.get_hash@StagingFile" FStruct "redun.StagingFile";
  S_ "ContentStagingFile" "redun.file:StagingFile.get_hash@ContentStagingFile" FStruct "redun.ContentStagingFile";
  S_ "IStagingFile" "redun.file:StagingFile.get_hash@IStagingFile" FStruct "redun.IStagingFile";
  S_ "StagingDir" "redun.file:StagingDir.get_hash@StagingDir" FStruct "redun.StagingDir";
  S_ "ContentStagingDir" "redun.file:StagingDir.get_hash@ContentStagingDir" FStruct "redun.ContentStagingDir";
  S_ "IStagingDir" "redun.file:StagingDir.get_hash@IStagingDir" FStruct "redun.IStagingDir";
  S_ "IFile" "redun.file:IFile._calc_hash@IFile" FStruct "IFile";
  S_ "IFileSet" "redun.file:IFileSet._calc_hash@IFileSet" FStruct "IFileSet";
  S_ "IDir" "redun.file:IDir._calc_hash@IDir" FStruct "IDir";
  S_ "ContentFile" "redun.file:ContentFile._calc_hash@ContentFile" FStruct "ContentFile";
  S_ "ContentDir" "redun.file:ContentDir._calc_hash@ContentDir" FStruct "ContentDir";
  S_ "ShardedS3Dataset" "redun.file:ShardedS3Dataset._calc_hash" FStruct "ShardedS3Dataset";
  S_ "Handle" "redun.handle:Handle.HandleInfo.get_hash" FStruct "Handle";
  S_ "TaskArguments" "redun.hashing:hash_arguments" FStruct "TaskArguments";
  S_ "Eval" "redun.hashing:hash_eval" FStruct "Eval";
  S_ "Tag" "redun.hashing:hash_tag" FStruct "Tag";
  S_ "CallNode" "redun.hashing:hash_call_node" FStruct "CallNode";
  S_ "ErrorValue" "redun.scheduler:ErrorValue.get_hash" FStruct "redun.ErrorValue";
  S_ "Thread" "redun.scheduler:Thread.__init__" FStruct "Thread";
  S_ "Task" "redun.task:Task._calc_hash" FStruct "Task";
  S_ "PartialTask" "redun.task:PartialTask._calc_hash" FStruct "PartialTask";
  S_ "Value (pickled)" "redun.value:Value.get_hash" FTagBytes "Value";
  S_ "Value (pickled)" "redun.value:ProxyValue.get_hash" FTagBytes "Value";
  S_ "Value.set" "redun.value:Set.get_hash" FTagBytes "Value.set";
  S_ "Value.function" "redun.value:Function._calc_hash" FStruct "Value.function"
]%list.

(** Tie with the regenerated site list: every site found in the source is a row of the table,
    or is a class-resolved site "...@K" (kind = the class K, assigned by the translator from the
    class whose attribute supplies the tag) whose (kind, form, tag) already occurs in the table.
    Rows of the table that no longer occur in the source only make the swept set larger. *)
Fixpoint after_at (s : string) : option string :=
  match s with
  | EmptyString => None
  | String c r => match after_at r with
                  | Some x => Some x
                  | None => if Ascii.eqb c "@"%char then Some r else None
                  end
  end.
Definition form_eqb (a b : pre_form) : bool :=
  match a, b with FStruct, FStruct | FTagBytes, FTagBytes | FUntagged, FUntagged => true | _, _ => false end.
Definition site_covered (table : list tag_site) (g : string * pre_form * string) : bool :=
  let '(site, f, t) := g in
  orb (existsb (fun s => andb (andb (String.eqb (ts_site s) site) (form_eqb (ts_form s) f)) (String.eqb (ts_tag s) t)) table)
      (match after_at site with
       | Some k => existsb (fun s => andb (andb (String.eqb (ts_kind s) k) (form_eqb (ts_form s) f)) (String.eqb (ts_tag s) t)) table
       | None => false
       end).
Definition sites_covered (gen : list (string * pre_form * string)) (table : list tag_site) : bool :=
  forallb (site_covered table) gen.

Definition tagged (s : tag_site) : bool := match ts_form s with FUntagged => false | _ => true end.
Definition tag_bytes (s : tag_site) : bytes := list_ascii_of_string (ts_tag s).

(** the bytes fed to the hash function at a site, for arbitrary fields / payload *)
Definition pre_of (f : pre_form) (tag : bytes) (fields : list data) (payload : bytes) : bytes :=
  match f with
  | FStruct => pre_struct (layout tag fields)
  | FTagBytes => pre_tag_bytes tag payload
  | FUntagged => pre_struct (BList fields)
  end.

(** decision procedure swept by the kernel: equal tags only within one record kind *)
Definition kinds_separated (l : list tag_site) : bool :=
  forallb (fun s1 => forallb (fun s2 =>
     orb (negb (andb (andb (tagged s1) (tagged s2)) (String.eqb (ts_tag s1) (ts_tag s2))))
         (String.eqb (ts_kind s1) (ts_kind s2))) l) l.
