(** C20 — recording of the call graph by the scheduler (executable model, no proofs).

    What is modelled (redun/hashing.py, redun/scheduler.py, redun/backends/db/__init__.py):
    - [hash_call_node]: H (bencode [tag; task; args; result; sorted children]) — the layout
      (tag, field order, sorting) is a configuration extracted by translate/tr_callgraph.py;
    - [Scheduler._resolve_job_main_thread] / [_reject_job_main_thread]: the child hashes are those of
      the entries of [job.child_jobs] that carry a call hash at that moment; a job that adopted a call
      hash (cache hit, collapsed twin) records no node when it resolves; the reject path records a
      node unconditionally ([reject_adopts = false], as shipped) ;
    - [RedunBackendDb.record_call_node]: the node row and its edges are written only when the hash is
      new; an edge only for a child hash that is a recorded node at that time (prov=False children
      are hashed but not recorded); [call_order] is the index in the list of child hashes;
    - [record_job_start] / [record_job_end]: Job rows with parent, execution, task, call hash, cached;
      the Execution row names the parentless job; foreign keys are enforced (a Job row naming an
      unrecorded node kills the scheduler with IntegrityError: [dead]);
    - [_record_job_tags] / [record_tags]: value, job (task-option tags ++ applied job tags, one call),
      execution and task tags; a pair listed twice in one call violates the primary key of [tag]
      unless the rows already exist ([tags_dedupe = false], as shipped);
    - [_pending_jobs] registration at submission ([reg_guard]: only jobs whose cache_scope is not
      NONE, which excludes prov=False jobs) and collapsing into a registered twin.
    Not modelled: arguments / upstream rows (C21), subtree tasks (C03), values (C16), commit
    segmentation and retries (C22), the decision *whether* a job is a cache hit (C01/C06): adoption is
    an input of the finishing event, valid only if the adopted node is recorded (cache) or the twin is
    registered. *)
From Coq Require Import List Arith Bool Ascii PeanoNat.
From RV Require Import Base.Decimal Model.Bencode.
Import ListNotations.
Open Scope list_scope.

Definition hash := bytes.

(* ------------------------------------------------------------------ layout of hash_call_node *)
Inductive fld := FTask | FArgs | FResult | FChildren.
Record layout_cfg := { l_tag : bytes; l_fields : list fld; l_sorted : bool }.

Definition callnode_tag : bytes :=
  ["C";"a";"l";"l";"N";"o";"d";"e"]%char.
Definition shipped_layout : layout_cfg :=
  {| l_tag := callnode_tag; l_fields := [FTask; FArgs; FResult; FChildren]; l_sorted := true |}.

(** [sorted(list of str)]: insertion sort, stable, by byte order. *)
Fixpoint insert_b (x : bytes) (l : list bytes) : list bytes :=
  match l with
  | [] => [x]
  | y :: r => if bytes_ltb x y then x :: l else y :: insert_b x r
  end.
Fixpoint sort_b (l : list bytes) : list bytes :=
  match l with [] => [] | x :: r => insert_b x (sort_b r) end.

Definition fld_data (L : layout_cfg) (t a r : hash) (cs : list hash) (f : fld) : data :=
  match f with
  | FTask => BStr t
  | FArgs => BStr a
  | FResult => BStr r
  | FChildren => BList (map BStr (if l_sorted L then sort_b cs else cs))
  end.

Definition call_data (L : layout_cfg) (t a r : hash) (cs : list hash) : data :=
  BList (BStr (l_tag L) :: map (fld_data L t a r cs) (l_fields L)).

Definition call_pre (L : layout_cfg) (t a r : hash) (cs : list hash) : bytes := enc (call_data L t a r cs).

(* ------------------------------------------------------------------ configuration *)
Record cfg := {
  layout : layout_cfg;
  reg_guard : bool;       (* _pending_jobs registration only when cache_scope <> NONE *)
  reject_adopts : bool;   (* _reject_job_main_thread keeps a call hash the job already adopted *)
  tags_dedupe : bool      (* record_tags tolerates one pair listed twice in one call *)
}.
Definition shipped_cfg : cfg :=
  {| layout := shipped_layout; reg_guard := true; reject_adopts := false; tags_dedupe := false |}.
Definition fixed_cfg : cfg :=
  {| layout := shipped_layout; reg_guard := true; reject_adopts := true; tags_dedupe := true |}.

(** Order of the recording calls on the provenance paths of _resolve_job_main_thread (fresh node, then the
    part common with replayed jobs) and _reject_job_main_thread, as [finish] below performs them;
    translate/tr_callgraph.py extracts the same lists from the source and the tie compares them. *)
Inductive rec_call := RValue | RNode | RContext | RTags | REnd.
Definition resolve_fresh_order : list rec_call := [RValue; RNode; RTags].
Definition resolve_common_order : list rec_call := [RContext; RTags; REnd].
Definition reject_order : list rec_call := [RValue; RNode; RContext; RTags; REnd].

(* ------------------------------------------------------------------ tables *)
Record cnrow := { cn_hash : hash; cn_task : hash; cn_args : hash; cn_value : hash }.
Record jobrow := { jr_id : nat; jr_parent : option nat; jr_exec : nat; jr_task : hash;
                   jr_call : option hash; jr_cached : bool; jr_ended : bool }.
Inductive ent := EntValue (h : hash) | EntJob (j : nat) | EntExec (e : nat) | EntTask (h : hash).
Definition tagrow := (ent * nat)%type.      (* entity, interned (key, value) pair *)

Record jobinfo := { ji_id : nat; ji_parent : option nat; ji_exec : nat; ji_task : hash; ji_prov : bool;
                    ji_task_tags : list nat }.

Record st := {
  cns : list cnrow;
  edges : list (hash * hash * nat);       (* parent, child, call_order *)
  jobs : list jobrow;
  execs : list (nat * nat);               (* execution, its root job *)
  tags : list tagrow;
  infos : list jobinfo;                   (* runtime: Job objects *)
  jh : list (nat * hash);                 (* runtime: job.call_hash *)
  registered : list nat;                  (* runtime: jobs that were put into _pending_jobs *)
  dead : bool                             (* the scheduler died with IntegrityError *)
}.
Definition init : st :=
  {| cns := []; edges := []; jobs := []; execs := []; tags := []; infos := []; jh := []; registered := [];
     dead := false |}.

Inductive adopt := ACache (h : hash) | ATwin (k : nat).

Inductive ev :=
| EStart (i : jobinfo)                    (* _exec_job_main_thread: record_job_start when prov; job ids are fresh *)
| ESubmit (j : nat) (nocse : bool)        (* handed to an executor: _pending_jobs registration *)
| EAdopt (j : nat) (ad : adopt)           (* job.call_hash := hash given by the cache / carried by the twin *)
| EFinish (j : nat) (ok : bool) (cached : bool) (args result : hash) (children : list nat)
          (vtags : list (hash * list nat)) (jtags etags : list nat)
| ENewRun.                                (* a new Scheduler on the same database: runtime state is fresh *)

(* ------------------------------------------------------------------ helpers *)
Definition opt_nat_eqb (a b : option nat) : bool :=
  match a, b with Some x, Some y => Nat.eqb x y | None, None => true | _, _ => false end.
Definition ent_eqb (a b : ent) : bool :=
  match a, b with
  | EntValue x, EntValue y => bytes_eqb x y
  | EntJob x, EntJob y => Nat.eqb x y
  | EntExec x, EntExec y => Nat.eqb x y
  | EntTask x, EntTask y => bytes_eqb x y
  | _, _ => false
  end.
Definition tag_eqb (a b : tagrow) : bool := ent_eqb (fst a) (fst b) && Nat.eqb (snd a) (snd b).
Definition mem_h (h : hash) (l : list hash) : bool := existsb (bytes_eqb h) l.
Definition mem_n (n : nat) (l : list nat) : bool := existsb (Nat.eqb n) l.
Definition mem_tag (t : tagrow) (l : list tagrow) : bool := existsb (tag_eqb t) l.
Definition node_hashes (s : st) : list hash := map cn_hash (cns s).
Definition recorded (s : st) (h : hash) : bool := mem_h h (node_hashes s).

Fixpoint lookup_info (j : nat) (l : list jobinfo) : option jobinfo :=
  match l with [] => None | i :: r => if Nat.eqb (ji_id i) j then Some i else lookup_info j r end.
Fixpoint lookup_jh (j : nat) (l : list (nat * hash)) : option hash :=
  match l with [] => None | (k, h) :: r => if Nat.eqb k j then Some h else lookup_jh j r end.

(** [child_call_hashes]: the entries of job.child_jobs that carry a call hash. *)
Fixpoint child_hashes (l : list (nat * hash)) (children : list nat) : list hash :=
  match children with
  | [] => []
  | c :: r => match lookup_jh c l with Some h => h :: child_hashes l r | None => child_hashes l r end
  end.

(** Edges written by record_call_node: position i of the child hash list, only for recorded nodes. *)
Fixpoint new_edges (known : list hash) (p : hash) (i : nat) (cs : list hash) : list (hash * hash * nat) :=
  match cs with
  | [] => []
  | c :: r => if mem_h c known then (p, c, i) :: new_edges known p (S i) r else new_edges known p (S i) r
  end.

Fixpoint has_dup (l : list tagrow) : bool :=
  match l with [] => false | t :: r => mem_tag t r || has_dup r end.
Fixpoint add_tags (l : list tagrow) (tb : list tagrow) : list tagrow :=
  match l with [] => tb | t :: r => add_tags r (if mem_tag t tb then tb else tb ++ [t]) end.

(** One call of record_tags: rows that exist already are skipped; two new equal rows in one flush
    violate the primary key. Returns the table and whether the call raised. *)
Definition record_tags (dedupe : bool) (e : ent) (ts : list nat) (tb : list tagrow) : list tagrow * bool :=
  let rows := map (fun t => (e, t)) ts in
  let fresh := filter (fun t => negb (mem_tag t tb)) rows in
  if negb dedupe && has_dup fresh then (tb, true) else (add_tags rows tb, false).

Fixpoint record_value_tags (dedupe : bool) (vt : list (hash * list nat)) (tb : list tagrow) : list tagrow * bool :=
  match vt with
  | [] => (tb, false)
  | (h, ts) :: r => let '(tb1, d) := record_tags dedupe (EntValue h) ts tb in
                    if d then (tb1, true) else record_value_tags dedupe r tb1
  end.

(** _record_job_tags *)
Definition record_job_tags (dedupe : bool) (i : jobinfo) (vt : list (hash * list nat)) (jt et : list nat)
           (tb : list tagrow) : list tagrow * bool :=
  let '(t1, d1) := record_value_tags dedupe vt tb in
  if d1 then (t1, true) else
  let '(t2, d2) := record_tags dedupe (EntJob (ji_id i)) jt t1 in
  if d2 then (t2, true) else
  let '(t3, d3) := record_tags dedupe (EntExec (ji_exec i)) et t2 in
  if d3 then (t3, true) else
  record_tags dedupe (EntTask (ji_task i)) (ji_task_tags i) t3.

Definition set_jh (j : nat) (h : hash) (l : list (nat * hash)) : list (nat * hash) := (j, h) :: l.

Definition has_job (j : nat) (l : list jobrow) : bool := existsb (fun r => Nat.eqb (jr_id r) j) l.

(** record_job_start *)
Definition job_start (i : jobinfo) (s : st) : st :=
  if has_job (ji_id i) (jobs s) then s else
  {| cns := cns s; edges := edges s;
     jobs := jobs s ++ [{| jr_id := ji_id i; jr_parent := ji_parent i; jr_exec := ji_exec i; jr_task := ji_task i;
                           jr_call := None; jr_cached := false; jr_ended := false |}];
     execs := match ji_parent i with None => execs s ++ [(ji_exec i, ji_id i)] | Some _ => execs s end;
     tags := tags s; infos := infos s; jh := jh s; registered := registered s; dead := dead s |}.

Fixpoint end_row (j : nat) (h : option hash) (cached : bool) (l : list jobrow) : list jobrow :=
  match l with
  | [] => []
  | r :: q => if Nat.eqb (jr_id r) j
              then {| jr_id := jr_id r; jr_parent := jr_parent r; jr_exec := jr_exec r; jr_task := jr_task r;
                      jr_call := h; jr_cached := cached; jr_ended := true |} :: q
              else r :: end_row j h cached q
  end.

(** record_job_end (creates the row if needed); the call hash is a foreign key. *)
Definition job_end (i : jobinfo) (h : option hash) (cached : bool) (s : st) : st :=
  let s1 := job_start i s in
  let fk_ok := match h with Some x => recorded s1 x | None => true end in
  if fk_ok then
    {| cns := cns s1; edges := edges s1; jobs := end_row (ji_id i) h cached (jobs s1); execs := execs s1;
       tags := tags s1; infos := infos s1; jh := jh s1; registered := registered s1; dead := dead s1 |}
  else
    {| cns := cns s1; edges := edges s1; jobs := jobs s1; execs := execs s1; tags := tags s1; infos := infos s1;
       jh := jh s1; registered := registered s1; dead := true |}.

Definition is_newrun (e : ev) : bool := match e with ENewRun => true | _ => false end.

Section WithHash.
  Variable H : bytes -> hash.
  Variable C : cfg.

  Definition call_hash (t a r : hash) (cs : list hash) : hash := H (call_pre (layout C) t a r cs).

  (** record_call_node *)
  Definition record_node (t a r : hash) (cs : list hash) (s : st) : hash * st :=
    let h := call_hash t a r cs in
    if recorded s h then (h, s) else
    (h, {| cns := cns s ++ [{| cn_hash := h; cn_task := t; cn_args := a; cn_value := r |}];
           edges := edges s ++ new_edges (node_hashes s) h 0 cs;
           jobs := jobs s; execs := execs s; tags := tags s; infos := infos s; jh := jh s;
           registered := registered s; dead := dead s |}).

  Definition with_jh (s : st) (l : list (nat * hash)) : st :=
    {| cns := cns s; edges := edges s; jobs := jobs s; execs := execs s; tags := tags s; infos := infos s;
       jh := l; registered := registered s; dead := dead s |}.
  Definition with_tags (s : st) (tb : list tagrow) (d : bool) : st :=
    {| cns := cns s; edges := edges s; jobs := jobs s; execs := execs s; tags := tb; infos := infos s;
       jh := jh s; registered := registered s; dead := dead s || d |}.

  (** job.call_hash := ... before the job finishes: a cache hit names a recorded node; a collapsed job
      takes what its registered twin carries when the twin settles. *)
  Definition adopt_hash (s : st) (ad : adopt) : option hash :=
    match ad with
    | ACache h => if recorded s h then Some h else None
    | ATwin k => if mem_n k (registered s) then lookup_jh k (jh s) else None
    end.

  Definition finish (i : jobinfo) (ok cached : bool) (a r : hash)
             (children : list nat) (vt : list (hash * list nat)) (jt et : list nat) (s : st) : st :=
    let cs := child_hashes (jh s) children in
    let known := lookup_jh (ji_id i) (jh s) in
    let keep := match known with Some _ => if ok then true else reject_adopts C | None => false end in
    if ji_prov i then
      let '(h, s1) := match known, keep with
                      | Some h, true => (h, s)
                      | _, _ => record_node (ji_task i) a r cs s
                      end in
      let s2 := with_jh s1 (set_jh (ji_id i) h (jh s1)) in
      let '(tb, d) := record_job_tags (tags_dedupe C) i vt jt et (tags s2) in
      if d then with_tags s2 tb true else
      job_end i (Some h) cached (with_tags s2 tb false)
    else
      (* no provenance: nothing is recorded; a successful job still gets its call hash *)
      if ok then
        let h := match known with Some h => h | None => call_hash (ji_task i) a r cs end in
        with_jh s (set_jh (ji_id i) h (jh s))
      else s.

  Definition step (s : st) (e : ev) : st :=
    if dead s && negb (is_newrun e) then s else
    match e with
    | EStart i =>
        match lookup_info (ji_id i) (infos s) with
        | Some _ => s
        | None =>
            let s1 := {| cns := cns s; edges := edges s; jobs := jobs s; execs := execs s; tags := tags s;
                         infos := i :: infos s; jh := jh s; registered := registered s; dead := dead s |} in
            if ji_prov i then job_start i s1 else s1
        end
    | ESubmit j nocse =>
        match lookup_info j (infos s) with
        | None => s
        | Some i =>
            let out := nocse || negb (ji_prov i) in     (* prov=False forces cache_scope NONE *)
            if reg_guard C && out then s else
            {| cns := cns s; edges := edges s; jobs := jobs s; execs := execs s; tags := tags s; infos := infos s;
               jh := jh s; registered := j :: registered s; dead := dead s |}
        end
    | EAdopt j ad =>
        match lookup_info j (infos s), adopt_hash s ad with
        | Some _, Some h => with_jh s (set_jh j h (jh s))
        | _, _ => s
        end
    | EFinish j ok cached a r children vt jt et =>
        match lookup_info j (infos s) with
        | Some i => finish i ok cached a r children vt jt et s
        | None => s
        end
    | ENewRun =>
        {| cns := cns s; edges := edges s; jobs := jobs s; execs := execs s; tags := tags s; infos := [];
           jh := []; registered := []; dead := false |}
    end.

  Definition run (s : st) (evs : list ev) : st := fold_left step evs s.
End WithHash.

(* ------------------------------------------------------------------ comparison with a database dump *)
Definition cn_eqb (a b : cnrow) : bool :=
  bytes_eqb (cn_hash a) (cn_hash b) && bytes_eqb (cn_task a) (cn_task b) && bytes_eqb (cn_args a) (cn_args b)
  && bytes_eqb (cn_value a) (cn_value b).
Definition edge_eqb (a b : hash * hash * nat) : bool :=
  let '(p, c, i) := a in let '(p', c', i') := b in bytes_eqb p p' && bytes_eqb c c' && Nat.eqb i i'.
Definition opt_h_eqb (a b : option hash) : bool :=
  match a, b with Some x, Some y => bytes_eqb x y | None, None => true | _, _ => false end.
Definition job_eqb (a b : jobrow) : bool :=
  Nat.eqb (jr_id a) (jr_id b) && opt_nat_eqb (jr_parent a) (jr_parent b) && Nat.eqb (jr_exec a) (jr_exec b)
  && bytes_eqb (jr_task a) (jr_task b) && opt_h_eqb (jr_call a) (jr_call b) && Bool.eqb (jr_cached a) (jr_cached b)
  && Bool.eqb (jr_ended a) (jr_ended b).
Definition exec_eqb (a b : nat * nat) : bool := Nat.eqb (fst a) (fst b) && Nat.eqb (snd a) (snd b).

Definition same_set {A} (eqb : A -> A -> bool) (l m : list A) : bool :=
  Nat.eqb (length l) (length m) && forallb (fun x => existsb (eqb x) m) l && forallb (fun x => existsb (eqb x) l) m.

(** Hash function given by a finite table (pre-image, digest) computed outside with SHA-512. *)
Fixpoint table_hash (tbl : list (bytes * hash)) (b : bytes) : hash :=
  match tbl with
  | [] => []                       (* unknown pre-image: the empty digest never matches a real one *)
  | (p, h) :: r => if bytes_eqb p b then h else table_hash r b
  end.

Definition db_agrees (tbl : list (bytes * hash)) (C : cfg) (evs : list ev)
           (cn : list cnrow) (ed : list (hash * hash * nat)) (jb : list jobrow) (ex : list (nat * nat))
           (tg : list tagrow) (is_dead : bool) : bool :=
  let s := run (table_hash tbl) C init evs in
  same_set cn_eqb (cns s) cn && same_set edge_eqb (edges s) ed && same_set job_eqb (jobs s) jb
  && same_set exec_eqb (execs s) ex && same_set tag_eqb (tags s) tg && Bool.eqb (dead s) is_dead.
