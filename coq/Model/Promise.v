(** Executable model of redun/promise.py (Promise, Promise.all, wait_promises).

    A small-step machine over a heap of promises.  Python's call stack is an explicit
    stack of frames, so that re-entrant settlement / registration from inside callbacks is
    expressible.  User callbacks are reified as small programs ([func]).  The callbacks that
    promise.py itself registers (default propagation, adoption of a returned promise,
    Promise.all's then/fail, wait_promises' done) are primitive callback kinds, created only
    by the machine.

    The behaviour at the sites the translator extracts is driven by a [cfg] record;
    [shipped] is promise.py as it is, [fixed] is the repaired [_notify] (draining loop with
    a re-entrancy flag).  No proofs in this file. *)
From Coq Require Import List ZArith Bool Arith.
Import ListNotations.
Open Scope list_scope.

(* ------------------------------------------------------------------ values *)
Inductive val :=
| VInt (z : Z)
| VErr (z : Z)              (* an exception object, identified by a number *)
| VNone
| VProm (p : nat)           (* a Promise object (heap index = allocation order) *)
| VList (l : list val).

Inductive pstate := Pending | Fulfilled (v : val) | Rejected (e : val).

Inductive expr := EArg | EConst (v : val).
Inductive ending := Ret (e : expr) | Raise (z : Z).

(** Programs: top-level histories and bodies of user callbacks. *)
Inductive act :=
| ANew                                   (* Promise() *)
| AResolve (q : nat) (e : expr)          (* q.do_resolve(e) *)
| AReject (q : nat) (e : expr)           (* q.do_reject(e) *)
| AThen (q : nat) (f g : option func)    (* q.then(f, g); catch = then(None, g) *)
| AAll (ps : list nat)                   (* Promise.all([...]) *)
| AWait (ps : list nat)                  (* wait_promises([...]) *)
with func := Func (lbl : nat) (body : list act) (fin : ending).

Definition lbl_of (f : func) := match f with Func l _ _ => l end.
Definition body_of (f : func) := match f with Func _ b _ => b end.
Definition fin_of (f : func) := match f with Func _ _ e => e end.

(** What sits in [_resolvers] / [_rejectors]. [t], [c] are the child promise created by [then]. *)
Inductive cbk :=
| KDefRes (t : nat)                (* promise.do_resolve  (no resolver given) *)
| KDefRej (t : nat)                (* promise.do_reject   (no rejector given) *)
| KUser (f : func) (t : nat)       (* wrap_callback(user function) *)
| KAdoptRes (t c : nat)            (* wrap_callback(t.do_resolve), from result2.then(...) *)
| KAdoptRej (t c : nat)            (* wrap_callback(t.do_reject) *)
| KAllThen (a i c : nat)           (* wrap_callback(make_then(i)) of all-record a *)
| KAllFail (a c : nat)             (* wrap_callback(fail) *)
| KWaitDone (w c : nat).           (* wrap_callback(done) *)

Record cb := mkcb { rid : nat; kind : cbk }.   (* rid: ghost registration number (one per then call) *)

Record prom := mkprom { st : pstate; ress : list cb; rejs : list cb; busy : bool }.
Record allrec := mkall { a_prom : nat; a_results : list (option val); a_done : nat }.
Record waitrec := mkwait { w_prom : nat; w_subs : list nat; w_done : nat }.

Inductive cont := KTop | KEnd (fin : ending) (t : nat).

Inductive frame :=
| FNotify (p : nat) (isres : bool) (arg : val) (cbs : list cb)   (* the for loop of _notify *)
| FBody (arg : val) (acts : list act) (k : cont)                 (* running a program *)
| FEnd (v : val) (t : nat)                                       (* wrapper: func returned v *)
| FAllLoop (a n i : nat) (rest : list nat)                       (* the for loop of Promise.all *)
| FWaitLoop (w n : nat) (rest : list nat).

(** Ghost event log (newest first). *)
Inductive event :=
| EvReg (r p : nat) (cres crej : cbk)                    (* then() on p appended this pair *)
| EvCall (p r : nat) (isres : bool) (arg : val) (k : cbk) (* _notify of p invoked callback k of registration r *)
| EvTry (t : nat) (o : pstate)                           (* do_resolve / do_reject called on t *)
| EvBad.                                                 (* a reference to a promise that does not exist *)

Record state := mkstate {
  heap : list prom; alls : list allrec; waits : list waitrec;
  next_rid : nat; stack : list frame; log : list event }.

(* ------------------------------------------------------------------ configuration *)
Inductive nmode := Swap | Drain.
Record cfg := mkcfg {
  guard_settled : bool;   (* do_resolve/do_reject return early unless is_pending *)
  mode : nmode;           (* _notify: swap the list out once | drain loop with re-entrancy flag *)
  then_notifies : bool;   (* then() ends with self._notify() *)
  adopt_returned : bool   (* wrapper: isinstance(result2, Promise) -> result2.then(...) *)
}.
Definition shipped : cfg := mkcfg true Swap true true.
Definition fixed : cfg := mkcfg true Drain true true.

(* ------------------------------------------------------------------ state helpers *)
Definition set_heap h s := mkstate h (alls s) (waits s) (next_rid s) (stack s) (log s).
Definition set_alls a s := mkstate (heap s) a (waits s) (next_rid s) (stack s) (log s).
Definition set_waits w s := mkstate (heap s) (alls s) w (next_rid s) (stack s) (log s).
Definition set_rid n s := mkstate (heap s) (alls s) (waits s) n (stack s) (log s).
Definition set_stack k s := mkstate (heap s) (alls s) (waits s) (next_rid s) k (log s).
Definition emit e s := mkstate (heap s) (alls s) (waits s) (next_rid s) (stack s) (e :: log s).
Definition push f s := set_stack (f :: stack s) s.

Fixpoint upd {A} (n : nat) (f : A -> A) (l : list A) : list A :=
  match l, n with
  | [], _ => []
  | x :: r, O => f x :: r
  | x :: r, S n' => x :: upd n' f r
  end.

Definition is_pending (x : pstate) := match x with Pending => true | _ => false end.
Definition mk_outcome (isres : bool) (v : val) := if isres then Fulfilled v else Rejected v.
Definition eval (e : expr) (arg : val) := match e with EArg => arg | EConst v => v end.

(** The callbacks _notify would run now: (is_fulfilled, value-or-error, list). *)
Definition take_cbs (pr : prom) : option (bool * val * list cb) :=
  match st pr with
  | Pending => None
  | Fulfilled v => Some (true, v, ress pr)
  | Rejected e => Some (false, e, rejs pr)
  end.

Definition clear_lists (b : bool) (pr : prom) := mkprom (st pr) [] [] b.

(** [self._notify()] up to the start of the for loop (the loop is the pushed frame). *)
Definition notify (c : cfg) (p : nat) (s : state) : state :=
  match nth_error (heap s) p with
  | None => s
  | Some pr =>
    match take_cbs pr with
    | None => s
    | Some (isres, v, l) =>
      match mode c with
      | Swap => push (FNotify p isres v l) (set_heap (upd p (clear_lists (busy pr)) (heap s)) s)
      | Drain => if busy pr then s
                 else push (FNotify p isres v l) (set_heap (upd p (clear_lists true) (heap s)) s)
      end
    end
  end.

(** [t.do_resolve(v)] / [t.do_reject(v)]; [o] is [Fulfilled v] / [Rejected v]. *)
Definition settle (c : cfg) (t : nat) (o : pstate) (s : state) : state :=
  match nth_error (heap s) t with
  | None => emit EvBad s
  | Some pr =>
    let s := emit (EvTry t o) s in
    if guard_settled c && negb (is_pending (st pr)) then s
    else notify c t (set_heap (upd t (fun pr => mkprom o (ress pr) (rejs pr) (busy pr)) (heap s)) s)
  end.

(** The tail of [then]: append the pair, then [_notify]. *)
Definition register (c : cfg) (p r : nat) (cres crej : cbk) (s : state) : state :=
  let s := emit (EvReg r p cres crej) s in
  let s := set_heap (upd p (fun pr => mkprom (st pr) (ress pr ++ [mkcb r cres]) (rejs pr ++ [mkcb r crej]) (busy pr))
                         (heap s)) s in
  if then_notifies c then notify c p s else s.

Definition alloc (s : state) : state := set_heap (heap s ++ [mkprom Pending [] [] false]) s.

(** [q.then(...)]: the child promise is allocated first; [mk child] gives the pair. *)
Definition do_then (c : cfg) (q : nat) (mk : nat -> cbk * cbk) (s : state) : state :=
  if q <? length (heap s) then
    let t := length (heap s) in
    let r := next_rid s in
    register c q r (fst (mk t)) (snd (mk t)) (set_rid (S r) (alloc s))
  else emit EvBad s.

Definition user_pair (f g : option func) (t : nat) : cbk * cbk :=
  (match f with Some f => KUser f t | None => KDefRes t end,
   match g with Some g => KUser g t | None => KDefRej t end).

(** The wrapper after [func] returned [v]. *)
Definition finish (c : cfg) (v : val) (t : nat) (s : state) : state :=
  match v with
  | VProm q =>
      if adopt_returned c then
        (if q <? length (heap s) then do_then c q (fun c' => (KAdoptRes t c', KAdoptRej t c')) s
         else emit EvBad s)
      else settle c t (Fulfilled v) s
  | _ => settle c t (Fulfilled v) s
  end.

Definition opt_default (o : option val) := match o with Some v => v | None => VNone end.

(** Invoke one registered callback with [arg]. *)
Definition invoke (c : cfg) (k : cbk) (arg : val) (s : state) : state :=
  match k with
  | KDefRes t => settle c t (Fulfilled arg) s
  | KDefRej t => settle c t (Rejected arg) s
  | KUser f t => push (FBody arg (body_of f) (KEnd (fin_of f) t)) s
  | KAdoptRes t c' => settle c t (Fulfilled arg) (push (FEnd arg c') s)
  | KAdoptRej t c' => settle c t (Rejected arg) (push (FEnd arg c') s)
  | KAllThen a i c' =>
      let s := push (FEnd VNone c') s in
      match nth_error (alls s) a with
      | None => emit EvBad s
      | Some ar =>
          let res := upd i (fun _ => Some arg) (a_results ar) in
          let d := S (a_done ar) in
          let s := set_alls (upd a (fun _ => mkall (a_prom ar) res d) (alls s)) s in
          if d =? length res then settle c (a_prom ar) (Fulfilled (VList (map opt_default res))) s else s
      end
  | KAllFail a c' =>
      let s := push (FEnd VNone c') s in
      match nth_error (alls s) a with
      | None => emit EvBad s
      | Some ar => settle c (a_prom ar) (Rejected arg) s
      end
  | KWaitDone w c' =>
      let s := push (FEnd VNone c') s in
      match nth_error (waits s) w with
      | None => emit EvBad s
      | Some wr =>
          let d := S (w_done wr) in
          let s := set_waits (upd w (fun _ => mkwait (w_prom wr) (w_subs wr) d) (waits s)) s in
          if d =? length (w_subs wr) then settle c (w_prom wr) (Fulfilled (VList (map VProm (w_subs wr)))) s else s
      end
  end.

Definition exec_act (c : cfg) (a : act) (arg : val) (s : state) : state :=
  match a with
  | ANew => alloc s
  | AResolve q e => settle c q (Fulfilled (eval e arg)) s
  | AReject q e => settle c q (Rejected (eval e arg)) s
  | AThen q f g => do_then c q (user_pair f g) s
  | AAll ps =>
      let p := length (heap s) in
      let a := length (alls s) in
      let s := alloc s in
      let s := set_alls (alls s ++ [mkall p (repeat None (length ps)) 0]) s in
      push (FAllLoop a (length ps) 0 ps) s
  | AWait ps =>
      let p := length (heap s) in
      let w := length (waits s) in
      let s := alloc s in
      let s := set_waits (waits s ++ [mkwait p ps 0]) s in
      push (FWaitLoop w (length ps) ps) s
  end.

(** One step of the machine; [None] when the stack is empty (quiescent). *)
Definition step (c : cfg) (s : state) : option state :=
  match stack s with
  | [] => None
  | fr :: rest =>
    let s0 := set_stack rest s in
    Some
    match fr with
    | FNotify p isres arg [] =>
        match mode c with
        | Swap => s0
        | Drain =>
            match nth_error (heap s0) p with
            | None => s0
            | Some pr =>
                match (if isres then ress pr else rejs pr) with
                | [] => set_heap (upd p (fun pr => mkprom (st pr) (ress pr) (rejs pr) false) (heap s0)) s0
                | l => push (FNotify p isres arg l) (set_heap (upd p (clear_lists true) (heap s0)) s0)
                end
            end
        end
    | FNotify p isres arg (x :: cbs) =>
        invoke c (kind x) arg (emit (EvCall p (rid x) isres arg (kind x)) (push (FNotify p isres arg cbs) s0))
    | FBody arg [] KTop => s0
    | FBody arg [] (KEnd (Ret e) t) => push (FEnd (eval e arg) t) s0
    | FBody arg [] (KEnd (Raise z) t) => settle c t (Rejected (VErr z)) s0
    | FBody arg (a :: acts) k => exec_act c a arg (push (FBody arg acts k) s0)
    | FEnd v t => finish c v t s0
    | FAllLoop a n i [] =>
        if n =? 0 then
          match nth_error (alls s0) a with
          | None => emit EvBad s0
          | Some ar => settle c (a_prom ar) (Fulfilled (VList [])) s0
          end
        else s0
    | FAllLoop a n i (q :: qs) =>
        do_then c q (fun t => (KAllThen a i t, KAllFail a t)) (push (FAllLoop a n (S i) qs) s0)
    | FWaitLoop w n [] =>
        if n =? 0 then
          match nth_error (waits s0) w with
          | None => emit EvBad s0
          | Some wr => settle c (w_prom wr) (Fulfilled (VList [])) s0
          end
        else s0
    | FWaitLoop w n (q :: qs) =>
        do_then c q (fun t => (KWaitDone w t, KWaitDone w t)) (push (FWaitLoop w n qs) s0)
    end
  end.

Definition init (prog : list act) : state := mkstate [] [] [] 0 [FBody VNone prog KTop] [].

(** Run with fuel; the boolean says whether the machine became quiescent (false = out of fuel). *)
Fixpoint run (c : cfg) (fuel : nat) (s : state) : state * bool :=
  match fuel with
  | O => (s, match stack s with [] => true | _ => false end)
  | S n => match step c s with None => (s, true) | Some s' => run c n s' end
  end.

(* ------------------------------------------------------------------ observations *)
Fixpoint regs_l (p : nat) (l : list event) : list nat :=      (* chronological *)
  match l with
  | [] => []
  | EvReg r p' _ _ :: l' => if p' =? p then regs_l p l' ++ [r] else regs_l p l'
  | _ :: l' => regs_l p l'
  end.
Fixpoint called_l (p : nat) (l : list event) : list nat :=    (* chronological *)
  match l with
  | [] => []
  | EvCall p' r _ _ _ :: l' => if p' =? p then called_l p l' ++ [r] else called_l p l'
  | _ :: l' => called_l p l'
  end.
Definition regs (s : state) (p : nat) := regs_l p (log s).
Definition called (s : state) (p : nat) := called_l p (log s).

(** The user-visible invocation log: (label, argument), chronological. *)
Fixpoint user_calls (l : list event) : list (nat * val) :=
  match l with
  | [] => []
  | EvCall _ _ _ arg (KUser f _) :: l' => user_calls l' ++ [(lbl_of f, arg)]
  | _ :: l' => user_calls l'
  end.

Definition state_of (s : state) (p : nat) : pstate :=
  match nth_error (heap s) p with Some pr => st pr | None => Pending end.

(** First [EvTry] on [t] in chronological order. *)
Fixpoint first_try (t : nat) (l : list event) : pstate :=
  match l with
  | [] => Pending
  | EvTry t' o :: l' => match first_try t l' with Pending => if t' =? t then o else Pending | x => x end
  | _ :: l' => first_try t l'
  end.

(* ------------------------------------------------------------------ decidable equality for the harness *)
Fixpoint val_eqb (a b : val) : bool :=
  match a, b with
  | VInt x, VInt y => Z.eqb x y
  | VErr x, VErr y => Z.eqb x y
  | VNone, VNone => true
  | VProm x, VProm y => Nat.eqb x y
  | VList x, VList y =>
      (fix go (x y : list val) : bool :=
         match x, y with
         | [], [] => true
         | a :: x', b :: y' => val_eqb a b && go x' y'
         | _, _ => false
         end) x y
  | _, _ => false
  end.

Definition pstate_eqb (a b : pstate) : bool :=
  match a, b with
  | Pending, Pending => true
  | Fulfilled x, Fulfilled y => val_eqb x y
  | Rejected x, Rejected y => val_eqb x y
  | _, _ => false
  end.

Fixpoint list_eqb {A} (eq : A -> A -> bool) (a b : list A) : bool :=
  match a, b with
  | [], [] => true
  | x :: a', y :: b' => eq x y && list_eqb eq a' b'
  | _, _ => false
  end.

Definition has_bad (l : list event) := existsb (fun e => match e with EvBad => true | _ => false end) l.

(** Used by the correspondence cases: run [prog] and compare final promise states and the user
    call log with what the implementation did. *)
Definition agrees (c : cfg) (fuel : N) (prog : list act) (states : list pstate) (calls : list (nat * val)) : bool :=
  let '(s, fin) := run c (N.to_nat fuel) (init prog) in
  fin && negb (has_bad (log s))
  && list_eqb pstate_eqb (map st (heap s)) states
  && list_eqb (fun a b => Nat.eqb (fst a) (fst b) && val_eqb (snd a) (snd b)) (user_calls (log s)) calls.
