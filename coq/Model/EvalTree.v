(** Closed model of the evaluation of a workflow as a tree of calls (C01, C12, and the
    termination half of C09): the program-spec language of harness/progs/vm.py, its documented
    graph-reduction semantics ([adm], the set of admissible outcomes), and a machine in which the
    schedule decides which call starts and which call's task function finishes next.
    No caching, no limits (those are the job machine's subject).  No proofs here. *)
From Coq Require Import List ZArith Bool Arith.
Import ListNotations.
Open Scope list_scope.

Inductive val := VInt (z : Z) | VList (l : list val) | VRec (e : Z).
Inductive outcome := Ok (v : val) | Ko (e : Z).

Inductive spec :=
| SLeaf (z : Z)                    (* returns z *)
| SRaise (e : Z)                   (* raises e *)
| SList (p : Z) (cs : list spec)   (* returns [p, [call c for c in cs]]: all children in parallel *)
| SSeq (cs : list spec)            (* returns seq([...]): one child after the other *)
| SCatch (c : spec)                (* returns catch(call c, ValueError, recover) *)
| SAll (cs : list spec)            (* returns catch_all([...]): all children in parallel, every one is awaited,
                                      then the first error BY POSITION is re-raised *)
| SAllRec (cs : list spec).        (* returns catch_all([...], ValueError, recover_all): as above, but when any term failed
                                      the recover task receives every term's value or error and its result is returned *)

Definition children (s : spec) : list spec :=
  match s with SList _ cs | SSeq cs | SAll cs | SAllRec cs => cs | SCatch c => [c] | _ => [] end.

(** what recover_all makes of one term: ["val", v] / ["err", e], encoded as [0; v] / [1; e] *)
Definition enc (o : outcome) : val :=
  match o with Ok v => VList [VInt 0; v] | Ko e => VList [VInt 1; VInt e] end.
Definition rec_value (outs : list outcome) : val := VList [VInt (-1); VList (map enc outs)].

(** * Reference semantics: admissible outcomes.  A list with several failing children may surface
    any of their errors (the first rejection observed depends on the schedule). *)
Inductive adm : spec -> outcome -> Prop :=
| adm_leaf z : adm (SLeaf z) (Ok (VInt z))
| adm_raise e : adm (SRaise e) (Ko e)
| adm_list_ok p cs vs : Forall2 (fun c v => adm c (Ok v)) cs vs -> adm (SList p cs) (Ok (VList [VInt p; VList vs]))
| adm_list_ko p cs c e : In c cs -> adm c (Ko e) -> adm (SList p cs) (Ko e)
| adm_seq_ok cs vs : Forall2 (fun c v => adm c (Ok v)) cs vs -> adm (SSeq cs) (Ok (VList vs))
| adm_seq_ko cs pre c post vs e :
    cs = pre ++ c :: post -> Forall2 (fun c v => adm c (Ok v)) pre vs -> adm c (Ko e) -> adm (SSeq cs) (Ko e)
| adm_catch_ok c v : adm c (Ok v) -> adm (SCatch c) (Ok v)
| adm_catch_ko c e : adm c (Ko e) -> adm (SCatch c) (Ok (VRec e))
| adm_all_ok cs vs : Forall2 (fun c v => adm c (Ok v)) cs vs -> adm (SAll cs) (Ok (VList vs))
| adm_all_ko cs pre c post vs e :
    cs = pre ++ c :: post -> Forall2 (fun c v => adm c (Ok v)) pre vs -> adm c (Ko e) -> adm (SAll cs) (Ko e)
| adm_allrec_ok cs vs : Forall2 (fun c v => adm c (Ok v)) cs vs -> adm (SAllRec cs) (Ok (VList vs))
| adm_allrec_rec cs outs e :
    Forall2 (fun c o => adm c o) cs outs -> In (Ko e) outs -> adm (SAllRec cs) (Ok (rec_value outs)).

(** * The machine *)
Inductive phase := PIdle | PRun | PEval | PDone (o : outcome).
Inductive node := Node (sp : spec) (ph : phase) (kids : list node).

Definition nspec (n : node) : spec := match n with Node sp _ _ => sp end.
Definition nphase (n : node) : phase := match n with Node _ ph _ => ph end.
Definition nkids (n : node) : list node := match n with Node _ _ k => k end.
Definition idle (s : spec) : node := Node s PIdle [].

Definition kid_ko (n : node) : option Z := match nphase n with PDone (Ko e) => Some e | _ => None end.
Definition kid_ok (n : node) : option val := match nphase n with PDone (Ok v) => Some v | _ => None end.

Definition kid_done (n : node) : bool := match nphase n with PDone _ => true | _ => false end.

Definition kid_out (n : node) : outcome := match nphase n with PDone o => o | _ => Ok (VInt 0) end.

Fixpoint first_ko (kids : list node) : option Z :=
  match kids with
  | [] => None
  | k :: r => match kid_ko k with Some e => Some e | None => first_ko r end
  end.

Fixpoint all_ok (kids : list node) : option (list val) :=
  match kids with
  | [] => Some []
  | k :: r => match kid_ok k, all_ok r with Some v, Some vs => Some (v :: vs) | _, _ => None end
  end.

(** What a node in PEval becomes once its children's states are [kids]. *)
Definition recombine (n : node) : node :=
  match n with
  | Node sp PEval kids =>
      match sp with
      | SList p _ =>
          match first_ko kids with
          | Some e => Node sp (PDone (Ko e)) kids
          | None => match all_ok kids with
                    | Some vs => Node sp (PDone (Ok (VList [VInt p; VList vs]))) kids
                    | None => n
                    end
          end
      | SSeq cs =>
          match first_ko kids with
          | Some e => Node sp (PDone (Ko e)) kids
          | None => match all_ok kids with
                    | Some vs =>
                        match nth_error cs (length kids) with
                        | Some c => Node sp PEval (kids ++ [idle c])        (* next child of the sequence *)
                        | None => Node sp (PDone (Ok (VList vs))) kids
                        end
                    | None => n
                    end
          end
      | SAll _ =>
          (* catch_all waits for every term, then looks for errors in position order *)
          if forallb kid_done kids then
            match first_ko kids with
            | Some e => Node sp (PDone (Ko e)) kids
            | None => match all_ok kids with
                      | Some vs => Node sp (PDone (Ok (VList vs))) kids
                      | None => n
                      end
            end
          else n
      | SAllRec _ =>
          if forallb kid_done kids then
            match all_ok kids with
            | Some vs => Node sp (PDone (Ok (VList vs))) kids
            | None => Node sp (PDone (Ok (rec_value (map kid_out kids)))) kids     (* recover_all(values and errors) *)
            end
          else n
      | SCatch _ =>
          match kids with
          | [k] => match nphase k with
                   | PDone (Ok v) => Node sp (PDone (Ok v)) kids
                   | PDone (Ko e) => Node sp (PDone (Ok (VRec e))) kids   (* recover(error) *)
                   | _ => n
                   end
          | _ => n
          end
      | _ => n
      end
  | _ => n
  end.

Definition do_start (n : node) : node :=
  match n with Node sp PIdle kids => Node sp PRun kids | _ => n end.

(** the task function returns: a value, an error, or an expression with child calls *)
Definition do_finish (n : node) : node :=
  match n with
  | Node sp PRun _ =>
      match sp with
      | SLeaf z => Node sp (PDone (Ok (VInt z))) []
      | SRaise e => Node sp (PDone (Ko e)) []
      | SList _ cs => recombine (Node sp PEval (map idle cs))
      | SSeq cs => recombine (Node sp PEval [])
      | SCatch c => Node sp PEval [idle c]
      | SAll cs | SAllRec cs => recombine (Node sp PEval (map idle cs))
      end
  | _ => n
  end.

Fixpoint upd_nth {A} (l : list A) (i : nat) (f : A -> A) : list A :=
  match l, i with
  | [], _ => []
  | x :: r, O => f x :: r
  | x :: r, S i => x :: upd_nth r i f
  end.

(** apply [f] to the node at path [p]; every ancestor re-combines on the way back *)
Fixpoint upd (p : list nat) (f : node -> node) (n : node) : node :=
  match p with
  | [] => f n
  | i :: p' => match n with Node sp ph kids => recombine (Node sp ph (upd_nth kids i (upd p' f))) end
  end.

Inductive op := OStart (p : list nat) | OFinish (p : list nat).

Definition step (n : node) (o : op) : node :=
  match o with
  | OStart p => upd p do_start n
  | OFinish p => upd p do_finish n
  end.

Definition run (s : spec) (ops : list op) : node := fold_left step ops (idle s).

Definition result (n : node) : option outcome := match nphase n with PDone o => Some o | _ => None end.

(** * Measures for termination: every call starts once and finishes once *)
Fixpoint ssize (s : spec) : nat :=
  S (match s with
     | SList _ cs | SSeq cs | SAll cs | SAllRec cs => fold_right (fun c a => ssize c + a) 0 cs
     | SCatch c => ssize c
     | _ => 0
     end).

(** * Executable form of the reference semantics (used by the correspondence run;
    proved equivalent to [adm] in Proofs/EvalTreeRef.v) *)
Fixpoint fails (s : spec) : bool :=
  match s with
  | SLeaf _ => false
  | SRaise _ => true
  | SList _ cs | SSeq cs | SAll cs => (fix ex (cs : list spec) : bool := match cs with [] => false | c :: r => fails c || ex r end) cs
  | SCatch _ | SAllRec _ => false
  end.

Fixpoint admb (s : spec) (o : outcome) {struct s} : bool :=
  match s with
  | SLeaf z => match o with Ok (VInt z') => Z.eqb z z' | _ => false end
  | SRaise e => match o with Ko e' => Z.eqb e e' | _ => false end
  | SList p cs =>
      match o with
      | Ok (VList [VInt p'; VList vs]) =>
          Z.eqb p p' &&
          (fix go (cs : list spec) (vs : list val) : bool :=
             match cs, vs with
             | [], [] => true
             | c :: cs', v :: vs' => admb c (Ok v) && go cs' vs'
             | _, _ => false
             end) cs vs
      | Ko e => (fix ex (cs : list spec) : bool := match cs with [] => false | c :: r => admb c (Ko e) || ex r end) cs
      | _ => false
      end
  | SSeq cs | SAll cs =>
      match o with
      | Ok (VList vs) =>
          (fix go (cs : list spec) (vs : list val) : bool :=
             match cs, vs with
             | [], [] => true
             | c :: cs', v :: vs' => admb c (Ok v) && go cs' vs'
             | _, _ => false
             end) cs vs
      | Ko e => (fix sk (cs : list spec) : bool :=
                   match cs with [] => false | c :: r => admb c (Ko e) || (negb (fails c) && sk r) end) cs
      | _ => false
      end
  | SCatch c =>
      match o with
      | Ok v => admb c (Ok v) || match v with VRec e => admb c (Ko e) | _ => false end
      | Ko _ => false
      end
  | SAllRec cs =>
      match o with
      | Ok (VList vs) =>
          (fix go (cs : list spec) (vs : list val) : bool :=
             match cs, vs with
             | [], [] => true
             | c :: cs', v :: vs' => admb c (Ok v) && go cs' vs'
             | _, _ => false
             end) cs vs
          || match vs with
             | [VInt m; VList encs] =>
                 Z.eqb m (-1) &&
                 (fix rg (cs : list spec) (encs : list val) : bool :=
                    match cs, encs with
                    | [], [] => true
                    | c :: cs', VList [VInt t; x] :: r =>
                        (if Z.eqb t 0 then admb c (Ok x)
                         else if Z.eqb t 1 then match x with VInt e => admb c (Ko e) | _ => false end
                         else false) && rg cs' r
                    | _, _ => false
                    end) cs encs &&
                 existsb (fun x => match x with VList [VInt t; VInt _] => Z.eqb t 1 | _ => false end) encs
             | _ => false
             end
      | _ => false
      end
  end.
