(** C29 — executable model of redun/scripting.py (prepare_command, get_command_eof,
    get_wrapped_command, script, postprocess_script), of StagingFile/StagingDir
    render_stage / render_unstage (redun/file.py) and of the part of a POSIX shell that
    the wrapper relies on (here-document with a quoted delimiter).  No proofs here.

    A Python [str] is a list of code points ([N]).  split / in / startswith / strip /
    + / str.format all act on code points.  The shell sees the UTF-8 encoding; splitting at
    U+000A and comparing lines commute with UTF-8 encoding (trusted, see meta/C29.json). *)
From Coq Require Import String List NArith Ascii Bool Arith.
From RV Require Import Base.Decimal.
Import ListNotations.
Open Scope list_scope.

Definition str := list N.

Definition of_bytes (b : bytes) : str := map N_of_ascii b.
(** ASCII literal (for the constants below; generated files use explicit code lists). *)
Definition lit (s : string) : str := of_bytes (list_ascii_of_string s).
(** Python [str(n)] for n >= 0. *)
Definition str_of_nat (n : nat) : str := of_bytes (dec_of_nat n).

Definition NL : N := 10%N.

Fixpoint str_eqb (a b : str) : bool :=
  match a, b with
  | [], [] => true
  | x :: a', y :: b' => N.eqb x y && str_eqb a' b'
  | _, _ => false
  end.

Fixpoint mem_str (x : str) (l : list str) : bool :=
  match l with [] => false | y :: r => str_eqb x y || mem_str x r end.

Fixpoint starts_with (p s : str) : bool :=
  match p, s with
  | [], _ => true
  | x :: p', y :: s' => N.eqb x y && starts_with p' s'
  | _ :: _, [] => false
  end.

(** [s.split("\n")] — never empty. *)
Fixpoint split_nl (s : str) : list str :=
  match s with
  | [] => [[]]
  | c :: r =>
      if N.eqb c NL then [] :: split_nl r
      else match split_nl r with
           | l :: ls => (c :: l) :: ls
           | [] => [[c]]
           end
  end.

(** ["\n".join(lines)] *)
Fixpoint join_nl (ls : list str) : str :=
  match ls with
  | [] => []
  | [l] => l
  | l :: r => l ++ NL :: join_nl r
  end.

(* ------------------------------------------------------------------ *)
(** * prepare_command *)

(** Code points for which CPython's [str.isspace] holds (what [str.strip()] removes);
    the harness compares this table with CPython over all code points. *)
Definition space_points : list N :=
  [9; 10; 11; 12; 13; 28; 29; 30; 31; 32; 133; 160; 5760; 8192; 8193; 8194; 8195; 8196; 8197;
   8198; 8199; 8200; 8201; 8202; 8232; 8233; 8239; 8287; 12288]%N.
Definition is_space (c : N) : bool := existsb (N.eqb c) space_points.

Fixpoint lstrip_by (p : N -> bool) (s : str) : str :=
  match s with
  | c :: r => if p c then lstrip_by p r else s
  | [] => []
  end.
Definition rstrip_by (p : N -> bool) (s : str) : str := rev (lstrip_by p (rev s)).
Definition strip (s : str) : str := rstrip_by is_space (lstrip_by is_space s).
(** [s.rstrip(chars)] *)
Definition rstrip_chars (chars : str) (s : str) : str := rstrip_by (fun c => existsb (N.eqb c) chars) s.

Definition shebang : str := [35; 33]%N.                       (* "#!" *)
Definition default_shell : str :=                              (* DEFAULT_SHELL *)
  lit "#!/usr/bin/env bash" ++ [NL] ++ lit "set -exo pipefail".

(** [textwrap.dedent] is a parameter (standard library, not redun). *)
Definition prepare_command_with (dedent : str -> str) (dshell : str) (command : str) : str :=
  let c := strip (dedent command) in
  if starts_with shebang c then c
  else rstrip_chars [NL] dshell ++ [NL] ++ c.
Definition prepare_command (dedent : str -> str) (command : str) : str :=
  prepare_command_with dedent default_shell command.

(* ------------------------------------------------------------------ *)
(** * get_command_eof *)

Definition eof_prefix0 : str := lit "EOF".

(** candidate number [i]: the bare prefix first, then prefix + str(i) *)
Definition eof_cand (prefix : str) (i : nat) : str :=
  match i with O => prefix | S _ => prefix ++ str_of_nat i end.

Inductive eof_result := EofIs (e : str) | EofOutOfFuel.

(** the [while True] loop; [fuel] is made explicit and running out is a visible result *)
Fixpoint eof_search (fuel : nat) (prefix : str) (lines : list str) (index : nat) : eof_result :=
  match fuel with
  | O => EofOutOfFuel
  | S f =>
      if mem_str (eof_cand prefix index) lines
      then eof_search f prefix lines (S index)
      else EofIs (eof_cand prefix index)
  end.

Definition get_command_eof (command prefix : str) : eof_result :=
  let lines := split_nl command in
  eof_search (S (List.length lines)) prefix lines 0.

(* ------------------------------------------------------------------ *)
(** * get_wrapped_command: the template and str.format *)

Inductive piece := Lit (s : str) | PhCommand | PhEof.

Definition render_piece (command eof : str) (p : piece) : str :=
  match p with Lit s => s | PhCommand => command | PhEof => eof end.
Definition render_template (t : list piece) (command eof : str) : str :=
  concat (map (render_piece command eof) t).

Definition ln (s : string) : str := lit s ++ [NL].

Definition tpl_head : str :=
  ln "(" ++ ln "# Save command to temp file." ++ ln "COMMAND_FILE=""$(mktemp)""".
Definition tpl_cat : str := lit "cat > ""$COMMAND_FILE"" <<""".
Definition tpl_tail : str :=
  [NL] ++ ln "" ++ ln "# Execute temp file." ++ ln "chmod +x ""$COMMAND_FILE""" ++ ln """$COMMAND_FILE"""
  ++ ln "RETCODE=$?" ++ ln "" ++ ln "# Remove temp file." ++ ln "rm ""$COMMAND_FILE""" ++ ln ""
  ++ ln "exit $RETCODE" ++ ln ")".

Definition shipped_template : list piece :=
  [Lit (tpl_head ++ tpl_cat); PhEof; Lit [34; NL]%N; PhCommand; Lit [NL]; PhEof; Lit tpl_tail].

Inductive wrap_result := Wrapped (w : str) | WrapOutOfFuel.

Definition get_wrapped_command (command prefix : str) : wrap_result :=
  match get_command_eof command prefix with
  | EofIs e => Wrapped (render_template shipped_template command e)
  | EofOutOfFuel => WrapOutOfFuel
  end.

(* ------------------------------------------------------------------ *)
(** * The shell side: lines of a script, here-documents with a double-quoted delimiter.
    [<<"D"] : the body is every following line up to the first line equal to D, no
    expansion, each line followed by a newline (POSIX 2.7.4).  Only this form is
    recognised; every other line is kept as an opaque command line. *)

Inductive sh_item :=
  | ShLine (l : str)
  | ShHeredoc (cmd delim body : str).

Inductive sh_result :=
  | ShOk (items : list sh_item)
  | ShUnterminated (delim : str).

Definition sh_cons (i : sh_item) (r : sh_result) : sh_result :=
  match r with ShOk l => ShOk (i :: l) | e => e end.

(** split a line at the first heredoc operator with a double-quoted word (less, less, dquote):
    (text before, text after) *)
Fixpoint find_heredoc_op (l : str) : option (str * str) :=
  match l with
  | [] => None
  | c :: r =>
      if starts_with [60; 60; 34]%N l then Some ([], skipn 2 r)
      else match find_heredoc_op r with
           | Some (a, b) => Some (c :: a, b)
           | None => None
           end
  end.

(** the delimiter word up to the closing quote; the quote must end the line *)
Fixpoint until_quote (s : str) : option (str * str) :=
  match s with
  | [] => None
  | c :: r => if N.eqb c 34 then Some ([], r)
              else match until_quote r with Some (a, b) => Some (c :: a, b) | None => None end
  end.

Definition heredoc_op (l : str) : option (str * str) :=
  match find_heredoc_op l with
  | Some (cmd, after) =>
      match until_quote after with
      | Some (d, []) => Some (cmd, d)
      | _ => None
      end
  | None => None
  end.

Definition body_of (ls : list str) : str := concat (map (fun l => l ++ [NL]) ls).

Fixpoint sh_scan (st : option (str * str * list str)) (lines : list str) : sh_result :=
  match lines with
  | [] => match st with None => ShOk [] | Some (_, d, _) => ShUnterminated d end
  | l :: rest =>
      match st with
      | None =>
          match heredoc_op l with
          | Some (cmd, d) => sh_scan (Some (cmd, d, [])) rest
          | None => sh_cons (ShLine l) (sh_scan None rest)
          end
      | Some (cmd, d, acc) =>
          if str_eqb l d then sh_cons (ShHeredoc cmd d (body_of (rev acc))) (sh_scan None rest)
          else sh_scan (Some (cmd, d, l :: acc)) rest
      end
  end.

Definition sh_read (script : str) : sh_result := sh_scan None (split_nl script).

(** What the first here-document of a script writes to its command's stdin. *)
Fixpoint first_heredoc (items : list sh_item) : option str :=
  match items with
  | [] => None
  | ShHeredoc _ _ b :: _ => Some b
  | ShLine _ :: r => first_heredoc r
  end.
Definition heredoc_body (script : str) : option str :=
  match sh_read script with ShOk items => first_heredoc items | _ => None end.

(** The items the wrapper is expected to be read as (command file content [body]). *)
Definition wrapper_items (eof body : str) : list sh_item :=
  [ShLine (lit "("); ShLine (lit "# Save command to temp file."); ShLine (lit "COMMAND_FILE=""$(mktemp)""");
   ShHeredoc (lit "cat > ""$COMMAND_FILE"" ") eof body;
   ShLine []; ShLine (lit "# Execute temp file."); ShLine (lit "chmod +x ""$COMMAND_FILE""");
   ShLine (lit """$COMMAND_FILE"""); ShLine (lit "RETCODE=$?"); ShLine [];
   ShLine (lit "# Remove temp file."); ShLine (lit "rm ""$COMMAND_FILE"""); ShLine [];
   ShLine (lit "exit $RETCODE"); ShLine (lit ")"); ShLine []].

(* ------------------------------------------------------------------ *)
(** * shlex.quote / shlex.join (standard library; used to render copy commands) *)

Definition between (lo hi c : N) : bool := N.leb lo c && N.leb c hi.
Definition is_safe_char (c : N) : bool :=
  between 48 57 c || between 65 90 c || between 97 122 c
  || existsb (N.eqb c) [95; 64; 37; 43; 61; 58; 44; 46; 47; 45]%N.     (* _ @ % + = : , . / - *)
Definition sh_quote (s : str) : str :=
  match s with
  | [] => [39; 39]%N
  | _ => if forallb is_safe_char s then s
         else [39%N] ++ flat_map (fun c => if N.eqb c 39 then [39; 34; 39; 34; 39]%N else [c]) s ++ [39%N]
  end.
Fixpoint join_sp (ls : list str) : str :=
  match ls with [] => [] | [l] => l | l :: r => l ++ 32%N :: join_sp r end.
Definition shlex_join (argv : list str) : str := join_sp (map sh_quote argv).

(* ------------------------------------------------------------------ *)
(** * Nested values, staging objects *)

Inductive fkind := KFile | KDir.

Inductive leaf :=
  | LFile (path : str)                         (* File(path); File("-") is the stdout file *)
  | LDir (path : str)                          (* a plain Dir (not a File) *)
  | LStaging (k : fkind) (local remote : str)  (* StagingFile / StagingDir(local, remote) *)
  | LOther (id : N).                           (* any other leaf value (str, int, None ...) *)

Inductive nv :=
  | Leaf (l : leaf)
  | NList (xs : list nv)
  | NTuple (xs : list nv)
  | NDict (kvs : list (nv * nv)).

(** children in the order [iter_nested_value_children] yields them (dict: all keys, then all
    values); [iter_nested_value] pops from a stack, so it yields the reverse of the
    left-to-right leaf order. *)
Fixpoint leaves_lr (v : nv) : list leaf :=
  match v with
  | Leaf l => [l]
  | NList xs | NTuple xs => flat_map leaves_lr xs
  | NDict kvs => flat_map (fun kv => leaves_lr (fst kv)) kvs ++ flat_map (fun kv => leaves_lr (snd kv)) kvs
  end.
Definition iter_nested_value (v : nv) : list leaf := rev (leaves_lr v).

Fixpoint map_nv (f : leaf -> leaf) (v : nv) : nv :=
  match v with
  | Leaf l => Leaf (f l)
  | NList xs => NList (map (map_nv f) xs)
  | NTuple xs => NTuple (map (map_nv f) xs)
  | NDict kvs => NDict (map (fun kv => (map_nv f (fst kv), map_nv f (snd kv))) kvs)
  end.

(** the same for the result of postprocess_script, whose leaves are a different type *)
Inductive oleaf :=
  | OResult                          (* the script's stdout *)
  | ORemote (k : fkind) (path : str) (* type(value.remote)(value.remote.path) *)
  | OSame (l : leaf).                (* returned unchanged *)

Inductive ov :=
  | OLeaf (l : oleaf)
  | OList (xs : list ov)
  | OTuple (xs : list ov)
  | ODict (kvs : list (ov * ov)).

Fixpoint map_ov (f : leaf -> oleaf) (v : nv) : ov :=
  match v with
  | Leaf l => OLeaf (f l)
  | NList xs => OList (map (map_ov f) xs)
  | NTuple xs => OTuple (map (map_ov f) xs)
  | NDict kvs => ODict (map (fun kv => (map_ov f (fst kv), map_ov f (snd kv))) kvs)
  end.

Fixpoint oleaves_lr (v : ov) : list oleaf :=
  match v with
  | OLeaf l => [l]
  | OList xs | OTuple xs => flat_map oleaves_lr xs
  | ODict kvs => flat_map (fun kv => oleaves_lr (fst kv)) kvs ++ flat_map (fun kv => oleaves_lr (snd kv)) kvs
  end.

(** shapes: the container skeleton only *)
Inductive shape := SLeaf | SList (xs : list shape) | STuple (xs : list shape) | SDict (kvs : list (shape * shape)).
Fixpoint shape_nv (v : nv) : shape :=
  match v with
  | Leaf _ => SLeaf
  | NList xs => SList (map shape_nv xs)
  | NTuple xs => STuple (map shape_nv xs)
  | NDict kvs => SDict (map (fun kv => (shape_nv (fst kv), shape_nv (snd kv))) kvs)
  end.
Fixpoint shape_ov (v : ov) : shape :=
  match v with
  | OLeaf _ => SLeaf
  | OList xs => SList (map shape_ov xs)
  | OTuple xs => STuple (map shape_ov xs)
  | ODict kvs => SDict (map (fun kv => (shape_ov (fst kv), shape_ov (snd kv))) kvs)
  end.

Definition stdout_path : str := [45%N].   (* "-" *)
Definition is_stdout (p : str) : bool := str_eqb p stdout_path.

(** script(): preprocess_output *)
Definition preprocess_output (l : leaf) : leaf :=
  match l with
  | LFile p => if is_stdout p then l else LStaging KFile p p      (* value.stage(value.path) *)
  | _ => l
  end.

(** postprocess_script: get_file *)
Definition post_leaf (l : leaf) : oleaf :=
  match l with
  | LFile p => if is_stdout p then OResult else OSame l
  | LStaging k _ r => ORemote k r
  | _ => OSame l
  end.
Definition postprocess_script (outputs : nv) : ov := map_ov post_leaf outputs.

(** script(): get_file for the reactivity argument [input_args] *)
Definition input_arg_leaf (l : leaf) : oleaf :=
  match l with
  | LStaging k _ r => ORemote k r
  | _ => OSame l
  end.

(* ------------------------------------------------------------------ *)
(** * script(): command parts *)

Inductive part :=
  | PCd (path : str)                       (* shlex.join(["cd", temp_path]) *)
  | PCopy (k : fkind) (src dst : str)      (* a copy command produced by render_stage/unstage *)
  | PSkip                                  (* "" : local path == remote path, nothing to copy *)
  | PUser (wrapped : str).                 (* get_wrapped_command(prepare_command(command)) *)

(** StagingFile/StagingDir.render_stage: remote -> local *)
Definition render_stage (k : fkind) (local remote : str) : part :=
  if str_eqb local remote then PSkip else PCopy k remote local.
(** render_unstage: local -> remote *)
Definition render_unstage (k : fkind) (local remote : str) : part :=
  if str_eqb local remote then PSkip else PCopy k local remote.

(** LocalFileSystem.shell_copy for two local paths *)
Definition render_part (p : part) : str :=
  match p with
  | PCd path => shlex_join [lit "cd"; path]
  | PCopy KFile s d => lit "cp " ++ sh_quote s ++ [32%N] ++ sh_quote d
  | PCopy KDir s d => lit "cp -r " ++ sh_quote s ++ [32%N] ++ sh_quote d
  | PSkip => []
  | PUser w => w
  end.

Inductive script_result :=
  | ScriptOk (full_command : str) (parts : list part) (input_args : ov) (outputs' : nv)
  | ScriptAttributeError        (* an input leaf without render_stage *)
  | ScriptOutOfFuel.

(** every input leaf must be a Staging object ([input.render_stage]) *)
Fixpoint stage_inputs (ls : list leaf) : option (list part) :=
  match ls with
  | [] => Some []
  | LStaging k l r :: rest =>
      match stage_inputs rest with Some ps => Some (render_stage k l r :: ps) | None => None end
  | _ :: _ => None
  end.

Fixpoint unstage_outputs (ls : list leaf) : list part :=
  match ls with
  | [] => []
  | LStaging k l r :: rest => render_unstage k l r :: unstage_outputs rest
  | _ :: rest => unstage_outputs rest
  end.

Definition cd_parts (temp_path : option str) : list part :=
  match temp_path with Some p => [PCd p] | None => [] end.

(** [command] is the command string (a list command has been shlex.join-ed by the caller of
    the model, see [shlex_join]); [outputs = None] is the NULL default, i.e. File("-"). *)
Definition script (dedent : str -> str) (command : str) (inputs : nv) (outputs : option nv)
                  (temp_path : option str) : script_result :=
  let outs := match outputs with Some o => o | None => Leaf (LFile stdout_path) end in
  let outs' := map_nv preprocess_output outs in
  match stage_inputs (iter_nested_value inputs) with
  | None => ScriptAttributeError
  | Some stage_parts =>
      match get_wrapped_command (prepare_command dedent command) eof_prefix0 with
      | WrapOutOfFuel => ScriptOutOfFuel
      | Wrapped w =>
          let parts := cd_parts temp_path ++ stage_parts ++ [PUser w]
                       ++ unstage_outputs (iter_nested_value outs') in
          ScriptOk (join_nl (map render_part parts)) parts (map_ov input_arg_leaf inputs) outs'
      end
  end.

(* ------------------------------------------------------------------ *)
(** * What the translator extracts (compared with [shipped] by the tie lemma) *)

Inductive phase := PhCd | PhStageInputs | PhUserCommand | PhUnstageOutputs.
Inductive side := Local | Remote.

Record script_cfg := {
  c_default_shell : str;            (* DEFAULT_SHELL *)
  c_shebang : str;                  (* startswith(...) *)
  c_shell_rstrip : str;             (* default_shell.rstrip(...) *)
  c_shell_join : str;               (* ... + "\n" + command *)
  c_eof_prefix : str;               (* eof_prefix default, both functions *)
  c_eof_sep : str;                  (* command.split(...) *)
  c_eof_start : nat;                (* index = 0 *)
  c_eof_step : nat;                 (* index += 1 *)
  c_template : list piece;          (* the wrapper template, split at the placeholders *)
  c_parts_join : str;               (* "\n".join(command_parts) *)
  c_phases : list phase;            (* order in which script() adds to command_parts *)
  c_stdout_path : str;              (* File("-") *)
  c_stage : list (fkind * (side * side) * bool);    (* render_stage: (src, dst), same-path shortcut *)
  c_unstage : list (fkind * (side * side) * bool)
}.

Definition shipped : script_cfg := {|
  c_default_shell := default_shell;
  c_shebang := shebang;
  c_shell_rstrip := [NL];
  c_shell_join := [NL];
  c_eof_prefix := eof_prefix0;
  c_eof_sep := [NL];
  c_eof_start := 0;
  c_eof_step := 1;
  c_template := shipped_template;
  c_parts_join := [NL];
  c_phases := [PhCd; PhStageInputs; PhUserCommand; PhUnstageOutputs];
  c_stdout_path := stdout_path;
  c_stage := [(KFile, (Remote, Local), true); (KDir, (Remote, Local), true)];
  c_unstage := [(KFile, (Local, Remote), true); (KDir, (Local, Remote), true)]
|}.

(** normal form of a template: adjacent literals merged (so that the tie does not depend on
    how the literal text is chunked) *)
Fixpoint norm_template (t : list piece) : list piece :=
  match t with
  | [] => []
  | Lit a :: r =>
      match norm_template r with
      | Lit b :: r' => Lit (a ++ b) :: r'
      | r' => Lit a :: r'
      end
  | p :: r => p :: norm_template r
  end.

(* ------------------------------------------------------------------ *)
(** * boolean equalities (used by the correspondence cases only) *)

Definition fkind_eqb (a b : fkind) : bool :=
  match a, b with KFile, KFile | KDir, KDir => true | _, _ => false end.

Definition leaf_eqb (a b : leaf) : bool :=
  match a, b with
  | LFile p, LFile q => str_eqb p q
  | LDir p, LDir q => str_eqb p q
  | LStaging k l r, LStaging k' l' r' => fkind_eqb k k' && str_eqb l l' && str_eqb r r'
  | LOther i, LOther j => N.eqb i j
  | _, _ => false
  end.

Definition oleaf_eqb (a b : oleaf) : bool :=
  match a, b with
  | OResult, OResult => true
  | ORemote k p, ORemote k' p' => fkind_eqb k k' && str_eqb p p'
  | OSame l, OSame l' => leaf_eqb l l'
  | _, _ => false
  end.

Fixpoint nv_eqb (a b : nv) {struct a} : bool :=
  let fix go (xs ys : list nv) {struct xs} : bool :=
    match xs, ys with
    | [], [] => true
    | x :: xs', y :: ys' => nv_eqb x y && go xs' ys'
    | _, _ => false
    end in
  let fix gokv (xs ys : list (nv * nv)) {struct xs} : bool :=
    match xs, ys with
    | [], [] => true
    | (k, v) :: xs', (k', v') :: ys' => nv_eqb k k' && nv_eqb v v' && gokv xs' ys'
    | _, _ => false
    end in
  match a, b with
  | Leaf l, Leaf l' => leaf_eqb l l'
  | NList xs, NList ys => go xs ys
  | NTuple xs, NTuple ys => go xs ys
  | NDict xs, NDict ys => gokv xs ys
  | _, _ => false
  end.

Fixpoint ov_eqb (a b : ov) {struct a} : bool :=
  let fix go (xs ys : list ov) {struct xs} : bool :=
    match xs, ys with
    | [], [] => true
    | x :: xs', y :: ys' => ov_eqb x y && go xs' ys'
    | _, _ => false
    end in
  let fix gokv (xs ys : list (ov * ov)) {struct xs} : bool :=
    match xs, ys with
    | [], [] => true
    | (k, v) :: xs', (k', v') :: ys' => ov_eqb k k' && ov_eqb v v' && gokv xs' ys'
    | _, _ => false
    end in
  match a, b with
  | OLeaf l, OLeaf l' => oleaf_eqb l l'
  | OList xs, OList ys => go xs ys
  | OTuple xs, OTuple ys => go xs ys
  | ODict xs, ODict ys => gokv xs ys
  | _, _ => false
  end.

(** one comparison per script() case: command text, reactivity argument, preprocessed outputs *)
Definition script_agrees (r : script_result) (full : str) (ia : ov) (outs : nv) : bool :=
  match r with
  | ScriptOk f _ ia' outs' => str_eqb f full && ov_eqb ia' ia && nv_eqb outs' outs
  | _ => false
  end.
Definition script_raises (r : script_result) : bool :=
  match r with ScriptAttributeError => true | _ => false end.
