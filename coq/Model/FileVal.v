(** Executable model of redun's file values (redun/file.py: File, FileSet, Dir, their immutable
    and content-hashed families, staging) over an abstract local filesystem, of the validity
    check behind cached results (redun/value.py is_valid_nested, redun/scheduler.py _get_cache)
    and of a run-level history machine (run / external change / run ...).  No proofs here.

    Shared by C30 (hashes track the filesystem) and C04 (replay only while valid).

    Scope of the filesystem model
    - paths: files are [d_i/d_j/.../f_k]; directory names and file names come from disjoint
      namespaces, so a path is never both a file and a directory (IsADirectoryError /
      NotADirectoryError cannot arise).  Directories are implicit: they exist as far as files
      lie below them (LocalFileSystem._ensure_dir creates them on every write, glob + isfile
      ignores empty ones).
    - a file has bytes and an mtime token (what [os.stat().st_mtime] prints as); the mtime that
      the operating system gives to a file on writing is a parameter of the operation.
    - the hash function (SHA-512 truncated to 40 hex digits) is a parameter [H]. *)
From Coq Require Import String.
From Coq Require Import List ZArith Ascii Bool Arith.
From RV Require Import Base.Decimal Model.Bencode.
Import ListNotations.
Open Scope list_scope.

(** * Paths *)
Definition name := nat.
Definition dpath := list name.
Record fpath := mkF { fdir : dpath; fname : name }.

Fixpoint dpath_eqb (a b : dpath) : bool :=
  match a, b with
  | [], [] => true
  | x :: a', y :: b' => Nat.eqb x y && dpath_eqb a' b'
  | _, _ => false
  end.
Definition fpath_eqb (p q : fpath) : bool := dpath_eqb (fdir p) (fdir q) && Nat.eqb (fname p) (fname q).

(** [is_prefix d e]: directory [e] is [d] or lies below [d]. *)
Fixpoint is_prefix (d e : dpath) : bool :=
  match d, e with
  | [], _ => true
  | x :: d', y :: e' => Nat.eqb x y && is_prefix d' e'
  | _ :: _, [] => false
  end.
(** the part of [e] below [d] (only used when [is_prefix d e]) *)
Fixpoint strip_prefix (d e : dpath) : dpath :=
  match d, e with
  | _ :: d', _ :: e' => strip_prefix d' e'
  | _, _ => e
  end.

Definition B (s : string) : bytes := list_ascii_of_string s.
Definition render_name (c : ascii) (n : name) : bytes := c :: dec_of_nat n.
Fixpoint render_d (d : dpath) : bytes :=
  match d with
  | [] => []
  | [n] => render_name "d" n
  | n :: r => render_name "d" n ++ "/"%char :: render_d r
  end.
Definition render_f (p : fpath) : bytes :=
  match fdir p with
  | [] => render_name "f" (fname p)
  | d => render_d d ++ "/"%char :: render_name "f" (fname p)
  end.
(** FileSet patterns of the model: [d/*] (files directly in d) and [d/**] (files below d). *)
Definition render_pat (d : dpath) (recursive : bool) : bytes :=
  render_d d ++ B (if recursive then "/**" else "/*").

(** * Filesystem *)
Record fnode := mkN { content : bytes; mtime : Z }.
Definition fsys := list (fpath * fnode).

Fixpoint fs_get (fs : fsys) (p : fpath) : option fnode :=
  match fs with
  | [] => None
  | (q, n) :: r => if fpath_eqb q p then Some n else fs_get r p
  end.
Fixpoint fs_set (fs : fsys) (p : fpath) (n : fnode) : fsys :=
  match fs with
  | [] => [(p, n)]
  | (q, m) :: r => if fpath_eqb q p then (q, n) :: r else (q, m) :: fs_set r p n
  end.
Definition fs_del (fs : fsys) (p : fpath) : fsys := filter (fun e => negb (fpath_eqb (fst e) p)) fs.
Definition fs_rmtree (fs : fsys) (d : dpath) : fsys := filter (fun e => negb (is_prefix d (fdir (fst e)))) fs.

(** glob(pattern) filtered by isfile *)
Definition matches (d : dpath) (recursive : bool) (p : fpath) : bool :=
  if recursive then is_prefix d (fdir p) else dpath_eqb d (fdir p).
Definition members (fs : fsys) (d : dpath) (recursive : bool) : list (fpath * fnode) :=
  filter (fun e => matches d recursive (fst e)) fs.

(** LocalFileSystem operations on files (t = the mtime the OS assigns) *)
Definition fs_write (fs : fsys) (p : fpath) (data : bytes) (t : Z) : fsys := fs_set fs p (mkN data t).
Definition fs_append (fs : fsys) (p : fpath) (data : bytes) (t : Z) : fsys :=
  match fs_get fs p with
  | Some n => fs_set fs p (mkN (content n ++ data) t)
  | None => fs_set fs p (mkN data t)
  end.
(** touch: create empty if missing, else os.utime *)
Definition fs_touch (fs : fsys) (p : fpath) (t : Z) : fsys :=
  match fs_get fs p with
  | Some n => fs_set fs p (mkN (content n) t)
  | None => fs_set fs p (mkN [] t)
  end.

(** * The three sites where the code as shipped and the repaired code differ
    (extracted from the source by translate/tr_file.py). *)
Record variant := mkVar {
  dir_copy_updates : bool;        (* Dir.copy_to ends with dest_dir.update_hash() *)
  content_missing_total : bool;   (* ContentFile._calc_hash gives a hash for a missing path *)
  contentdir_by_content : bool    (* ContentDir._calc_hash hashes its members as ContentFile *)
}.
Definition shipped : variant := mkVar false false false.
Definition fixed : variant := mkVar true true true.

(** * Value classes *)
Inductive fam := FBase | FImm | FContent.
Inductive target := TFile (p : fpath) | TSet (d : dpath) (recursive : bool) | TDir (d : dpath).
Definition hash := bytes.
Record vobj := mkV { vfam : fam; vtarget : target; vhash : option hash }.

Definition bn_file (f : fam) : bytes := B (match f with FBase => "File" | FImm => "IFile" | FContent => "ContentFile" end).
Definition bn_set (f : fam) : bytes := B (match f with FBase => "FileSet" | FImm => "IFileSet" | FContent => "ContentFileSet" end).
Definition bn_dir (f : fam) : bytes := B (match f with FBase => "Dir" | FImm => "IDir" | FContent => "ContentDir" end).

(** sorted(hashes) *)
Fixpoint insert_bytes (x : bytes) (l : list bytes) : list bytes :=
  match l with
  | [] => [x]
  | y :: r => if bytes_ltb y x then y :: insert_bytes x r else x :: l
  end.
Fixpoint sort_bytes (l : list bytes) : list bytes :=
  match l with
  | [] => []
  | x :: r => insert_bytes x (sort_bytes r)
  end.

Section WithHash.
  Variable H : bytes -> hash.       (* hexdigest()[:40] of SHA-512, as bytes *)

  Definition hash_struct (l : list data) : hash := H (enc (BList l)).

  (** LocalFileSystem.get_hash: size and mtime, or -1 / -1 for a missing path *)
  Definition hash_file_base (fs : fsys) (p : fpath) : hash :=
    match fs_get fs p with
    | Some n => hash_struct [BStr (B "File"); BStr (B "local"); BStr (render_f p);
                             BInt (Z.of_nat (length (content n))); BStr (dec_of_Z (mtime n))]
    | None => hash_struct [BStr (B "File"); BStr (B "local"); BStr (render_f p); BInt (-1); BStr (dec_of_Z (-1))]
    end.

  (** File._calc_hash / IFile._calc_hash / ContentFile._calc_hash; [None] = raises FileNotFoundError *)
  Definition hash_file (v : variant) (f : fam) (fs : fsys) (p : fpath) : option hash :=
    match f with
    | FBase => Some (hash_file_base fs p)
    | FImm => Some (hash_struct [BStr (bn_file FImm); BStr (render_f p)])
    | FContent =>
        match fs_get fs p with
        | Some n => Some (hash_struct [BStr (bn_file FContent); BStr (render_f p); BStr (H (content n))])
        | None => if content_missing_total v
                  then Some (hash_struct [BStr (bn_file FContent); BStr (render_f p); BInt (-1)])
                  else None
        end
    end.

  Definition set_struct (bn : bytes) (pat : bytes) (hs : list hash) : hash :=
    hash_struct (BStr bn :: BStr pat :: map BStr (sort_bytes hs)).

  (** FileSet._calc_hash: members are [self.classes.File(path)] for glob matches that are files *)
  Definition hash_set (v : variant) (f : fam) (fs : fsys) (d : dpath) (recursive : bool) : option hash :=
    match f with
    | FImm => Some (hash_struct [BStr (bn_set FImm); BStr (render_pat d recursive)])
    | _ => option_map (set_struct (bn_set f) (render_pat d recursive))
             (all_some (map (fun e => hash_file v f fs (fst e)) (members fs d recursive)))
    end.

  (** Dir._calc_hash: FileSystem.iter_file_hashes(path) = base [File] hashes of [Dir(path)];
      IDir overrides; ContentDir overrides only in the repaired variant *)
  Definition hash_dir (v : variant) (f : fam) (fs : fsys) (d : dpath) : option hash :=
    match f with
    | FImm => Some (hash_struct [BStr (bn_dir FImm); BStr (render_d d)])
    | FBase => Some (set_struct (bn_dir FBase) (render_d d)
                       (map (fun e => hash_file_base fs (fst e)) (members fs d true)))
    | FContent =>
        if contentdir_by_content v
        then option_map (set_struct (bn_dir FContent) (render_d d))
               (all_some (map (fun e => hash_file v FContent fs (fst e)) (members fs d true)))
        else Some (set_struct (bn_dir FContent) (render_d d)
                     (map (fun e => hash_file_base fs (fst e)) (members fs d true)))
    end.

  (** Listing versus hashing walk.  Iterating a Dir (and Dir.copy_to, staging, iter_subvalues) lists
      its members with the recursive glob: [dir_listing].  Dir._calc_hash asks the filesystem for the
      member hashes (iter_file_hashes); on the local filesystem that is the inherited generic method,
      which iterates [Dir(path)] -- the same listing ([WalkListing], what translate/tr_file.py must
      find).  [dir_hash_with walk] is the Dir hash for an arbitrary hashing walk. *)
  Definition dir_listing (fs : fsys) (d : dpath) : list (fpath * fnode) := members fs d true.
  Definition dir_hash_with (walk : fsys -> dpath -> list (fpath * fnode)) (bn : bytes) (fs : fsys) (d : dpath) : hash :=
    set_struct bn (render_d d) (map (fun e => hash_file_base fs (fst e)) (walk fs d)).

  Definition calc_target (v : variant) (f : fam) (fs : fsys) (t : target) : option hash :=
    match t with
    | TFile p => hash_file v f fs p
    | TSet d r => hash_set v f fs d r
    | TDir d => hash_dir v f fs d
    end.
  (** [_calc_hash()] of an object *)
  Definition calc_hash (v : variant) (fs : fsys) (o : vobj) : option hash :=
    calc_target v (vfam o) fs (vtarget o).

  (** ** Validity of one value.  File.is_valid / FileSet.is_valid (inherited by Dir, IDir and the
      content family); IFile.is_valid and IFileSet.is_valid return True. *)
  Inductive vres := VTrue | VFalse | VRaise.
  Definition always_valid (o : vobj) : bool :=
    match vfam o, vtarget o with
    | FImm, TFile _ | FImm, TSet _ _ => true
    | _, _ => false
    end.
  Fixpoint hash_eqb (a b : hash) : bool :=
    match a, b with
    | [], [] => true
    | x :: a', y :: b' => Ascii.eqb x y && hash_eqb a' b'
    | _, _ => false
    end.
  (** result and the object afterwards (a value without recorded hash records the current one) *)
  Definition obj_is_valid (v : variant) (fs : fsys) (o : vobj) : vres * vobj :=
    if always_valid o then (VTrue, o)
    else match vhash o with
         | None => match calc_hash v fs o with
                   | Some h => (VTrue, mkV (vfam o) (vtarget o) (Some h))
                   | None => (VRaise, o)
                   end
         | Some r => match calc_hash v fs o with
                     | Some h => (if hash_eqb r h then VTrue else VFalse, o)
                     | None => (VRaise, o)
                     end
         end.

  (** * C30: objects with a cached [_hash], operations through redun and from outside *)
  Record state := mkS { s_fs : fsys; s_objs : list vobj }.

  Inductive op :=
  | ONew (f : fam) (t : target)                    (* File(path) / Dir(path) / FileSet(pattern) ... *)
  | OHash (i : nat)                                (* read the [hash] property *)
  | OUpdate (i : nat)                              (* update_hash() *)
  | OIsValid (i : nat)
  | OWrite (i : nat) (data : bytes) (t : Z)        (* File.write / open('w') ... close *)
  | OAppend (i : nat) (data : bytes) (t : Z)       (* open('a') ... close *)
  | ORemove (i : nat)                              (* File.remove *)
  | OTouch (i : nat) (t : Z)                       (* File.touch *)
  | OCopyFile (i j : nat) (t : Z)                  (* File.copy_to(dest) *)
  | OCopyDir (i j : nat) (mts : list (fpath * Z))  (* Dir.copy_to(dest); mtimes of the files created *)
  | OStageFile (l r : nat) (t : Z)                 (* StagingFile(l, r).stage() *)
  | OUnstageFile (l r : nat) (t : Z)
  | OStageDir (l r : nat) (mts : list (fpath * Z))
  | OUnstageDir (l r : nat) (mts : list (fpath * Z))
  | OMkdir (i : nat)                               (* Dir.mkdir *)
  | ORmdir (i : nat)                               (* Dir.rmdir(recursive=True) *)
  | XWrite (p : fpath) (data : bytes) (t : Z)      (* changes made behind redun's back *)
  | XRemove (p : fpath)
  | XTouch (p : fpath) (t : Z)
  | XRmtree (d : dpath).

  Inductive exn := EFileNotFound | ESameFile.
  Inductive rval := RUnit | RBool (b : bool) | RHash (h : hash) | RObj (i : nat).
  Inductive res :=
  | ROk (st : state) (r : rval)
  | RRaise (st : state) (e : exn)
  | RUnmodelled.      (* ill-typed operation (no such method / object) or overlapping directory copy *)

  Fixpoint set_nth {A} (l : list A) (i : nat) (x : A) : list A :=
    match l, i with
    | [], _ => []
    | _ :: r, O => x :: r
    | y :: r, S i' => y :: set_nth r i' x
    end.
  Definition with_hash (o : vobj) (h : hash) : vobj := mkV (vfam o) (vtarget o) (Some h).
  Definition set_hash (st : state) (fs : fsys) (i : nat) (o : vobj) (h : hash) : state :=
    mkS fs (set_nth (s_objs st) i (with_hash o h)).

  (** [obj.update_hash()] on filesystem [fs] (which replaces the state's filesystem) *)
  Definition do_update (v : variant) (st : state) (fs : fsys) (i : nat) (o : vobj) (r : rval) : res :=
    match calc_hash v fs o with
    | Some h => ROk (set_hash st fs i o h) r
    | None => RRaise (mkS fs (s_objs st)) EFileNotFound
    end.

  Definition lookup_mt (mts : list (fpath * Z)) (p : fpath) : Z :=
    match find (fun e => fpath_eqb (fst e) p) mts with Some e => snd e | None => 0%Z end.

  (** File.copy_to: shutil.copyfile, then dest_file.update_hash() *)
  Definition copy_file (v : variant) (st : state) (i j : nat) (t : Z) : res :=
    match nth_error (s_objs st) i, nth_error (s_objs st) j with
    | Some src, Some dst =>
        match vtarget src, vtarget dst with
        | TFile p, TFile q =>
            match fs_get (s_fs st) p with
            | None => RRaise st EFileNotFound     (* also when p = q: samefile() of a missing path is False *)
            | Some n => if fpath_eqb p q then RRaise st ESameFile
                        else do_update v st (fs_set (s_fs st) q (mkN (content n) t)) j dst (RObj j)
            end
        | _, _ => RUnmodelled
        end
    | _, _ => RUnmodelled
    end.

  (** Dir.copy_to: every file below the source is copied to the same relative path below the
      destination (the per-file update_hash is on a temporary object); the destination Dir's own
      hash is recomputed only in the repaired variant *)
  Definition copy_members (fs : fsys) (s d : dpath) (mts : list (fpath * Z)) : fsys :=
    fold_left (fun acc e =>
                 let q := mkF (d ++ strip_prefix s (fdir (fst e))) (fname (fst e)) in
                 fs_set acc q (mkN (content (snd e)) (lookup_mt mts q)))
              (members fs s true) fs.
  Definition copy_dir (v : variant) (st : state) (i j : nat) (mts : list (fpath * Z)) : res :=
    match nth_error (s_objs st) i, nth_error (s_objs st) j with
    | Some src, Some dst =>
        match vtarget src, vtarget dst with
        | TDir s, TDir d =>
            if is_prefix s d || is_prefix d s then RUnmodelled
            else let fs' := copy_members (s_fs st) s d mts in
                 if dir_copy_updates v then do_update v st fs' j dst (RObj j)
                 else ROk (mkS fs' (s_objs st)) (RObj j)
        | _, _ => RUnmodelled
        end
    | _, _ => RUnmodelled
    end.

  Definition target_eqb (a b : target) : bool :=
    match a, b with
    | TFile p, TFile q => fpath_eqb p q
    | TDir d, TDir e => dpath_eqb d e
    | _, _ => false
    end.
  (** StagingFile/StagingDir.stage(): `if local.path == remote.path: return local`, else remote.copy_to(local) *)
  Definition stage_gen (copy : nat -> nat -> res) (st : state) (from to ret_same : nat) : res :=
    match nth_error (s_objs st) from, nth_error (s_objs st) to with
    | Some a, Some b => if target_eqb (vtarget a) (vtarget b) then ROk st (RObj ret_same) else copy from to
    | _, _ => RUnmodelled
    end.

  Definition step (v : variant) (st : state) (o : op) : res :=
    let fs := s_fs st in
    let file_op (i : nat) (k : vobj -> fpath -> res) : res :=
      match nth_error (s_objs st) i with
      | Some ob => match vtarget ob with TFile p => k ob p | _ => RUnmodelled end
      | None => RUnmodelled
      end in
    let dir_op (i : nat) (k : vobj -> dpath -> res) : res :=
      match nth_error (s_objs st) i with
      | Some ob => match vtarget ob with TDir d => k ob d | _ => RUnmodelled end
      | None => RUnmodelled
      end in
    match o with
    | ONew f t => ROk (mkS fs (s_objs st ++ [mkV f t None])) (RObj (length (s_objs st)))
    | OHash i =>
        match nth_error (s_objs st) i with
        | Some ob => match vhash ob with
                     | Some h => ROk st (RHash h)
                     | None => match calc_hash v fs ob with
                               | Some h => ROk (set_hash st fs i ob h) (RHash h)
                               | None => RRaise st EFileNotFound
                               end
                     end
        | None => RUnmodelled
        end
    | OUpdate i =>
        match nth_error (s_objs st) i with
        | Some ob => do_update v st fs i ob RUnit
        | None => RUnmodelled
        end
    | OIsValid i =>
        match nth_error (s_objs st) i with
        | Some ob => match obj_is_valid v fs ob with
                     | (VTrue, ob') => ROk (mkS fs (set_nth (s_objs st) i ob')) (RBool true)
                     | (VFalse, _) => ROk st (RBool false)
                     | (VRaise, _) => RRaise st EFileNotFound
                     end
        | None => RUnmodelled
        end
    | OWrite i data t => file_op i (fun ob p => do_update v st (fs_write fs p data t) i ob RUnit)
    | OAppend i data t => file_op i (fun ob p => do_update v st (fs_append fs p data t) i ob RUnit)
    | ORemove i => file_op i (fun ob p => ROk (mkS (fs_del fs p) (s_objs st)) RUnit)
    | OTouch i t => file_op i (fun ob p => ROk (mkS (fs_touch fs p t) (s_objs st)) RUnit)
    | OCopyFile i j t => copy_file v st i j t
    | OCopyDir i j mts => copy_dir v st i j mts
    | OStageFile l r t => stage_gen (fun a b => copy_file v st a b t) st r l l
    | OUnstageFile l r t => stage_gen (fun a b => copy_file v st a b t) st l r r
    | OStageDir l r mts => stage_gen (fun a b => copy_dir v st a b mts) st r l l
    | OUnstageDir l r mts => stage_gen (fun a b => copy_dir v st a b mts) st l r r
    | OMkdir i => dir_op i (fun ob d => do_update v st fs i ob RUnit)
    | ORmdir i => dir_op i (fun ob d => do_update v st (fs_rmtree fs d) i ob RUnit)
    | XWrite p data t => ROk (mkS (fs_write fs p data t) (s_objs st)) RUnit
    | XRemove p => ROk (mkS (fs_del fs p) (s_objs st)) RUnit
    | XTouch p t => ROk (mkS (fs_touch fs p t) (s_objs st)) RUnit
    | XRmtree d => ROk (mkS (fs_rmtree fs d) (s_objs st)) RUnit
    end.

  Definition res_state (st : state) (r : res) : state :=
    match r with ROk st' _ | RRaise st' _ => st' | RUnmodelled => st end.

  (** states reachable from an arbitrary filesystem with no objects *)
  Inductive reachable (v : variant) : state -> Prop :=
  | reach_init fs : reachable v (mkS fs [])
  | reach_step st o : reachable v st -> step v st o <> RUnmodelled -> reachable v (res_state st (step v st o)).

  (** what [obj.hash] returns: the cached hash, else a fresh one *)
  Definition observed_hash (v : variant) (st : state) (i : nat) : option hash :=
    match nth_error (s_objs st) i with
    | Some ob => match vhash ob with Some h => Some h | None => calc_hash v (s_fs st) ob end
    | None => None
    end.
  Definition fresh_hash (v : variant) (st : state) (i : nat) : option hash :=
    match nth_error (s_objs st) i with
    | Some ob => calc_hash v (s_fs st) ob
    | None => None
    end.

  (** * C04: nested results, is_valid_nested, the validity branch of Scheduler._get_cache *)
  (** A cached result can also be (or contain) an *expression* -- a task returning `other(x, data=f)`.
      To iter_nested_value an Expression is a leaf Value; its own is_valid walks the Values nested in
      its arguments (redun/expression.py).  [kw] / [args]: the leaves of the keyword / positional
      arguments in the order that walk meets them (iter_nested_value((args, kwargs)) reaches the
      kwargs first).  TaskExpression (and SchedulerExpression, which inherits it) first requires the
      task name to be registered ([known]). *)
  Inductive ekind := ETask | ESimple.
  Inductive leaf :=
  | LPlain                      (* ordinary value: Value.is_valid is True *)
  | LExt (o : vobj)             (* File / FileSet / Dir of any family, with its recorded hash *)
  | LHandle (valid : bool)      (* Handle: validity is the backend's row flag (C25) *)
  | LExpr (k : ekind) (known : bool) (kw args : list leaf).
  Inductive nested := NLeaf (l : leaf) | NNode (children : list nested).

  (** which argument containers the validity walk of an expression covers, per class
      (extracted from redun/expression.py by translate/tr_expr.py) *)
  Record evariant := mkEV { task_walks_kwargs : bool; simple_walks_kwargs : bool }.
  Definition full_ev : evariant := mkEV true true.
  Definition walks_kwargs (ev : evariant) (k : ekind) : bool :=
    match k with ETask => task_walks_kwargs ev | ESimple => simple_walks_kwargs ev end.

  (** all(... for value in ...): stops at the first False; an exception propagates *)
  Definition vall {A} (f : A -> vres) : list A -> vres :=
    fix go (ls : list A) : vres :=
      match ls with
      | [] => VTrue
      | x :: r => match f x with VTrue => go r | VFalse => VFalse | VRaise => VRaise end
      end.

  Section ExprCfg.
  Variable ev : evariant.

  (** iter_nested_value: explicit stack, so children are visited last to first *)
  Fixpoint visit (n : nested) : list leaf :=
    match n with
    | NLeaf l => [l]
    | NNode cs => (fix go (cs : list nested) : list leaf :=
                     match cs with [] => [] | c :: r => go r ++ visit c end) cs
    end.
  Fixpoint leaf_valid (v : variant) (fs : fsys) (l : leaf) : vres :=
    match l with
    | LPlain => VTrue
    | LExt o => fst (obj_is_valid v fs o)
    | LHandle b => if b then VTrue else VFalse
    | LExpr k known kw args =>
        if (match k with ETask => known | ESimple => true end)
        then match (if walks_kwargs ev k then vall (leaf_valid v fs) kw else VTrue) with
             | VTrue => vall (leaf_valid v fs) args
             | r => r
             end
        else VFalse
    end.
  (** all(map(is_valid, leaves)): stops at the first False; an exception propagates *)
  Fixpoint all_valid (v : variant) (fs : fsys) (ls : list leaf) : vres :=
    match ls with
    | [] => VTrue
    | l :: r => match leaf_valid v fs l with
                | VTrue => all_valid v fs r
                | VFalse => VFalse
                | VRaise => VRaise
                end
    end.
  Definition is_valid_nested (v : variant) (fs : fsys) (n : nested) : vres := all_valid v fs (visit n).

  (** the if/elif chain at the end of _get_cache, as the translator extracts it *)
  Inductive cache_type := CT_CSE | CT_SINGLE | CT_ULTIMATE | CT_MISS.
  Inductive gc_test :=
  | TestCSEHandles   (* cache_type == CacheResult.CSE and self._has_valid_handles(result) *)
  | TestCSE | TestError | TestMiss | TestValid.
  Inductive gc_out := OutHit | OutMiss.
  Definition gc_chain := list (gc_test * gc_out).
  (** the chain of the current source (since the C25 repair a same-execution hit is used only if
      every Handle in it is still valid; other external values are not re-checked there) *)
  Definition code_chain : gc_chain :=
    [(TestCSEHandles, OutHit); (TestCSE, OutMiss); (TestError, OutMiss); (TestMiss, OutMiss); (TestValid, OutHit)].
  Inductive gc_res := GHit | GMiss | GRaise.
  Definition out_res (o : gc_out) : gc_res := match o with OutHit => GHit | OutMiss => GMiss end.
  (** Scheduler._has_valid_handles: all(handle.is_valid() for Handle leaves); never raises *)
  Definition handles_valid (n : nested) : bool :=
    forallb (fun l => match l with LHandle b => b | _ => true end) (visit n).
  Fixpoint eval_chain (c : gc_chain) (ct : cache_type) (is_error : bool) (handles_ok : bool) (valid : vres) : gc_res :=
    match c with
    | [] => GMiss                         (* the final else: "Cached result is no longer valid" *)
    | (t, o) :: r =>
        match t with
        | TestCSEHandles => match ct with
                            | CT_CSE => if handles_ok then out_res o else eval_chain r ct is_error handles_ok valid
                            | _ => eval_chain r ct is_error handles_ok valid
                            end
        | TestCSE => match ct with CT_CSE => out_res o | _ => eval_chain r ct is_error handles_ok valid end
        | TestError => if is_error then out_res o else eval_chain r ct is_error handles_ok valid
        | TestMiss => match ct with CT_MISS => out_res o | _ => eval_chain r ct is_error handles_ok valid end
        | TestValid => match valid with
                       | VTrue => out_res o
                       | VFalse => eval_chain r ct is_error handles_ok valid
                       | VRaise => GRaise
                       end
        end
    end.
  Definition get_cache (v : variant) (fs : fsys) (ct : cache_type) (is_error : bool) (result : nested) : gc_res :=
    eval_chain code_chain ct is_error (handles_valid result) (is_valid_nested v fs result).

  (** ** Run-level history machine: one cached task whose result holds external values.
      The task writes its outputs and returns fresh value objects; their hashes are taken when
      the result is recorded (end of the task). *)
  Inductive out_spec :=
  | OutFile (f : fam) (p : fpath) (data : bytes)
  | OutSet (f : fam) (d : dpath) (recursive : bool) (files : list (fpath * bytes))
  | OutDir (f : fam) (d : dpath) (files : list (fpath * bytes))
  | OutPlain.
  Definition task := list out_spec.

  Definition write_all (fs : fsys) (files : list (fpath * bytes)) (mts : list (fpath * Z)) : fsys :=
    fold_left (fun acc e => fs_write acc (fst e) (snd e) (lookup_mt mts (fst e))) files fs.
  Definition spec_files (s : out_spec) : list (fpath * bytes) :=
    match s with
    | OutFile _ p data => [(p, data)]
    | OutSet _ _ _ files | OutDir _ _ files => files
    | OutPlain => []
    end.
  Definition spec_target (s : out_spec) : option (fam * target) :=
    match s with
    | OutFile f p _ => Some (f, TFile p)
    | OutSet f d r _ => Some (f, TSet d r)
    | OutDir f d _ => Some (f, TDir d)
    | OutPlain => None
    end.
  Definition exec_fs (fs : fsys) (tk : task) (mts : list (fpath * Z)) : fsys :=
    write_all fs (flat_map spec_files tk) mts.
  (** recording the result: [__getstate__] reads [hash] of every returned value; None = raises *)
  Fixpoint record (v : variant) (fs : fsys) (tk : task) : option (list nested) :=
    match tk with
    | [] => Some []
    | s :: r =>
        match record v fs r with
        | None => None
        | Some rest =>
            match spec_target s with
            | None => Some (NLeaf LPlain :: rest)
            | Some (f, t) => match calc_target v f fs t with
                             | Some h => Some (NLeaf (LExt (mkV f t (Some h))) :: rest)
                             | None => None
                             end
            end
        end
    end.

  Record hstate := mkH { h_fs : fsys; h_cache : option nested; h_execs : nat }.
  Inductive hop :=
  | HRun (mts : list (fpath * Z))         (* scheduler.run(task()); mtimes the OS assigns if it executes *)
  | HWrite (p : fpath) (data : bytes) (t : Z)   (* truncate / rewrite / recreate / add a member *)
  | HRemove (p : fpath)
  | HTouch (p : fpath) (t : Z)
  | HRmtree (d : dpath).
  Inductive hres :=
  | HReplayed (st : hstate) (r : nested)
  | HExecuted (st : hstate) (r : nested)
  | HRaised (st : hstate)
  | HChanged (st : hstate).

  Definition exec_task (v : variant) (tk : task) (st : hstate) (mts : list (fpath * Z)) : hres :=
    let fs' := exec_fs (h_fs st) tk mts in
    match record v fs' tk with
    | Some r => HExecuted (mkH fs' (Some (NNode r)) (S (h_execs st))) (NNode r)
    | None => HRaised (mkH fs' (h_cache st) (S (h_execs st)))
    end.
  Definition hstep (v : variant) (tk : task) (st : hstate) (o : hop) : hres :=
    match o with
    | HRun mts =>
        match h_cache st with
        | None => exec_task v tk st mts
        | Some r => match get_cache v (h_fs st) CT_SINGLE false r with
                    | GHit => HReplayed st r
                    | GMiss => exec_task v tk st mts
                    | GRaise => HRaised st
                    end
        end
    | HWrite p data t => HChanged (mkH (fs_write (h_fs st) p data t) (h_cache st) (h_execs st))
    | HRemove p => HChanged (mkH (fs_del (h_fs st) p) (h_cache st) (h_execs st))
    | HTouch p t => HChanged (mkH (fs_touch (h_fs st) p t) (h_cache st) (h_execs st))
    | HRmtree d => HChanged (mkH (fs_rmtree (h_fs st) d) (h_cache st) (h_execs st))
    end.
  Definition hres_state (r : hres) : hstate :=
    match r with HReplayed st _ | HExecuted st _ | HRaised st | HChanged st => st end.
  Definition hrun (v : variant) (tk : task) (st : hstate) (ops : list hop) : hstate :=
    fold_left (fun s o => hres_state (hstep v tk s o)) ops st.
  End ExprCfg.
End WithHash.

(** * Description of the class table, for the translator's tie.  One row per class in
    redun/file.py: its base, type_basename, the family its [classes] attribute names, and which of
    [_calc_hash] / [is_valid] it defines itself (with the recognised meaning). *)
Inductive calc_kind :=
| CkInherit
| CkFsGetHash            (* File: self.filesystem.get_hash(self.path) *)
| CkSetMembers           (* FileSet: [basename, pattern] + sorted(file.hash for file in files) *)
| CkDirFsIter            (* Dir: [basename, path] + sorted(self.filesystem.iter_file_hashes(self.path)) *)
| CkPathOnly             (* IFile / IDir: [basename, path] *)
| CkPatternOnly          (* IFileSet: [basename, pattern] *)
| CkContentStream        (* ContentFile: open + hash_stream, raises on a missing path *)
| CkContentStreamTotal   (* ContentFile: as above, a missing path hashes as [basename, path, -1] *)
| CkDirMembers.          (* ContentDir (repaired): [basename, path] + sorted(file.hash for file in files) *)
Inductive valid_kind := VkInherit | VkCompare | VkAlwaysTrue.
Record class_row := mkRow {
  c_name : string; c_base : string; c_basename : string; c_family : string;
  c_calc : calc_kind; c_valid : valid_kind }.

Definition class_table (v : variant) : list class_row := [
  mkRow "File" "Value" "File" "FileClasses" CkFsGetHash VkCompare;
  mkRow "FileSet" "Value" "FileSet" "FileClasses" CkSetMembers VkCompare;
  mkRow "Dir" "FileSet" "Dir" "FileClasses" CkDirFsIter VkInherit;
  mkRow "IFile" "File" "IFile" "IFileClasses" CkPathOnly VkAlwaysTrue;
  mkRow "IFileSet" "FileSet" "IFileSet" "IFileClasses" CkPatternOnly VkAlwaysTrue;
  mkRow "IDir" "Dir" "IDir" "IFileClasses" CkPathOnly VkInherit;
  mkRow "ContentFile" "File" "ContentFile" "ContentFileClasses"
        (if content_missing_total v then CkContentStreamTotal else CkContentStream) VkInherit;
  mkRow "ContentFileSet" "FileSet" "ContentFileSet" "ContentFileClasses" CkInherit VkInherit;
  mkRow "ContentDir" "Dir" "ContentDir" "ContentFileClasses"
        (if contentdir_by_content v then CkDirMembers else CkInherit) VkInherit
]%string.

(** how LocalFileSystem obtains iter_file_hashes: only the inherited generic method is recognised *)
Inductive hash_walk := WalkListing.     (* FileSystem.iter_file_hashes: `for file in Dir(path): yield file.hash` *)
Definition local_hash_walk : hash_walk := WalkListing.

(** where update_hash() is called in the mutating methods (true = the call is there) *)
Record update_sites := mkSites {
  us_open_close : bool;      (* File.open: close hook of a writable stream calls self.update_hash() *)
  us_file_copy : bool;       (* File.copy_to: dest_file.update_hash() *)
  us_dir_copy : bool;        (* Dir.copy_to: dest_dir.update_hash() *)
  us_mkdir : bool; us_rmdir : bool;
  us_remove : bool; us_touch : bool   (* File.remove / File.touch do not re-hash *)
}.
Definition sites_of (v : variant) : update_sites :=
  mkSites true true (dir_copy_updates v) true true false false.

(** * Helpers for the correspondence cases (hash = identity on pre-images) *)
Definition Hid (b : bytes) : hash := b.

Fixpoint index_of (h : hash) (tbl : list hash) (i : nat) : option nat :=
  match tbl with
  | [] => None
  | x :: r => if bytes_eqb x h then Some i else index_of h r (S i)
  end.
(** intern hashes in order of first appearance; [None] (no hash / raised) stays [None] *)
Fixpoint intern (tbl : list hash) (l : list (option hash)) : list (option nat) :=
  match l with
  | [] => []
  | None :: r => None :: intern tbl r
  | Some h :: r => match index_of h tbl 0 with
                   | Some i => Some i :: intern tbl r
                   | None => Some (length tbl) :: intern (tbl ++ [h]) r
                   end
  end.

(** observation after one operation: outcome code, then cached and fresh hash of every object *)
Definition res_code (r : res) : nat :=
  match r with
  | ROk _ RUnit => 0 | ROk _ (RBool true) => 1 | ROk _ (RBool false) => 2
  | ROk _ (RHash _) => 3 | ROk _ (RObj _) => 4
  | RRaise _ EFileNotFound => 10 | RRaise _ ESameFile => 11
  | RUnmodelled => 99
  end%nat.
Definition res_hash (r : res) : option hash :=
  match r with ROk _ (RHash h) => Some h | _ => None end.
Fixpoint run_obs (v : variant) (st : state) (ops : list op) : list nat * list (option hash) :=
  match ops with
  | [] => ([], [])
  | o :: r =>
      let rs := step Hid v st o in
      let st' := res_state st rs in
      let here := res_hash rs :: map vhash (s_objs st') ++ map (fun ob => calc_hash Hid v (s_fs st') ob) (s_objs st') in
      let (codes, hs) := run_obs v st' r in
      (res_code rs :: codes, here ++ hs)
  end.
