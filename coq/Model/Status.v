(** Executable model for C33: status filters of CallGraphQuery versus the displayed
    status of Job / Execution records.  No proofs here.

    Source (redun/backends/db/query.py, redun/backends/db/__init__.py):
      CallGraphQuery._job_status_term / filter_job_statuses / filter_execution_statuses,
      _join_jobs / _join_values / build / all,
      Job.calc_status / Job.status, Execution._job_status2exec_status / Execution.status,
      RedunBackendDb.record_job_start / record_job_end / record_call_node (the recording ops).

    What is a configuration ([cfg], regenerated from the source by translate/tr_status.py)
    and what is fixed here (pinned by shape, compared with the real code by the
    correspondence run):
      cfg   : the SQL term per status, the DONE=>CACHED widening for executions, outer/inner
              kind of the two joins, the decision list of calc_status, the job->execution
              status map, the error type name;
      fixed : SQL three-valued logic, join/where/distinct evaluation, ORM navigation
              (job.call_node, call_node.value, execution.job). *)
From Coq Require Import List String Bool NArith.
Import ListNotations.
Open Scope list_scope.

(* ------------------------------------------------------------------ statuses *)
Inductive status := RUNNING | CACHED | FAILED | DONE.

Definition status_eqb (a b : status) : bool :=
  match a, b with
  | RUNNING, RUNNING | CACHED, CACHED | FAILED, FAILED | DONE, DONE => true
  | _, _ => false
  end.

Definition all_status : list status := [RUNNING; CACHED; FAILED; DONE].

Fixpoint sassoc {B} (s : status) (l : list (status * B)) : option B :=
  match l with
  | [] => None
  | (k, v) :: r => if status_eqb s k then Some v else sassoc s r
  end.

(* ------------------------------------------------------------------ tables *)
Definition id := N.

(** Only the columns the status code reads.  [j_ended] is "end_time IS NOT NULL"
    (a non-null datetime is always truthy in Python). *)
Record job := mkJob { j_id : id; j_ended : bool; j_call : option id; j_cached : option bool }.
Record callnode := mkCN { c_hash : id; c_value : option id }.
Record value := mkVal { v_hash : id; v_type : option string }.
Record execution := mkExec { e_id : id; e_job : option id }.
Record db := mkDb { jobs : list job; callnodes : list callnode; vals : list value; execs : list execution }.

Definition empty_db : db := mkDb [] [] [] [].

(* ------------------------------------------------------------------ SQL side *)
Inductive tv := TT | TF | TU.   (* SQL three-valued logic; WHERE keeps TT only *)
Definition tv_and (a b : tv) : tv :=
  match a, b with TF, _ | _, TF => TF | TT, TT => TT | _, _ => TU end.
Definition tv_or (a b : tv) : tv :=
  match a, b with TT, _ | _, TT => TT | TF, TF => TF | _, _ => TU end.
Definition tv_not (a : tv) : tv := match a with TT => TF | TF => TT | TU => TU end.
Definition tv_true (a : tv) : bool := match a with TT => true | _ => false end.
Definition tv_of_bool (b : bool) : tv := if b then TT else TF.

Inductive col := JobEndTime | JobCallHash | JobCached | ValueType.

Inductive term :=
| IsNull (c : col)                 (* col.is_(None) *)
| IsNotNull (c : col)              (* col.isnot(None) / col.is_not(None) *)
| IsBool (c : col) (b : bool)      (* col.is_(True) / col.is_(False) *)
| EqStr (c : col) (s : string)     (* col == "s" *)
| NeStr (c : col) (s : string)     (* col != "s" *)
| TAnd (a b : term)                (* a & b *)
| TOr (a b : term)                 (* a | b, sa.or_ *)
| TNot (a : term).                 (* ~a *)

Inductive cell := CNull | CBool (b : bool) | CStr (s : string) | COther.

(** One row of  job [LEFT] JOIN call_node [LEFT] JOIN value. *)
Record jrow := mkRow { r_job : job; r_cn : option callnode; r_val : option value }.

Definition col_val (r : jrow) (c : col) : cell :=
  match c with
  | JobEndTime => if j_ended (r_job r) then COther else CNull
  | JobCallHash => match j_call (r_job r) with Some _ => COther | None => CNull end
  | JobCached => match j_cached (r_job r) with Some b => CBool b | None => CNull end
  | ValueType => match r_val r with
                 | Some v => match v_type v with Some s => CStr s | None => CNull end
                 | None => CNull
                 end
  end.

Definition cell_is_null (x : cell) : bool := match x with CNull => true | _ => false end.

(** [x IS TRUE] / [x IS FALSE] are never unknown; [=] / [<>] with NULL are unknown.
    Comparisons between a string constant and a non-string cell do not occur in
    well-typed terms ([term_ok] below); they are given TF. *)
Fixpoint eval (t : term) (r : jrow) : tv :=
  match t with
  | IsNull c => tv_of_bool (cell_is_null (col_val r c))
  | IsNotNull c => tv_of_bool (negb (cell_is_null (col_val r c)))
  | IsBool c b => match col_val r c with CBool b' => tv_of_bool (Bool.eqb b' b) | _ => TF end
  | EqStr c s => match col_val r c with CNull => TU | CStr s' => tv_of_bool (String.eqb s' s) | _ => TF end
  | NeStr c s => match col_val r c with CNull => TU | CStr s' => tv_of_bool (negb (String.eqb s' s)) | _ => TF end
  | TAnd a b => tv_and (eval a r) (eval b r)
  | TOr a b => tv_or (eval a r) (eval b r)
  | TNot a => tv_not (eval a r)
  end.

(** A SQL join condition [x = y] with a NULL side never matches. *)
Definition opt_id_eqb (a : option id) (b : id) : bool :=
  match a with Some x => N.eqb x b | None => false end.

Definition join {A B} (outer : bool) (on : A -> B -> bool) (l : list A) (rs : list B)
  : list (A * option B) :=
  flat_map (fun a => match filter (on a) rs with
                     | [] => if outer then [(a, None)] else []
                     | ms => map (fun b => (a, Some b)) ms
                     end) l.

(* ------------------------------------------------------------------ display side *)
Inductive cond :=
| CTypeIs (s : string)      (* result_type == "s" *)
| CTypeIsNot (s : string)   (* result_type != "s" *)
| CEnded (b : bool)         (* self.end_time  /  not self.end_time *)
| CCached (b : bool)        (* self.cached    /  not self.cached (None is falsy) *)
| CHasCall (b : bool).      (* self.call_hash /  not self.call_hash *)

Inductive disp := DStatus (s : status) | DRaise.   (* DRaise: AttributeError on a missing Value row *)

Definition disp_is (s : status) (x : disp) : bool :=
  match x with DStatus s' => status_eqb s' s | DRaise => false end.

(* ------------------------------------------------------------------ configuration *)
Record cfg := mkCfg {
  err_name : string;                       (* query.REDUN_ERROR_TYPE_NAME *)
  terms : list (status * term);            (* _job_status_term, in source order *)
  exec_extra : list (status * status);     (* filter_execution_statuses: if "DONE" in ...: append "CACHED" *)
  outer_cn : bool;                         (* _join_values: outerjoin(CallNode, ...) *)
  outer_val : bool;                        (* _join_values: outerjoin(Value, ...) *)
  calc_rules : list (cond * status);       (* Job.calc_status if/elif chain *)
  calc_default : status;                   (* ... else *)
  exec_none : status;                      (* _job_status2exec_status(None) *)
  exec_map : list (status * status)        (* job status -> execution status, identity if absent *)
}.

Definition err : string := "redun.ErrorValue".

Definition shipped : cfg := {|
  err_name := err;
  terms := [(RUNNING, TAnd (IsNull JobEndTime) (IsNull JobCallHash));
            (CACHED, IsBool JobCached true);
            (FAILED, EqStr ValueType err);
            (DONE, TAnd (IsBool JobCached false) (NeStr ValueType err))];
  exec_extra := [(DONE, CACHED)];
  outer_cn := true;
  outer_val := true;
  calc_rules := [(CTypeIs err, FAILED); (CEnded false, RUNNING); (CCached true, CACHED)];
  calc_default := DONE;
  exec_none := FAILED;
  exec_map := [(CACHED, DONE); (DONE, DONE)]
|}.

(** The repaired variant: the CACHED term excludes error results. *)
Definition fixed : cfg := {|
  err_name := err;
  terms := [(RUNNING, TAnd (IsNull JobEndTime) (IsNull JobCallHash));
            (CACHED, TAnd (IsBool JobCached true) (NeStr ValueType err));
            (FAILED, EqStr ValueType err);
            (DONE, TAnd (IsBool JobCached false) (NeStr ValueType err))];
  exec_extra := [(DONE, CACHED)];
  outer_cn := true;
  outer_val := true;
  calc_rules := [(CTypeIs err, FAILED); (CEnded false, RUNNING); (CCached true, CACHED)];
  calc_default := DONE;
  exec_none := FAILED;
  exec_map := [(CACHED, DONE); (DONE, DONE)]
|}.

(* ------------------------------------------------------------------ the queries *)
(** reduce(sa.or_, map(self._job_status_term, statuses)); None = the Python call raises
    (AssertionError on an empty list, NotImplementedError on a status without a term). *)
Definition term_of (c : cfg) (s : status) : option term := sassoc s (terms c).

Definition or_opt (acc : option term) (t : option term) : option term :=
  match acc, t with Some a, Some b => Some (TOr a b) | _, _ => None end.

Definition clause (c : cfg) (sts : list status) : option term :=
  match sts with
  | [] => None
  | s :: rest => fold_left (fun acc s' => or_opt acc (term_of c s')) rest (term_of c s)
  end.

Definition on_cn (j : job) (cn : callnode) : bool := opt_id_eqb (j_call j) (c_hash cn).
Definition on_val (jc : job * option callnode) (v : value) : bool :=
  match snd jc with Some cn => opt_id_eqb (c_value cn) (v_hash v) | None => false end.

(** _join_values applied to a list of Job rows. *)
Definition job_rows (c : cfg) (d : db) (js : list job) : list jrow :=
  map (fun x => mkRow (fst (fst x)) (snd (fst x)) (snd x))
      (join (outer_val c) on_val (join (outer_cn c) on_cn js (callnodes d)) (vals d)).

Fixpoint dedup (l : list id) : list id :=
  match l with
  | [] => []
  | x :: r => if existsb (N.eqb x) r then dedup r else x :: dedup r
  end.

(** CallGraphQuery(session).filter_job_statuses(sts).all(): ids of the Job records. *)
Definition filter_jobs (c : cfg) (d : db) (sts : list status) : option (list id) :=
  match clause c sts with
  | None => None
  | Some t => Some (dedup (map (fun r => j_id (r_job r))
                               (filter (fun r => tv_true (eval t r)) (job_rows c d (jobs d)))))
  end.

(** filter_execution_statuses: the status list is widened, executions are inner-joined
    with their root job (_join_jobs), then _join_values. *)
Definition widen (c : cfg) (sts : list status) : list status :=
  sts ++ flat_map (fun p => if existsb (status_eqb (fst p)) sts then [snd p] else []) (exec_extra c).

Definition exec_rows (c : cfg) (d : db) : list (execution * jrow) :=
  flat_map (fun e => map (fun r => (e, r))
                         (job_rows c d (filter (fun j => opt_id_eqb (e_job e) (j_id j)) (jobs d))))
           (execs d).

Definition filter_execs (c : cfg) (d : db) (sts : list status) : option (list id) :=
  match sts with
  | [] => None
  | _ => match clause c (widen c sts) with
         | None => None
         | Some t => Some (dedup (map (fun er => e_id (fst er))
                                      (filter (fun er => tv_true (eval t (snd er))) (exec_rows c d))))
         end
  end.

(* ------------------------------------------------------------------ the displayed status *)
(** ORM relationships (uselist=False): first row with the key, None when the key is NULL
    or no row has it. *)
Definition call_node_of (d : db) (j : job) : option callnode :=
  match j_call j with
  | None => None
  | Some h => find (fun cn => N.eqb h (c_hash cn)) (callnodes d)
  end.
Definition value_of (d : db) (cn : callnode) : option value :=
  match c_value cn with
  | None => None
  | Some h => find (fun v => N.eqb h (v_hash v)) (vals d)
  end.
Definition job_of (d : db) (e : execution) : option job :=
  match e_job e with
  | None => None
  | Some i => find (fun j => N.eqb i (j_id j)) (jobs d)
  end.

(** Job.status:  result_type = self.call_node.value.type if self.call_node else None.
    Outer None: AttributeError (call node without Value row). *)
Definition result_type (d : db) (j : job) : option (option string) :=
  match call_node_of d j with
  | None => Some None
  | Some cn => match value_of d cn with None => None | Some v => Some (v_type v) end
  end.

Definition opt_str_eqb (a : option string) (s : string) : bool :=
  match a with Some x => String.eqb x s | None => false end.

Definition cond_holds (k : cond) (j : job) (rt : option string) : bool :=
  match k with
  | CTypeIs s => opt_str_eqb rt s
  | CTypeIsNot s => negb (opt_str_eqb rt s)
  | CEnded b => Bool.eqb (j_ended j) b
  | CCached b => Bool.eqb (match j_cached j with Some true => true | _ => false end) b
  | CHasCall b => Bool.eqb (match j_call j with Some _ => true | None => false end) b
  end.

Fixpoint calc (rules : list (cond * status)) (dflt : status) (j : job) (rt : option string) : status :=
  match rules with
  | [] => dflt
  | (k, s) :: r => if cond_holds k j rt then s else calc r dflt j rt
  end.

Definition job_display (c : cfg) (d : db) (j : job) : disp :=
  match result_type d j with
  | None => DRaise
  | Some rt => DStatus (calc (calc_rules c) (calc_default c) j rt)
  end.

Definition exec_of_job (c : cfg) (o : option status) : status :=
  match o with
  | None => exec_none c
  | Some s => match sassoc s (exec_map c) with Some s' => s' | None => s end
  end.

Definition exec_display (c : cfg) (d : db) (e : execution) : disp :=
  match job_of d e with
  | None => DStatus (exec_of_job c None)
  | Some j => match job_display c d j with
              | DRaise => DRaise
              | DStatus s => DStatus (exec_of_job c (Some s))
              end
  end.

(* ------------------------------------------------------------------ recording histories *)
(** What RedunBackendDb writes.  [OStartJob j (Some e)]: record_job_start of the root job of
    execution e (the Execution row is written in the same commit).  [ORecordCallNode ch vh ty]:
    record_value (type name ty, kept if the hash is already present) followed by
    record_call_node (kept if present).  [OEndJob j root cached ch]: record_job_end with
    job.was_cached = cached and job.call_hash = ch; the job row is created first when missing. *)
Inductive op :=
| OStartJob (j : id) (root : option id)
| ORecordCallNode (ch vh : id) (ty : string)
| OEndJob (j : id) (root : option id) (cached : bool) (ch : id).

Definition has_id (i : id) (l : list id) : bool := existsb (N.eqb i) l.

Definition start_job (d : db) (j : id) (root : option id) : option db :=
  if has_id j (map j_id (jobs d)) then None            (* IntegrityError: primary key *)
  else match root with
       | None => Some (mkDb (jobs d ++ [mkJob j false None (Some false)]) (callnodes d) (vals d) (execs d))
       | Some e => if has_id e (map e_id (execs d)) then None
                   else Some (mkDb (jobs d ++ [mkJob j false None (Some false)]) (callnodes d) (vals d)
                                   (execs d ++ [mkExec e (Some j)]))
       end.

Definition end_row (j : id) (cached : bool) (ch : id) (x : job) : job :=
  if N.eqb (j_id x) j then mkJob j true (Some ch) (Some cached) else x.

Definition step (d : db) (o : op) : option db :=
  match o with
  | OStartJob j root => start_job d j root
  | ORecordCallNode ch vh ty =>
      let vs := if has_id vh (map v_hash (vals d)) then vals d else vals d ++ [mkVal vh (Some ty)] in
      let cs := if has_id ch (map c_hash (callnodes d)) then callnodes d
                else callnodes d ++ [mkCN ch (Some vh)] in
      Some (mkDb (jobs d) cs vs (execs d))
  | OEndJob j root cached ch =>
      if has_id ch (map c_hash (callnodes d)) then
        match (if has_id j (map j_id (jobs d)) then Some d else start_job d j root) with
        | None => None
        | Some d' => Some (mkDb (map (end_row j cached ch) (jobs d')) (callnodes d') (vals d') (execs d'))
        end
      else None                                       (* not a recording the scheduler performs *)
  end.

Fixpoint run (d : db) (h : list op) : option db :=
  match h with
  | [] => Some d
  | o :: r => match step d o with None => None | Some d' => run d' r end
  end.

(* ------------------------------------------------------------------ boolean well-formedness *)
(** The shape every recorded database has (proved for all histories in Proofs/StatusFacts.v,
    checked on databases written by the real scheduler in the correspondence run). *)
Fixpoint nodupb (l : list id) : bool :=
  match l with [] => true | x :: r => negb (has_id x r) && nodupb r end.

Definition val_okb (v : value) : bool := match v_type v with Some _ => true | None => false end.

Definition cn_okb (d : db) (cn : callnode) : bool :=
  match c_value cn with
  | None => false
  | Some vh => existsb (fun v => N.eqb vh (v_hash v)) (vals d)
  end.

Definition job_okb (d : db) (j : job) : bool :=
  match j_ended j, j_call j, j_cached j with
  | false, None, Some false => true
  | true, Some ch, Some _ => has_id ch (map c_hash (callnodes d))
  | _, _, _ => false
  end.

Definition exec_okb (d : db) (e : execution) : bool :=
  match e_job e with Some i => has_id i (map j_id (jobs d)) | None => false end.

Definition wfb (d : db) : bool :=
  nodupb (map j_id (jobs d)) && nodupb (map c_hash (callnodes d)) && nodupb (map v_hash (vals d))
  && nodupb (map e_id (execs d))
  && forallb val_okb (vals d) && forallb (cn_okb d) (callnodes d) && forallb (job_okb d) (jobs d) && forallb (exec_okb d) (execs d).

(* ------------------------------------------------------------------ abstract rows (finite) *)
(** What the status code can observe of one job and its joined rows, relative to the one
    string constant [err_name]. *)
Inductive ajoin :=
| JNoCN                         (* no call node row *)
| JNoVal                        (* call node, no value row *)
| JVal (ty : option bool).      (* value row; type NULL / = err_name / other *)

Record arow := mkA { a_ended : bool; a_call : bool; a_cached : option bool; a_join : ajoin }.

Definition abs_row (e : string) (r : jrow) : arow :=
  mkA (j_ended (r_job r))
      (match j_call (r_job r) with Some _ => true | None => false end)
      (j_cached (r_job r))
      (match r_cn r, r_val r with
       | None, _ => JNoCN
       | Some _, None => JNoVal
       | Some _, Some v => JVal (match v_type v with Some s => Some (String.eqb s e) | None => None end)
       end).

Definition a_type (a : arow) : option bool := match a_join a with JVal t => t | _ => None end.

Definition acol_null (a : arow) (c : col) : bool :=
  match c with
  | JobEndTime => negb (a_ended a)
  | JobCallHash => negb (a_call a)
  | JobCached => match a_cached a with None => true | Some _ => false end
  | ValueType => match a_type a with None => true | Some _ => false end
  end.

Fixpoint aeval (t : term) (a : arow) : tv :=
  match t with
  | IsNull c => tv_of_bool (acol_null a c)
  | IsNotNull c => tv_of_bool (negb (acol_null a c))
  | IsBool c b => match c, a_cached a with JobCached, Some b' => tv_of_bool (Bool.eqb b' b) | _, _ => TF end
  | EqStr c _ => match c, a_type a with ValueType, Some b => tv_of_bool b | ValueType, None => TU | _, _ => TF end
  | NeStr c _ => match c, a_type a with ValueType, Some b => tv_of_bool (negb b) | ValueType, None => TU | _, _ => TF end
  | TAnd x y => tv_and (aeval x a) (aeval y a)
  | TOr x y => tv_or (aeval x a) (aeval y a)
  | TNot x => tv_not (aeval x a)
  end.

(** Does the row survive the two joins? *)
Definition apresent (c : cfg) (a : arow) : bool :=
  match a_join a with
  | JNoCN => outer_cn c && outer_val c
  | JNoVal => outer_val c
  | JVal _ => true
  end.

Definition acond_holds (k : cond) (a : arow) : bool :=
  match k with
  | CTypeIs _ => match a_type a with Some b => b | None => false end
  | CTypeIsNot _ => negb (match a_type a with Some b => b | None => false end)
  | CEnded b => Bool.eqb (a_ended a) b
  | CCached b => Bool.eqb (match a_cached a with Some true => true | _ => false end) b
  | CHasCall b => Bool.eqb (a_call a) b
  end.

Fixpoint acalc (rules : list (cond * status)) (dflt : status) (a : arow) : status :=
  match rules with
  | [] => dflt
  | (k, s) :: r => if acond_holds k a then s else acalc r dflt a
  end.

Definition adisplay (c : cfg) (a : arow) : disp :=
  match a_join a with
  | JNoVal => DRaise
  | _ => DStatus (acalc (calc_rules c) (calc_default c) a)
  end.

(** Every string constant is [err_name]; string comparisons are on Value.type, IS TRUE/FALSE
    on Job.cached. *)
Fixpoint term_ok (e : string) (t : term) : bool :=
  match t with
  | IsNull _ | IsNotNull _ => true
  | IsBool c _ => match c with JobCached => true | _ => false end
  | EqStr c s | NeStr c s => match c with ValueType => String.eqb s e | _ => false end
  | TAnd a b | TOr a b => term_ok e a && term_ok e b
  | TNot a => term_ok e a
  end.

Definition cond_ok (e : string) (k : cond) : bool :=
  match k with CTypeIs s | CTypeIsNot s => String.eqb s e | _ => true end.

Definition consts_ok (c : cfg) : bool :=
  forallb (fun p => term_ok (err_name c) (snd p)) (terms c)
  && forallb (fun p => cond_ok (err_name c) (fst p)) (calc_rules c).

(** Row-level agreement: the job filter for [s] keeps the row iff it is displayed [s]. *)
Definition agree_job (c : cfg) (a : arow) (s : status) : bool :=
  match clause c [s] with
  | None => false
  | Some t => Bool.eqb (apresent c a && tv_true (aeval t a)) (disp_is s (adisplay c a))
  end.

Definition adisplay_exec (c : cfg) (a : arow) : disp :=
  match adisplay c a with DRaise => DRaise | DStatus s => DStatus (exec_of_job c (Some s)) end.

Definition agree_exec (c : cfg) (a : arow) (s : status) : bool :=
  match clause c (widen c [s]) with
  | None => false
  | Some t => Bool.eqb (apresent c a && tv_true (aeval t a)) (disp_is s (adisplay_exec c a))
  end.

(** The abstract rows of recorded databases: a running job, and an ended job
    (cached or not) x (error result or not). *)
Definition running_row : arow := mkA false false (Some false) JNoCN.
Definition ended_row (cached iserr : bool) : arow := mkA true true (Some cached) (JVal (Some iserr)).
Definition reach_rows : list arow :=
  [running_row; ended_row false false; ended_row false true; ended_row true false; ended_row true true].

(** The whole finite domain of abstract rows of databases with unique keys (a NULL call_hash
    joins nothing), for the exact disagreement sets. *)
Definition consistent (a : arow) : bool :=
  a_call a || match a_join a with JNoCN => true | _ => false end.
Definition all_rows : list arow :=
  filter consistent
  (flat_map (fun e => flat_map (fun cl => flat_map (fun ca => map (fun jn => mkA e cl ca jn)
    [JNoCN; JNoVal; JVal None; JVal (Some true); JVal (Some false)])
    [None; Some true; Some false]) [true; false]) [true; false]).

Definition exec_status : list status := [RUNNING; FAILED; DONE].   (* what an Execution can display *)

Definition cfg_ok_jobs (c : cfg) : bool :=
  consts_ok c && forallb (fun a => forallb (agree_job c a) all_status) reach_rows.
Definition cfg_ok_execs (c : cfg) : bool :=
  consts_ok c && forallb (fun a => forallb (agree_exec c a) exec_status) reach_rows.
Definition cfg_ok (c : cfg) : bool := cfg_ok_jobs c && cfg_ok_execs c.

(** Failing (row, status) pairs: the counterexample search the harness replays on the real code. *)
Definition bad_jobs (c : cfg) (rows : list arow) : list (arow * status) :=
  flat_map (fun a => flat_map (fun s => if agree_job c a s then [] else [(a, s)]) all_status) rows.
Definition bad_execs (c : cfg) (rows : list arow) : list (arow * status) :=
  flat_map (fun a => flat_map (fun s => if agree_exec c a s then [] else [(a, s)]) exec_status) rows.

(* ------------------------------------------------------------------ helpers for case files *)
Fixpoint subset (a b : list id) : bool :=
  match a with [] => true | x :: r => has_id x b && subset r b end.
Definition set_eqb (a b : list id) : bool := subset a b && subset b a && nodupb a.
Definition oset_eqb (a : option (list id)) (b : option (list id)) : bool :=
  match a, b with Some x, Some y => set_eqb x y | None, None => true | _, _ => false end.
Definition disp_eqb (a b : disp) : bool :=
  match a, b with DStatus x, DStatus y => status_eqb x y | DRaise, DRaise => true | _, _ => false end.

(** One correspondence case: a database, what the real filters returned for each single
    status (jobs, executions), and what every job / execution displayed. *)
Definition check_db (c : cfg) (d : db)
  (fj fe : list (status * option (list id))) (dj de : list (id * disp)) : bool :=
  forallb (fun p => oset_eqb (filter_jobs c d [fst p]) (snd p)) fj
  && forallb (fun p => oset_eqb (filter_execs c d [fst p]) (snd p)) fe
  && forallb (fun j => match find (fun p => N.eqb (fst p) (j_id j)) dj with
                       | Some p => disp_eqb (job_display c d j) (snd p) | None => false end) (jobs d)
  && forallb (fun e => match find (fun p => N.eqb (fst p) (e_id e)) de with
                       | Some p => disp_eqb (exec_display c d e) (snd p) | None => false end) (execs d)
  && Nat.eqb (List.length dj) (List.length (jobs d)) && Nat.eqb (List.length de) (List.length (execs d)).
