(** C23 — Record transfer between repositories (push / pull / export / import).

    Executable model, no proofs.  Anchors in /repo:
      redun/backends/db/__init__.py   get_*_child_edges, get_child_record_ids, iter_record_ids,
                                      get_records, has_records, put_records, _postprocess_new_records,
                                      _get_call_node (the shallow-cache currency test)
      redun/backends/db/serializers.py  the five per-model serializers
      redun/cli.py                    _sync_records, export_command, import_command

    Representation.  A repository is a finite map  id -> entity.  An entity bundles the primary
    row with the rows it owns (the rows its serializer writes and its deserializer re-creates):
      Execution : row
      Job       : row
      CallNode  : row + CallEdge rows (call_order, child) + Argument rows (+ ArgumentResult rows)
                  + CallSubtreeTask rows
      Value     : row + Subvalue rows + File row or Task row
      Tag       : row (incl. is_current) + TagEdit rows in which the tag is the child
    Ids (uuids and 40-hex hashes) are [N]; the harness numbers them by string order, so [N] order
    is the order of the SQLite primary-key index.  All other column contents are opaque payloads.
    Things the bundle representation cannot express (an id that is a primary key of two tables,
    orphan child rows, a Value with both a File and a Task row) are reported by the harness when
    it dumps a real database. *)
From Coq Require Import List NArith Bool Arith.
Import ListNotations.
Open Scope list_scope.

Definition id := N.
Definition payload := N.

(** ** The configuration the translator extracts from the source *)
Inductive child_order :=
| DbIndexOrder   (* no ordering requested: rows come back in primary-key index order (parent, child, call_order) *)
| ByCallOrder.   (* child edges are serialised in call_order order *)

Record config := mkConfig {
  cfg_child_order : child_order;   (* CallNodeSerializer "children" *)
  cfg_carry_subtree : bool;        (* CallNodeSerializer carries the CallSubtreeTask rows *)
  cfg_require_own : bool           (* _get_call_node: recorded subtree set must contain the node's own task *)
}.
Definition shipped : config := mkConfig DbIndexOrder false false.
Definition fixed : config := mkConfig ByCallOrder false true.

(** ** Entities *)
Record exec := mkExec { e_args : payload; e_job : id }.
Record job := mkJob { j_start : payload; j_end : option payload; j_task : id; j_cached : bool;
                      j_call : option id; j_parent : option id; j_exec : id }.
Inductive aloc := APos (i : nat) | AKey (k : payload).
Record arg := mkArg { a_hash : id; a_value : id; a_loc : aloc; a_up : list id }.
Record call := mkCall { c_name : payload; c_task : id; c_argsh : id; c_value : id; c_ts : payload;
                        c_edges : list (nat * id);      (* (call_order, child) *)
                        c_args : list arg;
                        c_subtree : list id }.
Inductive subtype := SubNone | SubFile (path : payload) | SubTask (name ns src : payload).
Record value := mkValue { v_type : payload; v_format : payload; v_data : payload;
                          v_subs : list id; v_subtype : subtype }.
Record tag := mkTag { t_etype : payload; t_entity : id; t_key : payload; t_value : payload;
                      t_parents : list id; t_current : bool }.
Inductive entity :=
| EExec (e : exec) | EJob (j : job) | ECall (c : call) | EValue (v : value) | ETag (t : tag).

Definition repo := list (id * entity).

Fixpoint find (r : repo) (i : id) : option entity :=
  match r with
  | [] => None
  | (k, e) :: t => if N.eqb k i then Some e else find t i
  end.
Definition ids (r : repo) : list id := map fst r.
Definition memN (x : N) (l : list N) : bool := existsb (N.eqb x) l.
Definition subsetN (a b : list N) : bool := forallb (fun x => memN x b) a.

(** ** Sorting (stable insertion sort) *)
Fixpoint insert {A} (leb : A -> A -> bool) (x : A) (l : list A) : list A :=
  match l with
  | [] => [x]
  | y :: t => if leb x y then x :: l else y :: insert leb x t
  end.
Fixpoint isort {A} (leb : A -> A -> bool) (l : list A) : list A :=
  match l with [] => [] | x :: t => insert leb x (isort leb t) end.
Definition sortN : list N -> list N := isort N.leb.

(** order of call_edge rows *)
Definition edge_leb_call (a b : nat * id) : bool := Nat.leb (fst a) (fst b).
Definition edge_leb_index (a b : nat * id) : bool :=   (* (parent,) child, call_order *)
  N.ltb (snd a) (snd b) || (N.eqb (snd a) (snd b) && Nat.leb (fst a) (fst b)).
Definition edges_in_order (o : child_order) (l : list (nat * id)) : list (nat * id) :=
  match o with
  | DbIndexOrder => isort edge_leb_index l
  | ByCallOrder => isort edge_leb_call l
  end.

(** ** Ownership edges (get_*_child_edges) and the layered walk (iter_record_ids) *)
Inductive kind := KExec | KJob | KCall | KValue | KTag | KTask.
Definition node := (kind * id)%type.

Definition opt_list {A} (o : option A) : list A := match o with Some x => [x] | None => [] end.

Definition child_jobs (r : repo) (i : id) : list id :=
  flat_map (fun p => match snd p with
                     | EJob j => match j_parent j with
                                 | Some q => if N.eqb q i then [fst p] else []
                                 | None => [] end
                     | _ => [] end) r.
Definition child_tags (r : repo) (i : id) : list id :=
  flat_map (fun p => match snd p with
                     | ETag t => if memN i (t_parents t) then [fst p] else []
                     | _ => [] end) r.
Definition entity_tags (r : repo) (i : id) : list id :=
  flat_map (fun p => match snd p with
                     | ETag t => if N.eqb (t_entity t) i then [fst p] else []
                     | _ => [] end) r.

Definition arg_edges (a : arg) : list node :=
  (KValue, a_value a) :: map (fun u => (KCall, u)) (a_up a).

(** the edge method chosen by the *type the id was reached as* (model2edge_method) *)
Definition own_edges (r : repo) (k : kind) (i : id) : list node :=
  match k, find r i with
  | KExec, Some (EExec e) => [(KJob, e_job e)]
  | KJob, Some (EJob j) =>
      (KTask, j_task j) :: map (fun c => (KCall, c)) (opt_list (j_call j))
      ++ map (fun c => (KJob, c)) (child_jobs r i)
  | KJob, _ => map (fun c => (KJob, c)) (child_jobs r i)
  | KCall, Some (ECall c) =>
      (KTask, c_task c) :: (KValue, c_value c)
      :: flat_map arg_edges (c_args c) ++ map (fun e => (KCall, snd e)) (c_edges c)
  | KValue, Some (EValue v) => map (fun s => (KValue, s)) (v_subs v)
  | KTag, Some (ETag t) =>
      map (fun p => (KTag, p)) (t_parents t) ++ map (fun c => (KTag, c)) (child_tags r i)
  | KTag, _ => map (fun c => (KTag, c)) (child_tags r i)
  | _, _ => []
  end.
(** get_child_record_ids: the typed edges plus the tags of every id (get_tag_entity_child_edges) *)
Definition children_of (r : repo) (n : node) : list node :=
  own_edges r (fst n) (snd n) ++ map (fun t => (KTag, t)) (entity_tags r (snd n)).

(** _get_record_types *)
Definition kind_of (e : entity) : kind :=
  match e with EExec _ => KExec | EJob _ => KJob | ECall _ => KCall | EValue _ => KValue | ETag _ => KTag end.
Definition root_nodes (r : repo) (roots : list id) : list node :=
  flat_map (fun i => match find r i with Some e => [(kind_of e, i)] | None => [] end) roots.

(** one pass over the proposed edges: unseen ids, first occurrence wins *)
Fixpoint pick_new (seen : list id) (front : list node) : list node :=
  match front with
  | [] => []
  | n :: t => if memN (snd n) seen then pick_new seen t
              else n :: pick_new (snd n :: seen) t
  end.

Inductive walk_result := WalkIds (l : list id) | WalkOutOfFuel.

Fixpoint walk (fuel : nat) (r : repo) (seen : list id) (front : list node) : walk_result :=
  match fuel with
  | O => WalkOutOfFuel
  | S f =>
      match pick_new seen front with
      | [] => WalkIds seen
      | new => walk f r (seen ++ map snd new) (flat_map (children_of r) new)
      end
  end.

(** every id the walk can ever see is an id of the repository or an edge target *)
Definition all_targets (r : repo) : list id :=
  flat_map (fun p => map snd (children_of r (kind_of (snd p), fst p))) r.
Definition universe (r : repo) : list id := ids r ++ all_targets r.
Definition walk_fuel (r : repo) : nat := S (length (universe r)).

Definition iter_record_ids (r : repo) (roots : list id) : walk_result :=
  walk (walk_fuel r) r [] (root_nodes r roots).

(** ** Serialised records *)
Inductive skey := SDigits (n : nat) | SName (k : payload).
Record sarg := mkSarg { sa_key : skey; sa_hash : id; sa_value : id; sa_up : list id }.
Inductive record :=
| RExec (i : id) (e : exec)
| RJob (i : id) (j : job)
| RCall (i : id) (name : payload) (task argsh value : id) (ts : payload)
        (args : list sarg) (children : list id) (subtree : option (list id))
| RValue (i : id) (ty fmt data : payload) (subs : list id) (st : subtype)
| RTag (i : id) (ety : payload) (ent : id) (key val : payload) (parents : list id).

Definition get_pk (rc : record) : id :=
  match rc with
  | RExec i _ | RJob i _ | RCall i _ _ _ _ _ _ _ _ | RValue i _ _ _ _ _ | RTag i _ _ _ _ _ => i
  end.

(** arg.arg_key or str(arg.arg_position)  /  int(key) if key.isdigit() else key.
    Domain: keyword names are non-empty and not digit strings (Python identifiers). *)
Definition ser_loc (l : aloc) : skey := match l with APos i => SDigits i | AKey k => SName k end.
Definition deser_loc (k : skey) : aloc := match k with SDigits i => APos i | SName k => AKey k end.
Definition ser_arg (a : arg) : sarg := mkSarg (ser_loc (a_loc a)) (a_hash a) (a_value a) (sortN (a_up a)).
Definition deser_arg (s : sarg) : arg := mkArg (sa_hash s) (sa_value s) (deser_loc (sa_key s)) (sa_up s).

Definition serialize (cfg : config) (i : id) (e : entity) : record :=
  match e with
  | EExec x => RExec i x
  | EJob j => RJob i j
  | ECall c =>
      RCall i (c_name c) (c_task c) (c_argsh c) (c_value c) (c_ts c)
            (map ser_arg (c_args c))
            (map snd (edges_in_order (cfg_child_order cfg) (c_edges c)))
            (if cfg_carry_subtree cfg then Some (sortN (c_subtree c)) else None)
  | EValue v => RValue i (v_type v) (v_format v) (v_data v) (sortN (v_subs v)) (v_subtype v)
  | ETag t => RTag i (t_etype t) (t_entity t) (t_key t) (t_value t) (t_parents t)
  end.

Fixpoint enumerate_from {A} (n : nat) (l : list A) : list (nat * A) :=
  match l with [] => [] | x :: t => (n, x) :: enumerate_from (S n) t end.

Definition deserialize (rc : record) : id * entity :=
  match rc with
  | RExec i x => (i, EExec x)
  | RJob i j => (i, EJob j)
  | RCall i name task argsh value ts args children subtree =>
      (i, ECall (mkCall name task argsh value ts (enumerate_from 0 children) (map deser_arg args)
                        (match subtree with Some l => l | None => [] end)))
  | RValue i ty fmt data subs st => (i, EValue (mkValue ty fmt data subs st))
  | RTag i ety ent key val parents => (i, ETag (mkTag ety ent key val parents true))   (* is_current default *)
  end.

(** get_records (sorted=True): one record per id that exists, in the order of the ids *)
Definition get_records (cfg : config) (r : repo) (l : list id) : list record :=
  flat_map (fun i => match find r i with Some e => [serialize cfg i e] | None => [] end) l.

(** ** put_records and _postprocess_new_records *)
Fixpoint new_records (existing : list id) (recs : list record) : list record :=
  match recs with
  | [] => []
  | rc :: t => if memN (get_pk rc) existing then new_records existing t
               else rc :: new_records (get_pk rc :: existing) t
  end.

Definition is_parent (r : repo) (i : id) : bool :=
  existsb (fun p => match snd p with ETag t => memN i (t_parents t) | _ => false end) r.

Definition postprocess (r : repo) : repo :=
  map (fun p => match snd p with
                | ETag t => if is_parent r (fst p)
                            then (fst p, ETag (mkTag (t_etype t) (t_entity t) (t_key t) (t_value t) (t_parents t) false))
                            else p
                | _ => p end) r.

Definition put_records (dst : repo) (recs : list record) : repo * nat :=
  let new := new_records (ids dst) recs in
  (postprocess (dst ++ map deserialize new), length new).

(** ** RedunClient._sync_records / export + import *)
Inductive sync_result := Synced (dst' : repo) (n : nat) | SyncOutOfFuel.
Definition sync (cfg : config) (src dst : repo) (roots : list id) : sync_result :=
  match iter_record_ids src roots with
  | WalkIds l => let (d, n) := put_records dst (get_records cfg src l) in Synced d n
  | WalkOutOfFuel => SyncOutOfFuel
  end.

(** ** The shallow ("ultimate reduction") cache lookup, RedunBackendDb._get_call_node,
       without the context filter (with a context: only nodes tagged with it; without one: only
       nodes recorded without a context) — it only narrows the candidates. *)
Definition current (cfg : config) (reg : list id) (c : call) : bool :=
  (if cfg_require_own cfg then memN (c_task c) (c_subtree c) else true)
  && subsetN (c_subtree c) reg.

Definition candidates (cfg : config) (r : repo) (reg : list id) (task argsh : id) : list (id * call) :=
  flat_map (fun p => match snd p with
                     | ECall c => if N.eqb (c_task c) task && N.eqb (c_argsh c) argsh && current cfg reg c
                                  then [(fst p, c)] else []
                     | _ => [] end) r.
(** newest timestamp first; ties: the first in table order *)
Fixpoint newest (l : list (id * call)) : option (id * call) :=
  match l with
  | [] => None
  | x :: t => match newest t with
              | Some y => if N.ltb (c_ts (snd x)) (c_ts (snd y)) then Some y else Some x
              | None => Some x end
  end.
Definition get_call_node (cfg : config) (r : repo) (reg : list id) (task argsh : id) : option id :=
  option_map fst (newest (candidates cfg r reg task argsh)).

(** ** Canonical form of an entity: what deserialize (serialize e) gives *)
Definition canon (cfg : config) (i : id) (e : entity) : entity := snd (deserialize (serialize cfg i e)).

(** ** Boolean equality and normalisation, for the correspondence run *)
Definition opt_eqb {A} (eqb : A -> A -> bool) (a b : option A) : bool :=
  match a, b with Some x, Some y => eqb x y | None, None => true | _, _ => false end.
Fixpoint list_eqb {A} (eqb : A -> A -> bool) (a b : list A) : bool :=
  match a, b with
  | [], [] => true
  | x :: s, y :: t => eqb x y && list_eqb eqb s t
  | _, _ => false
  end.
Definition aloc_eqb (a b : aloc) : bool :=
  match a, b with APos i, APos j => Nat.eqb i j | AKey k, AKey l => N.eqb k l | _, _ => false end.
Definition arg_eqb (a b : arg) : bool :=
  N.eqb (a_hash a) (a_hash b) && N.eqb (a_value a) (a_value b) && aloc_eqb (a_loc a) (a_loc b)
  && list_eqb N.eqb (a_up a) (a_up b).
Definition subtype_eqb (a b : subtype) : bool :=
  match a, b with
  | SubNone, SubNone => true
  | SubFile p, SubFile q => N.eqb p q
  | SubTask a1 a2 a3, SubTask b1 b2 b3 => N.eqb a1 b1 && N.eqb a2 b2 && N.eqb a3 b3
  | _, _ => false
  end.
Definition edge_eqb (a b : nat * id) : bool := Nat.eqb (fst a) (fst b) && N.eqb (snd a) (snd b).
Definition entity_eqb (a b : entity) : bool :=
  match a, b with
  | EExec x, EExec y => N.eqb (e_args x) (e_args y) && N.eqb (e_job x) (e_job y)
  | EJob x, EJob y =>
      N.eqb (j_start x) (j_start y) && opt_eqb N.eqb (j_end x) (j_end y) && N.eqb (j_task x) (j_task y)
      && Bool.eqb (j_cached x) (j_cached y) && opt_eqb N.eqb (j_call x) (j_call y)
      && opt_eqb N.eqb (j_parent x) (j_parent y) && N.eqb (j_exec x) (j_exec y)
  | ECall x, ECall y =>
      N.eqb (c_name x) (c_name y) && N.eqb (c_task x) (c_task y) && N.eqb (c_argsh x) (c_argsh y)
      && N.eqb (c_value x) (c_value y) && N.eqb (c_ts x) (c_ts y)
      && list_eqb edge_eqb (c_edges x) (c_edges y) && list_eqb arg_eqb (c_args x) (c_args y)
      && list_eqb N.eqb (c_subtree x) (c_subtree y)
  | EValue x, EValue y =>
      N.eqb (v_type x) (v_type y) && N.eqb (v_format x) (v_format y) && N.eqb (v_data x) (v_data y)
      && list_eqb N.eqb (v_subs x) (v_subs y) && subtype_eqb (v_subtype x) (v_subtype y)
  | ETag x, ETag y =>
      N.eqb (t_etype x) (t_etype y) && N.eqb (t_entity x) (t_entity y) && N.eqb (t_key x) (t_key y)
      && N.eqb (t_value x) (t_value y) && list_eqb N.eqb (t_parents x) (t_parents y)
      && Bool.eqb (t_current x) (t_current y)
  | _, _ => false
  end.

(** set-valued sub-tables in a fixed order (row order in a table is not observable) *)
Definition arg_leb (a b : arg) : bool := N.leb (a_hash a) (a_hash b).
Definition norm_arg (a : arg) : arg := mkArg (a_hash a) (a_value a) (a_loc a) (sortN (a_up a)).
Definition norm_entity (e : entity) : entity :=
  match e with
  | ECall c => ECall (mkCall (c_name c) (c_task c) (c_argsh c) (c_value c) (c_ts c)
                             (isort edge_leb_call (c_edges c))
                             (isort arg_leb (map norm_arg (c_args c)))
                             (sortN (c_subtree c)))
  | EValue v => EValue (mkValue (v_type v) (v_format v) (v_data v) (sortN (v_subs v)) (v_subtype v))
  | ETag t => ETag (mkTag (t_etype t) (t_entity t) (t_key t) (t_value t) (sortN (t_parents t)) (t_current t))
  | _ => e
  end.
Definition ent_leb (a b : id * entity) : bool := N.leb (fst a) (fst b).
Definition norm_repo (r : repo) : repo := isort ent_leb (map (fun p => (fst p, norm_entity (snd p))) r).
Definition repo_eqb (a b : repo) : bool :=
  list_eqb (fun p q => N.eqb (fst p) (fst q) && entity_eqb (snd p) (snd q)) a b.

(** the whole transfer, as compared with the real destination database *)
Definition sync_agrees (cfg : config) (src dst : repo) (roots : list id)
           (exp_ids : list id) (exp_dst : repo) (exp_n : nat) : bool :=
  match iter_record_ids src roots with
  | WalkIds l =>
      list_eqb N.eqb (sortN l) exp_ids
      && (let (d, n) := put_records dst (get_records cfg src l) in
          repo_eqb (norm_repo d) exp_dst && Nat.eqb n exp_n)
  | WalkOutOfFuel => false
  end.

(** ** The model's own description of what is carried, compared with the translator's output *)
From Coq Require Import String.
Open Scope string_scope.
(** serializer -> keys that serialize writes *and* deserialize reads *)
Definition carried_keys : list (string * list string) :=
  [ ("Execution", ["id"; "args"; "job_id"]);
    ("Job", ["id"; "start_time"; "end_time"; "task_hash"; "cached"; "call_hash"; "parent_id"; "execution_id"]);
    ("Value", ["value_hash"; "type"; "format"; "data"; "subvalues"; "subtype"]);
    ("CallNode", ["call_hash"; "task_name"; "task_hash"; "args_hash"; "value_hash"; "timestamp"; "args"; "children"]);
    ("Tag", ["tag_hash"; "entity_type"; "entity_id"; "key"; "value"; "parents"]) ].
(** edge label, source kind, target kind — in the order the edge functions yield them *)
Definition edge_table : list (string * string * string) :=
  [ ("Execution.job", "Execution", "Job");
    ("Job.task", "Job", "Task"); ("Job.call_hash", "Job", "CallNode"); ("Job.child_job", "Job", "Job");
    ("CallNode.task", "CallNode", "Task"); ("CallNode.result", "CallNode", "Value");
    ("CallNode.arg", "CallNode", "Value"); ("CallNode.upstream", "CallNode", "CallNode");
    ("CallNode.child_call_node", "CallNode", "CallNode");
    ("Value.subvalue", "Value", "Value");
    ("Tag.parent", "Tag", "Tag"); ("Tag.child", "Tag", "Tag");
    ("Entity.tag", "*", "Tag") ].
Definition model_pks : list (string * string) :=
  [ ("Execution", "id"); ("Job", "id"); ("CallNode", "call_hash"); ("Value", "value_hash"); ("Tag", "tag_hash") ].
