(** C10 — executor monitor threads (Docker, AWS Batch, K8S, GCP Batch, AWS Glue).

    Executable model, no proofs.  A transition system over the state shared by
      - the scheduler thread, which runs  [for j in jobs: executor._submit(j)]
        (insert the job into the pending map / queue, then [_start()]),
      - the monitor threads created by [_start()] (the [_monitor] loop, then [stop()]),
      - for Glue, the submission threads created by [_start()] ([_submission_thread]).
    One model step = what one thread does between two *marked lines* of the executor
    source (the lines that read or write [is_running], the pending collections, or create /
    join a thread); the translator [translate/tr_monitor.py] extracts the [_start] program and
    the marked lines per executor, the harness drives the real classes at exactly this
    granularity.  The cloud / container API is the in-model fake of the property text:
    every tracked job that is polled has completed. *)
From Coq Require Import List Bool Arith.
Import ListNotations.
Open Scope list_scope.

Definition job := nat.

Inductive which := Mon | Sub.

(** The body of [_start], as extracted from the source. *)
Inductive sop :=
| OIfNotFlag (body : list sop)              (* if not self.is_running: body *)
| OIfNotAlive (w : which) (body : list sop) (* if not self._thread or not self._thread.is_alive(): body *)
| OSetFlag                                  (* self.is_running = True *)
| OSpawn (w : which).                       (* self._thread = Thread(...); self._thread.start() *)

Record cfg := {
  start_ops : list sop;
  use_queue : bool;    (* Glue: submit appends to pending_glue_jobs; the submission thread moves
                          jobs to running_glue_jobs; the monitor guard also reads the queue *)
  stop_joins : bool;   (* stop() joins self._thread when that is another live thread *)
  locked : bool        (* Fixed discipline: submit (insert + _start) is one critical section and the
                          monitor's guard test + flag clear is one critical section of the same lock;
                          the monitor does not call stop() on its way out *)
}.

(** Monitor thread program counter = the marked line it is paused before. *)
Inductive mpc :=
| MGuard                 (* while self.is_running and self.pending: *)
| MSnap                  (* jobs = describe(copy of pending) *)
| MProc (l : list job)   (* before pending.pop(id) of the first job of the snapshot remainder *)
| MStop                  (* guard was false: before self.stop() *)
| MJoin                  (* inside stop(): flag cleared, before the join test *)
| MExit                  (* returning from _monitor: still alive *)
| MDead.

Inductive upc :=
| UGuard                 (* while self.is_running and self.pending_glue_jobs: *)
| UInner                 (* while fail_counter < 5 and self.pending_glue_jobs: *)
| UHold (j : job)        (* popped and submitted j, before running_glue_jobs[id] = job *)
| UExit
| UDead.

Record st := {
  flag : bool;             (* is_running *)
  queue : list job;        (* Glue pending_glue_jobs *)
  tracked : list job;      (* _pending_jobs / pending_batch_jobs / pending_k8s_jobs /
                              pending_batch_tasks / running_glue_jobs *)
  reported : list job;     (* done_job / reject_job(job, ...) calls, oldest first *)
  err : bool;              (* a monitor hit an exception: reject_job(None, error) *)
  todo : list job;         (* scheduler thread: jobs still to submit *)
  kont : list sop;         (* scheduler thread: rest of the current _start() call *)
  mons : list mpc;         (* monitor threads in creation order; the last one is self._thread *)
  subs : list upc          (* Glue submission threads in creation order *)
}.

Definition init (js : list job) : st :=
  {| flag := false; queue := []; tracked := []; reported := []; err := false;
     todo := js; kont := []; mons := []; subs := [] |}.

Inductive action := ASched | AMon (i : nat) | ASub (i : nat).

Definition nonempty {A} (l : list A) : bool := match l with [] => false | _ => true end.

Fixpoint memb (j : job) (l : list job) : bool :=
  match l with [] => false | x :: r => if Nat.eqb j x then true else memb j r end.

Fixpoint remove1 (j : job) (l : list job) : list job :=
  match l with [] => [] | x :: r => if Nat.eqb j x then r else x :: remove1 j r end.

Fixpoint upd {A} (l : list A) (i : nat) (x : A) : list A :=
  match l, i with
  | [], _ => []
  | _ :: r, 0 => x :: r
  | y :: r, S i => y :: upd r i x
  end.

Definition mon_alive (p : mpc) : bool := match p with MDead => false | _ => true end.
Definition sub_alive (p : upc) : bool := match p with UDead => false | _ => true end.

(** [self._thread and self._thread.is_alive()] *)
Definition last_alive (w : which) (s : st) : bool :=
  match w with
  | Mon => match rev (mons s) with [] => false | p :: _ => mon_alive p end
  | Sub => match rev (subs s) with [] => false | p :: _ => sub_alive p end
  end.

Definition set_flag (s : st) (b : bool) : st :=
  {| flag := b; queue := queue s; tracked := tracked s; reported := reported s; err := err s;
     todo := todo s; kont := kont s; mons := mons s; subs := subs s |}.
Definition set_kont (s : st) (k : list sop) : st :=
  {| flag := flag s; queue := queue s; tracked := tracked s; reported := reported s; err := err s;
     todo := todo s; kont := k; mons := mons s; subs := subs s |}.
Definition set_mons (s : st) (m : list mpc) : st :=
  {| flag := flag s; queue := queue s; tracked := tracked s; reported := reported s; err := err s;
     todo := todo s; kont := kont s; mons := m; subs := subs s |}.
Definition set_subs (s : st) (u : list upc) : st :=
  {| flag := flag s; queue := queue s; tracked := tracked s; reported := reported s; err := err s;
     todo := todo s; kont := kont s; mons := mons s; subs := u |}.
Definition set_queue (s : st) (q : list job) : st :=
  {| flag := flag s; queue := q; tracked := tracked s; reported := reported s; err := err s;
     todo := todo s; kont := kont s; mons := mons s; subs := subs s |}.
Definition set_tracked (s : st) (t : list job) : st :=
  {| flag := flag s; queue := queue s; tracked := t; reported := reported s; err := err s;
     todo := todo s; kont := kont s; mons := mons s; subs := subs s |}.
Definition set_err (s : st) : st :=
  {| flag := flag s; queue := queue s; tracked := tracked s; reported := reported s; err := true;
     todo := todo s; kont := kont s; mons := mons s; subs := subs s |}.
Definition report (s : st) (j : job) : st :=
  {| flag := flag s; queue := queue s; tracked := remove1 j (tracked s);
     reported := reported s ++ [j]; err := err s;
     todo := todo s; kont := kont s; mons := mons s; subs := subs s |}.

(** The first statement pair of the tail of [_submit]: insert the job. *)
Definition insert (c : cfg) (s : st) (j : job) (r : list job) : st :=
  {| flag := flag s;
     queue := if use_queue c then queue s ++ [j] else queue s;
     tracked := if use_queue c then tracked s else tracked s ++ [j];
     reported := reported s; err := err s;
     todo := r; kont := start_ops c; mons := mons s; subs := subs s |}.

(** One statement of [_start]; [k] is what follows it. *)
Definition op_step (s : st) (o : sop) (k : list sop) : st :=
  match o with
  | OIfNotFlag body => set_kont s (if flag s then k else body ++ k)
  | OIfNotAlive w body => set_kont s (if last_alive w s then k else body ++ k)
  | OSetFlag => set_kont (set_flag s true) k
  | OSpawn Mon => set_kont (set_mons s (mons s ++ [MGuard])) k
  | OSpawn Sub => set_kont (set_subs s (subs s ++ [UGuard])) k
  end.

(** Locked discipline: the whole of [_start] runs inside the critical section.
    Fuel = an explicit bound; out of fuel is [None]. *)
Fixpoint run_kont (fuel : nat) (s : st) : option st :=
  match kont s with
  | [] => Some s
  | o :: k => match fuel with
              | 0 => None
              | S f => run_kont f (op_step s o k)
              end
  end.

Fixpoint op_size (o : sop) : nat :=
  match o with
  | OIfNotFlag b => S (fold_right (fun o n => op_size o + n) 0 b)
  | OIfNotAlive _ b => S (fold_right (fun o n => op_size o + n) 0 b)
  | _ => 1
  end.
Definition ops_size (l : list sop) : nat := fold_right (fun o n => op_size o + n) 0 l.

Definition sched_step (c : cfg) (s : st) : option st :=
  match kont s with
  | o :: k => Some (op_step s o k)
  | [] => match todo s with
          | [] => None
          | j :: r => if locked c then run_kont (S (ops_size (start_ops c))) (insert c s j r)
                      else Some (insert c s j r)
          end
  end.

Definition guard (c : cfg) (s : st) : bool :=
  flag s && (nonempty (tracked s) || (use_queue c && nonempty (queue s))).

Definition is_last {A} (l : list A) (i : nat) : bool := Nat.eqb (S i) (length l).

Definition mon_step (c : cfg) (s : st) (i : nat) : option st :=
  match nth_error (mons s) i with
  | None => None
  | Some p =>
    let go s' p' := Some (set_mons s' (upd (mons s') i p')) in
    match p with
    | MGuard => if guard c s then go s MSnap
                else if locked c then go (set_flag s false) MExit else go s MStop
    | MSnap => match tracked s with [] => go s MGuard | l => go s (MProc l) end
    | MProc [] => go s MGuard
    | MProc (j :: l) =>
        if memb j (tracked s)
        then go (report s j) (match l with [] => MGuard | _ => MProc l end)
        else if locked c then go (set_flag (set_err s) false) MExit else go (set_err s) MStop
    | MStop => go (set_flag s false) (if stop_joins c then MJoin else MExit)
    | MJoin => if is_last (mons s) i || negb (last_alive Mon s) then go s MExit else None
    | MExit => go s MDead
    | MDead => None
    end
  end.

Definition sub_step (c : cfg) (s : st) (i : nat) : option st :=
  match nth_error (subs s) i with
  | None => None
  | Some p =>
    let go s' p' := Some (set_subs s' (upd (subs s') i p')) in
    match p with
    | UGuard => if flag s && nonempty (queue s) then go s UInner else go s UExit
    | UInner => match queue s with [] => go s UGuard | j :: q => go (set_queue s q) (UHold j) end
    | UHold j => go (set_tracked s (tracked s ++ [j])) UInner
    | UExit => go s UDead
    | UDead => None
    end
  end.

Definition step (c : cfg) (s : st) (a : action) : option st :=
  match a with
  | ASched => sched_step c s
  | AMon i => mon_step c s i
  | ASub i => sub_step c s i
  end.

(** Run a schedule; [None] if some action is not enabled where the schedule asks for it. *)
Fixpoint run (c : cfg) (s : st) (sch : list action) : option st :=
  match sch with
  | [] => Some s
  | a :: r => match step c s a with None => None | Some s' => run c s' r end
  end.

(** Quiescence, decidable form: the scheduler thread has finished and every thread is dead. *)
Definition quiescentb (s : st) : bool :=
  match todo s, kont s with
  | [], [] => forallb (fun p => negb (mon_alive p)) (mons s) && forallb (fun p => negb (sub_alive p)) (subs s)
  | _, _ => false
  end.

Definition lost (js : list job) (s : st) : list job :=
  filter (fun j => negb (memb j (reported s))) js.

(** ---- the five executors as shipped, and the repaired discipline ---- *)
Definition flag_start : list sop := [OIfNotFlag [OSetFlag; OSpawn Mon]].

Definition shipped_docker : cfg :=
  {| start_ops := flag_start; use_queue := false; stop_joins := true; locked := false |}.
Definition shipped_aws_batch : cfg :=
  {| start_ops := flag_start; use_queue := false; stop_joins := true; locked := false |}.
Definition shipped_k8s : cfg :=
  {| start_ops := flag_start; use_queue := false; stop_joins := false; locked := false |}.
Definition shipped_gcp_batch : cfg :=
  {| start_ops := [OIfNotAlive Mon [OSetFlag; OSpawn Mon]];
     use_queue := false; stop_joins := true; locked := false |}.
Definition shipped_aws_glue : cfg :=
  {| start_ops := [OIfNotFlag [OSetFlag]; OIfNotAlive Mon [OSpawn Mon]; OIfNotAlive Sub [OSpawn Sub]];
     use_queue := true; stop_joins := false; locked := false |}.

Definition fixed_cfg : cfg :=
  {| start_ops := flag_start; use_queue := false; stop_joins := false; locked := true |}.

(** Observable summary compared with the real executor after every step:
    (flag, queue, tracked, reported, err, live monitor threads, live submission threads). *)
Definition obs (s : st) : bool * list job * list job * list job * bool * list bool * list bool :=
  (flag s, queue s, tracked s, reported s, err s, map mon_alive (mons s), map sub_alive (subs s)).

(** The witness schedule of the defect (one job submitted while a monitor is leaving). *)
Definition witness_flag : list action :=
  (* submit job 0: insert, test, set flag, spawn M0 *)
  [ASched; ASched; ASched; ASched;
  (* M0: guard true, snapshot, pop+report job 0 (-> guard), guard false (-> before stop()) *)
   AMon 0; AMon 0; AMon 0; AMon 0;
  (* submit job 1: insert, test sees the flag still set *)
   ASched; ASched].

(** ---- replay of a recorded execution of the real executor (correspondence) ---- *)
Definition obs_t := (bool * list job * list job * list job * bool * list bool * list bool)%type.

Fixpoint list_eqb {A} (e : A -> A -> bool) (l r : list A) : bool :=
  match l, r with
  | [], [] => true
  | x :: l', y :: r' => e x y && list_eqb e l' r'
  | _, _ => false
  end.

Definition obs_eqb (a b : obs_t) : bool :=
  match a, b with
  | (f1, q1, t1, r1, e1, m1, u1), (f2, q2, t2, r2, e2, m2, u2) =>
      Bool.eqb f1 f2 && list_eqb Nat.eqb q1 q2 && list_eqb Nat.eqb t1 t2 && list_eqb Nat.eqb r1 r2 &&
      Bool.eqb e1 e2 && list_eqb Bool.eqb m1 m2 && list_eqb Bool.eqb u1 u2
  end.

(** Each item: the thread that was released and what was observed afterwards
    ([None]: the thread blocked without reaching a scheduling point, i.e. the step is not enabled). *)
Fixpoint check_trace (c : cfg) (s : st) (items : list (action * option obs_t)) : option st :=
  match items with
  | [] => Some s
  | (a, e) :: r =>
      match step c s a, e with
      | Some s', Some o => if obs_eqb (obs s') o then check_trace c s' r else None
      | None, None => check_trace c s r
      | _, _ => None
      end
  end.

(** [q]: whether every real thread had finished at the end of the recording. *)
Definition check_run (c : cfg) (js : list job) (items : list (action * option obs_t)) (q : bool) : bool :=
  match check_trace c (init js) items with
  | Some s => Bool.eqb (quiescentb s) q
  | None => false
  end.
