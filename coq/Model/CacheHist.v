(** C02 — executable model of redun's backend cache across a HISTORY of executions that share one
    backend, interleaved with code edits, argument changes and input-file rewrites.  No proofs here.

    What is modelled (redun/scheduler.py, redun/backends/db/__init__.py, redun/expression.py):
    - the Evaluation table: key (task hash, args hash) -> the SINGLE REDUCTION of the call (an
      expression whose lazy calls name tasks by NAME);  set_cache is an upsert on the key;
    - Scheduler._get_cache's decision chain on the looked-up row ([code_chain], extracted from the
      source by translate/tr_cache.py) including the validity check of the cached value
      (TypeRegistry.is_valid_nested -> TaskExpression.is_valid -> File.is_valid);
    - catch()'s private entry: key = hash of (catch task, [expr; error class; recover task]) where
      the hash of [expr] contains task NAMES and argument hashes, never task hashes; the entry
      holds [expr] (on success) or [recover(error)] (on a caught error); a hit evaluates the entry
      WITHOUT evaluating [expr] first and without any validity check.
    - task hash = function of (task name, code id) (source text or version string: the code id
      determines both, see [EditBody]/[BumpVersion]);  args hash = function of the evaluated
      argument value, a File contributing (path, stamp) with stamp = (size, mtime).
    Hashes are modelled by the structures they hash (collision freedom is the business of C14-C18).

    Two sites are variant switches (DESIGN §7 / found while building this check):
    - [v_proj_valid]: does the validity check look inside a SimpleExpression (lazy [x[i]])?
      As shipped: no (SimpleExpression inherits Value.is_valid = True).
    - [v_catch_cache]: does catch() use its private entry?  As shipped: yes.

    Not modelled (result-equivalent or out of the property's family): CSE inside one execution,
    ultimate-reduction (check_valid="shallow") hits (C03), Handles (C25), contexts (C05), options. *)
From Coq Require Import List Arith Bool.
Import ListNotations.
Open Scope list_scope.

Definition tname := nat.
Definition code := nat.
Definition path := nat.
Definition stamp := nat.
Definition errid := nat.

(** * Values, expressions, keys *)
Inductive val :=
| VNum (n : nat)
| VErr (x : errid)                 (* a caught exception object, the argument of recover *)
| VFile (p : path) (s : stamp)     (* File(path) carrying the hash it was created/recorded with *)
| VPair (a b : val).

Inductive expr :=
| EVal (v : val)
| ECall (t : tname) (a : expr)     (* TaskExpression: task by NAME, one argument *)
| EPair (a b : expr)               (* tuple containing lazy parts *)
| EGet (i : bool) (a : expr)       (* SimpleExpression getitem: a[0] (false) / a[1] (true) *)
| ECatch (e : expr) (r : tname) (c : code).
    (* catch(e, PErr, r): the Task VALUE r inside the expression carries the hash (code c) it was built with *)

Inductive key :=
| KTask (t : tname) (c : code) (a : val)
| KCatch (e : expr) (r : tname) (c : code).

Inductive outcome := Raise (x : errid) | Ret (r : expr).
Inductive res := Ok (v : val) | Err (x : errid) | Fuel.

Definition TYPEERR : errid := 0.   (* a Python TypeError: not a PErr, never caught by catch *)

Definition disk := path -> stamp.
Definition env := tname -> code.
Definition semantics := tname -> code -> val -> env -> disk -> outcome.

Fixpoint val_eqb (a b : val) : bool :=
  match a, b with
  | VNum n, VNum m => Nat.eqb n m
  | VErr n, VErr m => Nat.eqb n m
  | VFile p s, VFile q u => Nat.eqb p q && Nat.eqb s u
  | VPair a1 a2, VPair b1 b2 => val_eqb a1 b1 && val_eqb a2 b2
  | _, _ => false
  end.

Fixpoint expr_eqb (a b : expr) : bool :=
  match a, b with
  | EVal v, EVal w => val_eqb v w
  | ECall t x, ECall u y => Nat.eqb t u && expr_eqb x y
  | EPair a1 a2, EPair b1 b2 => expr_eqb a1 b1 && expr_eqb a2 b2
  | EGet i x, EGet j y => Bool.eqb i j && expr_eqb x y
  | ECatch x r c, ECatch y q e => expr_eqb x y && Nat.eqb r q && Nat.eqb c e
  | _, _ => false
  end.

Definition key_eqb (a b : key) : bool :=
  match a, b with
  | KTask t c x, KTask u e y => Nat.eqb t u && Nat.eqb c e && val_eqb x y
  | KCatch x r c, KCatch y q e => expr_eqb x y && Nat.eqb r q && Nat.eqb c e
  | _, _ => false
  end.

(** * Validity of a cached value *)
Fixpoint cur_val (d : disk) (v : val) : bool :=
  match v with
  | VFile p s => Nat.eqb (d p) s
  | VPair a b => cur_val d a && cur_val d b
  | _ => true
  end.

(** [valid pv d e]: is_valid_nested of the cached value.  [pv = false] is the shipped behaviour:
    a SimpleExpression is a leaf Value whose is_valid() is the default True. *)
Fixpoint valid (pv : bool) (E : env) (d : disk) (e : expr) : bool :=
  match e with
  | EVal v => cur_val d v
  | ECall _ a => valid pv E d a
  | EPair a b => valid pv E d a && valid pv E d b
  | EGet _ a => if pv then valid pv E d a else true
  | ECatch a r c =>
      (* Task.is_valid: hash == _calc_hash(), where _calc_hash of a deserialised Task uses the
         CURRENT source but the RECORDED version string: a versioned Task value (odd code id) is
         always valid, an unversioned one only while the registry has the same source *)
      valid pv E d a && (Nat.odd c || Nat.eqb (E r) c)
  end.
(** every File inside the expression carries the current stamp *)
Fixpoint cur (d : disk) (e : expr) : bool :=
  match e with
  | EVal v => cur_val d v
  | ECall _ a => cur d a
  | EPair a b => cur d a && cur d b
  | EGet _ a => cur d a
  | ECatch a _ _ => cur d a
  end.

(** * The backend state *)
Definition cache := list (key * expr).
Record st := mkSt { s_cache : cache; s_log : list (tname * code * val) }.

Fixpoint lookup (k : key) (C : cache) : option expr :=
  match C with
  | [] => None
  | (k', r) :: C' => if key_eqb k k' then Some r else lookup k C'
  end.
Definition upd (k : key) (r : expr) (s : st) : st := mkSt ((k, r) :: s_cache s) (s_log s).
Definition logx (s : st) (x : tname * code * val) : st := mkSt (s_cache s) (x :: s_log s).

(** * Scheduler._get_cache: the decision chain (tests in source order) *)
Inductive gc_test := TestCSEHandles | TestCSE | TestError | TestMiss | TestValid.
Inductive gc_out := OutHit | OutMiss.
Definition gc_chain := list (gc_test * gc_out).
Definition code_chain : gc_chain :=
  [(TestCSEHandles, OutHit); (TestCSE, OutMiss); (TestError, OutMiss); (TestMiss, OutMiss); (TestValid, OutHit)].

(** [row] is what check_cache found for the key, [ok] the validity of that value.  CSE is not
    modelled (never the cache type here); an Evaluation row never holds an ErrorValue because
    set_cache is only reached from done_job. *)
Definition test_holds (t : gc_test) (row : option expr) (ok : bool) : bool :=
  match t with
  | TestCSEHandles | TestCSE | TestError => false
  | TestMiss => match row with None => true | Some _ => false end
  | TestValid => ok
  end.
Fixpoint run_chain (ch : gc_chain) (row : option expr) (ok : bool) : option expr :=
  match ch with
  | [] => None                                   (* final else: miss *)
  | (t, o) :: ch' => if test_holds t row ok
                     then match o with OutHit => row | OutMiss => None end
                     else run_chain ch' row ok
  end.

Record variant := mkVariant { v_proj_valid : bool; v_catch_cache : bool }.
Definition shipped := mkVariant false true.
Definition fixed := mkVariant true false.
Definition proj_fixed_only := mkVariant true true.    (* catch as shipped, validity repaired *)
Definition catch_off_only := mkVariant false false.

(** * One execution: graph reduction with the backend cache *)
Section Eval.
  Variable V : variant.
  Variable ch : gc_chain.
  Variable sem : semantics.
  Variable E : env.
  Variable d : disk.

  Definition get_cache (s : st) (k : key) : option expr :=
    let row := lookup k (s_cache s) in
    run_chain ch row (match row with Some r => valid (v_proj_valid V) E d r | None => false end).

  Definition catch_set (k : key) (r : expr) (s : st) : st := if v_catch_cache V then upd k r s else s.

  Fixpoint eval (n : nat) (s : st) (e : expr) {struct n} : res * st :=
    match n with
    | 0 => (Fuel, s)
    | S n =>
      match e with
      | EVal v => (Ok v, s)
      | EPair a b =>
          match eval n s a with
          | (Ok va, s1) => match eval n s1 b with
                           | (Ok vb, s2) => (Ok (VPair va vb), s2)
                           | other => other
                           end
          | other => other
          end
      | EGet i a =>
          match eval n s a with
          | (Ok (VPair x y), s1) => (Ok (if i then y else x), s1)
          | (Ok _, s1) => (Err TYPEERR, s1)
          | other => other
          end
      | ECall t a =>
          match eval n s a with
          | (Ok va, s1) =>
              let c := E t in
              let k := KTask t c va in
              match get_cache s1 k with
              | Some r => eval n s1 r                       (* replay the single reduction *)
              | None =>
                  let s2 := logx s1 (t, c, va) in           (* the task body runs *)
                  match sem t c va E d with
                  | Raise x => (Err x, s2)                  (* errors are not cached *)
                  | Ret r => eval n (upd k r s2) r          (* set_cache, then evaluate the result *)
                  end
              end
          | other => other
          end
      | ECatch e0 r c0 =>
          let k := KCatch e0 r c0 in
          let recover (s1 : st) (x : errid) :=
              if Nat.eqb x TYPEERR then (Err x, s1) else
              let re := ECall r (EVal (VErr x)) in
              match eval n s1 re with
              | (Ok v, s2) => (Ok v, catch_set k re s2)     (* on_recover *)
              | other => other
              end in
          match (if v_catch_cache V then lookup k (s_cache s) else None) with
          | Some ce =>                                      (* hit: evaluate the entry, not e0 *)
              match eval n s ce with
              | (Err x, s1) => recover s1 x
              | other => other
              end
          | None =>
              match eval n s e0 with
              | (Ok v, s1) => (Ok v, catch_set k e0 s1)     (* on_success *)
              | (Err x, s1) => recover s1 x
              | other => other
              end
          end
      end
    end.
End Eval.

(** * The program family: task bodies *)
Inductive proj := PArg | PFst (p : proj) | PSnd (p : proj).
Fixpoint get_proj (p : proj) (a : val) : option val :=
  match p with
  | PArg => Some a
  | PFst q => match get_proj q a with Some (VPair x _) => Some x | _ => None end
  | PSnd q => match get_proj q a with Some (VPair _ y) => Some y | _ => None end
  end.

Inductive tm :=
| TProj (p : proj)            (* a component of the argument (immediate) *)
| TNum (n : nat)
| TFile (p : path)            (* File(path) created now: carries the current stamp *)
| TRead (p : proj)            (* int(File.read()) of a File component of the argument *)
| TPair (a b : tm)
| TCall (t : tname) (a : tm)
| TGet (i : bool) (a : tm)    (* x[i] on a LAZY x (on an immediate tuple: outside the family) *)
| TCatch (e : tm) (r : tname).

Definition mkpair (a b : expr) : expr :=
  match a, b with
  | EVal x, EVal y => EVal (VPair x y)
  | _, _ => EPair a b
  end.
Definition mkget (i : bool) (a : expr) : option expr :=
  match a with
  | EVal _ | EPair _ _ => None
  | _ => Some (EGet i a)
  end.

Section Lang.
  Variable content : path -> stamp -> nat.   (* the stamp (size, mtime) identifies the content *)

  Fixpoint eval_tm (E : env) (d : disk) (arg : val) (t : tm) : option expr :=
    match t with
    | TProj p => option_map EVal (get_proj p arg)
    | TNum n => Some (EVal (VNum n))
    | TFile p => Some (EVal (VFile p (d p)))
    | TRead p => match get_proj p arg with
                 | Some (VFile q _) => Some (EVal (VNum (content q (d q))))
                 | _ => None
                 end
    | TPair a b => match eval_tm E d arg a, eval_tm E d arg b with
                   | Some x, Some y => Some (mkpair x y)
                   | _, _ => None
                   end
    | TCall t a => option_map (ECall t) (eval_tm E d arg a)
    | TGet i a => match eval_tm E d arg a with Some x => mkget i x | None => None end
    | TCatch e r => option_map (fun x => ECatch x r (E r)) (eval_tm E d arg e)
    end.

  Inductive imm := INum (n : nat) | IProj (p : proj) | IRead (p : proj).
  Definition eval_imm (d : disk) (arg : val) (i : imm) : option val :=
    match i with
    | INum n => Some (VNum n)
    | IProj p => get_proj p arg
    | IRead p => match get_proj p arg with
                 | Some (VFile q _) => Some (VNum (content q (d q)))
                 | _ => None
                 end
    end.

  (** [if <imm> == n: raise PErr_x]  then  [return <tm>] *)
  Record body := mkBody { b_guard : option (imm * nat * errid); b_ret : tm }.

  Definition run_body (E : env) (d : disk) (arg : val) (b : body) : outcome :=
    let ret := match eval_tm E d arg (b_ret b) with Some r => Ret r | None => Raise TYPEERR end in
    match b_guard b with
    | None => ret
    | Some (i, n, x) =>
        match eval_imm d arg i with
        | None => Raise TYPEERR
        | Some v => if val_eqb v (VNum n) then Raise x else ret
        end
    end.

  Definition program := tname -> code -> body.
  Definition lang_sem (P : program) : semantics := fun t c a E d => run_body E d a (P t c).
End Lang.

(** * Histories *)
Inductive hop :=
| Run (root : tm)                     (* one execution of the root expression (ChangeArg = another root) *)
| EditBody (t : tname) (c : nat)      (* unversioned task: the hash follows the source; code id 2c *)
| BumpVersion (t : tname) (c : nat)   (* versioned task, version and body identified by c; code id 2c+1 *)
| Revert (t : tname) (k : nat)        (* reinstall the code t had k edits ago *)
| RewriteFile (p : path) (s : stamp). (* new content with stamp s *)

Record hstate := mkH {
  h_codes : list (tname * list code);   (* per task: current code first, then the earlier ones *)
  h_disk : list (path * stamp);
  h_cache : cache }.

Fixpoint assoc {A} (n : nat) (l : list (nat * A)) : option A :=
  match l with
  | [] => None
  | (m, a) :: l' => if Nat.eqb n m then Some a else assoc n l'
  end.
Definition codes_of (h : hstate) (t : tname) : list code :=
  match assoc t (h_codes h) with Some l => l | None => [0] end.   (* every task starts with code 0 *)
Definition env_of (h : hstate) : env := fun t => hd 0 (codes_of h t).
Definition disk_of (h : hstate) : disk := fun p => match assoc p (h_disk h) with Some s => s | None => 0 end.
Definition push_code (h : hstate) (t : tname) (c : code) : hstate :=
  mkH ((t, c :: codes_of h t) :: h_codes h) (h_disk h) (h_cache h).

Definition h0 : hstate := mkH [] [] [].

Section Hist.
  Variable V : variant.
  Variable ch : gc_chain.
  Variable content : path -> stamp -> nat.
  Variable P : program.
  Variable fuel : nat.

  (** One execution on cache [C] under the code and files of [h]. *)
  Definition run_on (h : hstate) (C : cache) (root : tm) : res * st :=
    match eval_tm content (env_of h) (disk_of h) (VNum 0) root with
    | None => (Err TYPEERR, mkSt C [])
    | Some e => eval V ch (lang_sem content P) (env_of h) (disk_of h) fuel (mkSt C []) e
    end.

  Definition step (h : hstate) (o : hop) : hstate * option (res * list (tname * code * val)) :=
    match o with
    | Run root => let (r, s) := run_on h (h_cache h) root in
                  (mkH (h_codes h) (h_disk h) (s_cache s), Some (r, rev (s_log s)))
    | EditBody t c => (push_code h t (2 * c), None)
    | BumpVersion t c => (push_code h t (2 * c + 1), None)
    | Revert t k => (push_code h t (nth k (codes_of h t) (env_of h t)), None)
    | RewriteFile p s => (mkH (h_codes h) ((p, s) :: h_disk h) (h_cache h), None)
    end.

  (** What every execution of the history returns / executes on the shared backend. *)
  Fixpoint run_hist (h : hstate) (ops : list hop) : list (res * list (tname * code * val)) :=
    match ops with
    | [] => []
    | o :: ops' => let (h', out) := step h o in
                   match out with Some x => x :: run_hist h' ops' | None => run_hist h' ops' end
    end.

  (** The same executions, each against an EMPTY backend (same code and files at that point). *)
  Fixpoint run_fresh (h : hstate) (ops : list hop) : list (res * list (tname * code * val)) :=
    match ops with
    | [] => []
    | o :: ops' =>
        let (h', _) := step h o in
        match o with
        | Run root => let (r, s) := run_on h [] root in (r, rev (s_log s)) :: run_fresh h' ops'
        | _ => run_fresh h' ops'
        end
    end.
End Hist.

(** Programs as finite tables (for witnesses and the correspondence run). *)
Definition default_body : body := mkBody None (TProj PArg).
Fixpoint table_prog (tb : list (tname * code * body)) : program :=
  fun t c => match tb with
             | [] => default_body
             | (t', c', b) :: tb' => if Nat.eqb t t' && Nat.eqb c c' then b else table_prog tb' t c
             end.
Definition content_id : path -> stamp -> nat := fun _ s => s.

Definition res_eqb (a b : res) : bool :=
  match a, b with
  | Ok v, Ok w => val_eqb v w
  | Err x, Err y => Nat.eqb x y
  | Fuel, Fuel => true
  | _, _ => false
  end.
Fixpoint list_eqb {A} (f : A -> A -> bool) (a b : list A) : bool :=
  match a, b with
  | [], [] => true
  | x :: a', y :: b' => f x y && list_eqb f a' b'
  | _, _ => false
  end.
Definition call_eqb (a b : tname * code * val) : bool :=
  let '(t, c, v) := a in let '(u, e, w) := b in Nat.eqb t u && Nat.eqb c e && val_eqb v w.
Definition out_eqb (a b : res * list (tname * code * val)) : bool :=
  res_eqb (fst a) (fst b) && list_eqb call_eqb (snd a) (snd b).
