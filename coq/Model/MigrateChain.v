(** C36 — the alembic revision chain the theorems of Props/C36.v are about, as a static
    Gallina value (no proofs here).  It was produced once by translate/tr_alembic.py; every run of
    the check regenerates the chain from /repo and proves it equal to [chain Truncating] (the
    code as shipped: SQLite [datetime(x, 'utc')] drops the fraction of a second) or to
    [chain KeepFraction] (the repaired SQL) -- Gen/C36Gen.v, lemma C36_tie. *)
From Coq Require Import List String ZArith Bool.
From RV Require Import Model.Migrate.
Import ListNotations.
Open Scope string_scope.
Open Scope list_scope.

Definition chain_gen (lt : lonely_test) (wm : write_mode) (v : utc_variant) : list migration := [
  {| m_rev := "806f5dcb11bf"; m_down := ""; m_ops := [
      (IfSqlite, CreateTable "redun_version" [{| c_name := "id"; c_type := "VARCHAR"; c_null := false |}; {| c_name := "version"; c_type := "INTEGER"; c_null := false |}; {| c_name := "timestamp"; c_type := "DATETIME"; c_null := false |}]);
      (IfPg, CreateTable "redun_version" [{| c_name := "id"; c_type := "VARCHAR"; c_null := false |}; {| c_name := "version"; c_type := "INTEGER"; c_null := false |}; {| c_name := "timestamp"; c_type := "TIMESTAMP"; c_null := false |}]);
      (Always, CreateTable "task" [{| c_name := "hash"; c_type := "VARCHAR(40)"; c_null := false |}; {| c_name := "name"; c_type := "VARCHAR"; c_null := false |}; {| c_name := "namespace"; c_type := "VARCHAR"; c_null := false |}; {| c_name := "source"; c_type := "VARCHAR"; c_null := false |}]);
      (IfSqlite, CreateTable "value" [{| c_name := "value_hash"; c_type := "VARCHAR(40)"; c_null := false |}; {| c_name := "type"; c_type := "VARCHAR(100)"; c_null := false |}; {| c_name := "format"; c_type := "VARCHAR(100)"; c_null := false |}; {| c_name := "value"; c_type := "BLOB"; c_null := false |}]);
      (IfPg, CreateTable "value" [{| c_name := "value_hash"; c_type := "VARCHAR(40)"; c_null := false |}; {| c_name := "type"; c_type := "VARCHAR(100)"; c_null := false |}; {| c_name := "format"; c_type := "VARCHAR(100)"; c_null := false |}; {| c_name := "value"; c_type := "BYTEA"; c_null := false |}]);
      (IfSqlite, CreateTable "call_node" [{| c_name := "call_hash"; c_type := "VARCHAR(40)"; c_null := false |}; {| c_name := "task_name"; c_type := "VARCHAR(1024)"; c_null := false |}; {| c_name := "task_hash"; c_type := "VARCHAR(40)"; c_null := false |}; {| c_name := "args_hash"; c_type := "VARCHAR(40)"; c_null := false |}; {| c_name := "value_hash"; c_type := "VARCHAR(40)"; c_null := false |}; {| c_name := "timestamp"; c_type := "DATETIME"; c_null := false |}]);
      (IfPg, CreateTable "call_node" [{| c_name := "call_hash"; c_type := "VARCHAR(40)"; c_null := false |}; {| c_name := "task_name"; c_type := "VARCHAR(1024)"; c_null := false |}; {| c_name := "task_hash"; c_type := "VARCHAR(40)"; c_null := false |}; {| c_name := "args_hash"; c_type := "VARCHAR(40)"; c_null := false |}; {| c_name := "value_hash"; c_type := "VARCHAR(40)"; c_null := false |}; {| c_name := "timestamp"; c_type := "TIMESTAMP"; c_null := false |}]);
      (Always, CreateIndex {| i_name := "ix_call_node_task_hash"; i_table := "call_node"; i_cols := ["task_hash"]; i_unique := false |});
      (Always, CreateIndex {| i_name := "ix_call_node_value_hash"; i_table := "call_node"; i_cols := ["value_hash"]; i_unique := false |});
      (Always, CreateTable "file" [{| c_name := "value_hash"; c_type := "VARCHAR(40)"; c_null := false |}; {| c_name := "path"; c_type := "VARCHAR(1024)"; c_null := false |}]);
      (Always, CreateTable "handle" [{| c_name := "hash"; c_type := "VARCHAR(40)"; c_null := false |}; {| c_name := "fullname"; c_type := "VARCHAR(1024)"; c_null := false |}; {| c_name := "value_hash"; c_type := "VARCHAR(40)"; c_null := false |}; {| c_name := "key"; c_type := "VARCHAR(1024)"; c_null := false |}; {| c_name := "is_valid"; c_type := "BOOLEAN"; c_null := false |}]);
      (Always, CreateIndex {| i_name := "ix_handle_fullname"; i_table := "handle"; i_cols := ["fullname"]; i_unique := false |});
      (Always, CreateIndex {| i_name := "ix_handle_value_hash"; i_table := "handle"; i_cols := ["value_hash"]; i_unique := false |});
      (Always, CreateTable "subvalue" [{| c_name := "value_hash"; c_type := "VARCHAR(40)"; c_null := false |}; {| c_name := "parent_value_hash"; c_type := "VARCHAR(40)"; c_null := false |}]);
      (Always, CreateIndex {| i_name := "ix_subvalue_parent_value_hash"; i_table := "subvalue"; i_cols := ["parent_value_hash"]; i_unique := false |});
      (Always, CreateIndex {| i_name := "ix_subvalue_value_hash"; i_table := "subvalue"; i_cols := ["value_hash"]; i_unique := false |});
      (Always, CreateTable "argument" [{| c_name := "arg_hash"; c_type := "VARCHAR(40)"; c_null := false |}; {| c_name := "call_hash"; c_type := "VARCHAR(40)"; c_null := false |}; {| c_name := "value_hash"; c_type := "VARCHAR(40)"; c_null := false |}; {| c_name := "arg_position"; c_type := "INTEGER"; c_null := true |}; {| c_name := "arg_key"; c_type := "VARCHAR(100)"; c_null := true |}]);
      (Always, CreateIndex {| i_name := "ix_argument_call_hash"; i_table := "argument"; i_cols := ["call_hash"]; i_unique := false |});
      (Always, CreateIndex {| i_name := "ix_argument_value_hash"; i_table := "argument"; i_cols := ["value_hash"]; i_unique := false |});
      (Always, CreateTable "call_edge" [{| c_name := "parent_id"; c_type := "VARCHAR(40)"; c_null := false |}; {| c_name := "child_id"; c_type := "VARCHAR(40)"; c_null := false |}; {| c_name := "call_order"; c_type := "INTEGER"; c_null := false |}]);
      (Always, CreateIndex {| i_name := "ix_call_edge_child_id"; i_table := "call_edge"; i_cols := ["child_id"]; i_unique := false |});
      (Always, CreateIndex {| i_name := "ix_call_edge_parent_id"; i_table := "call_edge"; i_cols := ["parent_id"]; i_unique := false |});
      (Always, CreateTable "call_subtree_task" [{| c_name := "call_hash"; c_type := "VARCHAR(40)"; c_null := false |}; {| c_name := "task_hash"; c_type := "VARCHAR(40)"; c_null := false |}]);
      (Always, CreateIndex {| i_name := "ix_call_subtree_task_call_hash"; i_table := "call_subtree_task"; i_cols := ["call_hash"]; i_unique := false |});
      (Always, CreateIndex {| i_name := "ix_call_subtree_task_task_hash"; i_table := "call_subtree_task"; i_cols := ["task_hash"]; i_unique := false |});
      (Always, CreateTable "handle_edge" [{| c_name := "parent_id"; c_type := "VARCHAR(40)"; c_null := false |}; {| c_name := "child_id"; c_type := "VARCHAR(40)"; c_null := false |}]);
      (Always, CreateIndex {| i_name := "ix_handle_edge_child_id"; i_table := "handle_edge"; i_cols := ["child_id"]; i_unique := false |});
      (Always, CreateIndex {| i_name := "ix_handle_edge_parent_id"; i_table := "handle_edge"; i_cols := ["parent_id"]; i_unique := false |});
      (IfSqlite, CreateTable "job" [{| c_name := "id"; c_type := "VARCHAR"; c_null := false |}; {| c_name := "start_time"; c_type := "DATETIME"; c_null := false |}; {| c_name := "end_time"; c_type := "DATETIME"; c_null := true |}; {| c_name := "task_hash"; c_type := "VARCHAR(40)"; c_null := false |}; {| c_name := "cached"; c_type := "BOOLEAN"; c_null := false |}; {| c_name := "call_hash"; c_type := "VARCHAR(40)"; c_null := true |}; {| c_name := "parent_id"; c_type := "VARCHAR"; c_null := true |}]);
      (IfPg, CreateTable "job" [{| c_name := "id"; c_type := "VARCHAR"; c_null := false |}; {| c_name := "start_time"; c_type := "TIMESTAMP"; c_null := false |}; {| c_name := "end_time"; c_type := "TIMESTAMP"; c_null := true |}; {| c_name := "task_hash"; c_type := "VARCHAR(40)"; c_null := false |}; {| c_name := "cached"; c_type := "BOOLEAN"; c_null := false |}; {| c_name := "call_hash"; c_type := "VARCHAR(40)"; c_null := true |}; {| c_name := "parent_id"; c_type := "VARCHAR"; c_null := true |}]);
      (Always, CreateIndex {| i_name := "ix_job_call_hash"; i_table := "job"; i_cols := ["call_hash"]; i_unique := false |});
      (Always, CreateIndex {| i_name := "ix_job_parent_id"; i_table := "job"; i_cols := ["parent_id"]; i_unique := false |});
      (Always, CreateIndex {| i_name := "ix_job_task_hash"; i_table := "job"; i_cols := ["task_hash"]; i_unique := false |});
      (Always, CreateTable "argument_result" [{| c_name := "arg_hash"; c_type := "VARCHAR(40)"; c_null := false |}; {| c_name := "result_call_hash"; c_type := "VARCHAR(40)"; c_null := false |}]);
      (Always, CreateIndex {| i_name := "ix_argument_result_arg_hash"; i_table := "argument_result"; i_cols := ["arg_hash"]; i_unique := false |});
      (Always, CreateIndex {| i_name := "ix_argument_result_result_call_hash"; i_table := "argument_result"; i_cols := ["result_call_hash"]; i_unique := false |});
      (Always, CreateTable "execution" [{| c_name := "id"; c_type := "VARCHAR"; c_null := false |}; {| c_name := "args"; c_type := "VARCHAR"; c_null := false |}; {| c_name := "job_id"; c_type := "VARCHAR"; c_null := false |}]);
      (Always, CreateIndex {| i_name := "ix_execution_job_id"; i_table := "execution"; i_cols := ["job_id"]; i_unique := false |})] |};
  {| m_rev := "647c510a77b1"; m_down := "806f5dcb11bf"; m_ops := [
      (Always, CreateTable "evaluation" [{| c_name := "eval_hash"; c_type := "VARCHAR(40)"; c_null := false |}; {| c_name := "task_hash"; c_type := "VARCHAR(40)"; c_null := false |}; {| c_name := "args_hash"; c_type := "VARCHAR(40)"; c_null := false |}; {| c_name := "value_hash"; c_type := "VARCHAR(40)"; c_null := false |}]);
      (Always, CreateIndex {| i_name := "ix_evaluation_task_hash"; i_table := "evaluation"; i_cols := ["task_hash"]; i_unique := false |});
      (Always, CreateIndex {| i_name := "ix_evaluation_value_hash"; i_table := "evaluation"; i_cols := ["value_hash"]; i_unique := false |})] |};
  {| m_rev := "30ffbaee18cd"; m_down := "647c510a77b1"; m_ops := [
      (Always, BackfillTaskValues lt wm ["redun.script_task"; "test_gfetch"; "test_help"; "test_help_debug"])] |};
  {| m_rev := "71ec303c90e4"; m_down := "30ffbaee18cd"; m_ops := [
      (Always, CreateIndex {| i_name := "ix_call_node_call_hash_vpo"; i_table := "call_node"; i_cols := ["call_hash"]; i_unique := true |});
      (Always, CreateIndex {| i_name := "ix_execution_id_vpo"; i_table := "execution"; i_cols := ["id"]; i_unique := true |});
      (Always, CreateIndex {| i_name := "ix_file_path"; i_table := "file"; i_cols := ["path"]; i_unique := false |});
      (Always, CreateIndex {| i_name := "ix_job_id_vpo"; i_table := "job"; i_cols := ["id"]; i_unique := true |});
      (Always, CreateIndex {| i_name := "ix_task_hash_vpo"; i_table := "task"; i_cols := ["hash"]; i_unique := true |});
      (Always, CreateIndex {| i_name := "ix_task_name_vpo"; i_table := "task"; i_cols := ["name"]; i_unique := false |});
      (Always, CreateIndex {| i_name := "ix_task_namespace_vpo"; i_table := "task"; i_cols := ["namespace"]; i_unique := false |});
      (Always, CreateIndex {| i_name := "ix_value_value_hash_vpo"; i_table := "value"; i_cols := ["value_hash"]; i_unique := true |})] |};
  {| m_rev := "d4af139b6f53"; m_down := "71ec303c90e4"; m_ops := [
      (Always, AddColumn "job" {| c_name := "execution_id"; c_type := "VARCHAR"; c_null := true |});
      (Always, CreateIndex {| i_name := "ix_job_execution_id"; i_table := "job"; i_cols := ["execution_id"]; i_unique := false |});
      (Always, CreateFK "ct_job_execution_id" "job" "execution");
      (IfPg, SqlNoData "execution_job_id_fkey deferrable")] |};
  {| m_rev := "cd2d53191748"; m_down := "d4af139b6f53"; m_ops := [
      (Always, StubExecutions);
      (Always, SqlNoData "tmp_ancestors step 0");
      (Always, SqlNoData "tmp_ancestors step 1");
      (Always, SqlNoData "tmp_ancestors step 2");
      (Always, BackfillExecutionId);
      (Always, SqlNoData "tmp_ancestors step 4");
      (Always, SqlNoData "tmp_ancestors step 5");
      (Always, AlterNullable "job" "execution_id" false)] |};
  {| m_rev := "cc4f663817b6"; m_down := "cd2d53191748"; m_ops := [
      (IfSqlite, CreateTable "tag" [{| c_name := "tag_hash"; c_type := "VARCHAR(40)"; c_null := false |}; {| c_name := "entity_type"; c_type := "VARCHAR(9)"; c_null := false |}; {| c_name := "entity_id"; c_type := "VARCHAR"; c_null := false |}; {| c_name := "key"; c_type := "VARCHAR"; c_null := false |}; {| c_name := "value"; c_type := "VARCHAR"; c_null := false |}; {| c_name := "is_current"; c_type := "BOOLEAN"; c_null := false |}]);
      (IfPg, CreateTable "tag" [{| c_name := "tag_hash"; c_type := "VARCHAR(40)"; c_null := false |}; {| c_name := "entity_type"; c_type := "tagentitytype"; c_null := false |}; {| c_name := "entity_id"; c_type := "VARCHAR"; c_null := false |}; {| c_name := "key"; c_type := "VARCHAR"; c_null := false |}; {| c_name := "value"; c_type := "JSONB"; c_null := false |}; {| c_name := "is_current"; c_type := "BOOLEAN"; c_null := false |}]);
      (Always, CreateIndex {| i_name := "ix_tag_entity_id"; i_table := "tag"; i_cols := ["entity_id"]; i_unique := false |});
      (Always, CreateIndex {| i_name := "ix_tag_key"; i_table := "tag"; i_cols := ["key"]; i_unique := false |});
      (Always, CreateIndex {| i_name := "ix_tag_value"; i_table := "tag"; i_cols := ["value"]; i_unique := false |});
      (Always, CreateIndex {| i_name := "ix_tag_tag_hash_current"; i_table := "tag"; i_cols := ["tag_hash"]; i_unique := true |});
      (Always, CreateTable "tag_edit" [{| c_name := "parent_id"; c_type := "VARCHAR"; c_null := false |}; {| c_name := "child_id"; c_type := "VARCHAR"; c_null := false |}])] |};
  {| m_rev := "eb7b95e4e8bf"; m_down := "cc4f663817b6"; m_ops := [
      (IfNotSqlite, AlterType "value" "type" "VARCHAR")] |};
  {| m_rev := "f68b3aaee9cc"; m_down := "eb7b95e4e8bf"; m_ops := [
      (Always, CreateIndex {| i_name := "ix_job_end_time"; i_table := "job"; i_cols := ["end_time"]; i_unique := false |});
      (Always, CreateIndex {| i_name := "ix_job_start_time"; i_table := "job"; i_cols := ["start_time"]; i_unique := false |});
      (Always, CreateIndex {| i_name := "ix_value_type"; i_table := "value"; i_cols := ["type"]; i_unique := false |})] |};
  {| m_rev := "3b0a6e67cc58"; m_down := "f68b3aaee9cc"; m_ops := [
      (IfPg, PgTimestamptz "job" "start_time");
      (IfPg, PgTimestamptz "job" "end_time");
      (IfPg, PgTimestamptz "call_node" "timestamp");
      (IfPg, PgTimestamptz "redun_version" "timestamp");
      (IfPg, SqlNoData "trigger check_job_utc");
      (IfSqlite, JobTimesToUtc v)] |};
  {| m_rev := "0bee3d6dba76"; m_down := "3b0a6e67cc58"; m_ops := [
      (IfSqlite, AddColumn "execution" {| c_name := "updated_time"; c_type := "DATETIME"; c_null := true |});
      (IfPg, AddColumn "execution" {| c_name := "updated_time"; c_type := "TIMESTAMPTZ"; c_null := true |})] |}
].
(** As shipped: a task is lonely when NO value row has its hash; rows are added. *)
Definition chain (v : utc_variant) : list migration := chain_gen AnyValue AddRow v.

Definition db_versions : versions := [("806f5dcb11bf", (1%Z, 0%Z)); ("647c510a77b1", (2%Z, 0%Z)); ("30ffbaee18cd", (2%Z, 1%Z)); ("71ec303c90e4", (2%Z, 2%Z)); ("d4af139b6f53", (2%Z, 3%Z)); ("cd2d53191748", (3%Z, 0%Z)); ("cc4f663817b6", (3%Z, 1%Z)); ("eb7b95e4e8bf", (3%Z, 2%Z)); ("f68b3aaee9cc", (3%Z, 3%Z)); ("3b0a6e67cc58", (3%Z, 4%Z)); ("0bee3d6dba76", (3%Z, 5%Z))].
Definition vmin : Z * Z := (3%Z, 5%Z).
Definition vmax : Z * Z := (3%Z, 99%Z).

