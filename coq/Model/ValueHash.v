(** C16 — value hashing (redun/value.py TypeRegistry.get_hash, ProxyValue.get_hash,
    Set.get_hash; redun/utils.py pickle_dumps).  Executable model, no proofs.

    A [value] is a *concrete Python object*: the element list of a set / frozenset node
    is written in the order in which this particular object iterates.  That order is the
    only channel through which PYTHONHASHSEED and the insertion history of a set act on
    the hash, so "the same value in another process / built in another order" is the
    relation [veq] of Proofs/ValueHashFacts.v: equal up to permuting the element lists of
    set nodes.  [oid] is the identity of an object (pickle memoises by identity): two
    occurrences with the same oid are the same object.

    The pickle model is CPython's protocol-3 pickler (C and pure-Python picklers agree on
    this universe) with its memo: BINPUT after every memoised object, BINGET on a second
    occurrence of an object / of a class.  Outside the model (explicit results, never a
    silent default): containers of more than 1000 items (batching), recursive objects,
    comparison of floats / sets / lists inside [sorted]. *)
From Coq Require Import List ZArith NArith Ascii String Bool.
From RV Require Import Base.Decimal Model.Bencode Base.HashSpec.
Import ListNotations.
Open Scope list_scope.

(** * Values *)
Inductive kind :=
| KTuple | KList
| KDict                               (* items flattened: k1; v1; k2; v2; ... in insertion order *)
| KSet | KFrozenset                   (* elements in this object's iteration order *)
| KObj (modname qualname : bytes).    (* instance pickled by copyreg.__newobj__; children = [] or [state] *)

Inductive value :=
| VNone
| VBool (b : bool)
| VInt (z : Z)
| VFloat (bits : N)                   (* IEEE-754 binary64 bit pattern *)
| VStr (oid : N) (cps : list N)       (* code points *)
| VBytes (oid : N) (b : bytes)
| VNode (k : kind) (oid : N) (l : list value).

Definition is_set (k : kind) : bool := match k with KSet | KFrozenset => true | _ => false end.

(** * Configuration extracted from the source by translate/tr_valuehash.py *)
Record vh_cfg := {
  default_tag : bytes;        (* ProxyValue.get_hash: hash_tag_bytes(<tag>, pickle_dumps(instance)) *)
  set_tag : bytes;            (* Set.get_hash: hash_tag_bytes(<tag>, pickle_dumps(<sorted elements>)) *)
  set_sorted : bool;          (* Set.get_hash applies sorted() to the elements *)
  set_presort : bool;         (* ... after ordering them by their own pickle (canonical start order) *)
  canon_sets : bool;          (* pickle_dumps writes set/frozenset elements ordered by their own pickle *)
  proto : N                   (* PICKLE_PROTOCOL *)
}.

Definition s2b (s : String.string) : bytes := String.list_ascii_of_string s.

Definition shipped : vh_cfg := {|
  default_tag := s2b "Value"%string; set_tag := s2b "Value.set"%string;
  set_sorted := true; set_presort := false; canon_sets := false; proto := 3 |}.

Definition fixed : vh_cfg := {|
  default_tag := s2b "Value"%string; set_tag := s2b "Value.set"%string;
  set_sorted := true; set_presort := true; canon_sets := true; proto := 3 |}.

(** * Byte helpers *)
Definition B (n : N) : ascii := ascii_of_N n.

Fixpoint le_bytes (n : nat) (x : N) : bytes :=
  match n with O => [] | S n' => B (N.modulo x 256) :: le_bytes n' (N.div x 256) end.
Definition be_bytes (n : nat) (x : N) : bytes := rev (le_bytes n x).
Definition blen (b : bytes) : N := N.of_nat (List.length b).

Definition utf8 (c : N) : bytes :=
  if N.ltb c 128 then [B c]
  else if N.ltb c 2048 then [B (192 + N.div c 64); B (128 + N.modulo c 64)]
  else if N.ltb c 65536 then [B (224 + N.div c 4096); B (128 + N.modulo (N.div c 64) 64); B (128 + N.modulo c 64)]
  else [B (240 + N.div c 262144); B (128 + N.modulo (N.div c 4096) 64);
        B (128 + N.modulo (N.div c 64) 64); B (128 + N.modulo c 64)].
Definition utf8s (cps : list N) : bytes := flat_map utf8 cps.

(** save_long of Modules/_pickle.c (protocols >= 2). *)
Definition two31 : Z := 2147483648%Z.
Definition save_int (z : Z) : bytes :=
  if (Z.leb 0 z && Z.ltb z 256)%bool then B 75 :: le_bytes 1 (Z.to_N z)                       (* K BININT1 *)
  else if (Z.leb 0 z && Z.ltb z 65536)%bool then B 77 :: le_bytes 2 (Z.to_N z)                 (* M BININT2 *)
  else if (Z.leb (- two31) z && Z.ltb z two31)%bool
       then B 74 :: le_bytes 4 (Z.to_N (Z.modulo z 4294967296))                                 (* J BININT *)
  else
    let nbits := Z.to_nat (Z.log2 (Z.abs z) + 1) in
    let nbytes := S (Nat.div nbits 8) in
    let raw := le_bytes nbytes (Z.to_N (Z.modulo z (Z.pow 2 (8 * Z.of_nat nbytes)))) in
    let trimmed :=
      match rev raw with
      | last :: prev :: _ =>
          if (Z.ltb z 0 && N.eqb (N_of_ascii last) 255 && N.leb 128 (N_of_ascii prev))%bool
          then removelast raw else raw
      | _ => raw
      end in
    if Nat.ltb (List.length trimmed) 256 then B 138 :: le_bytes 1 (blen trimmed) ++ trimmed          (* LONG1 *)
    else B 139 :: le_bytes 4 (blen trimmed) ++ trimmed.                                         (* LONG4 *)

(** * The pickler's memo *)
Inductive mkey := MObj (oid : N) | MGlobal (m q : bytes).
Definition mkey_eqb (a b : mkey) : bool :=
  match a, b with
  | MObj x, MObj y => N.eqb x y
  | MGlobal m q, MGlobal m' q' => bytes_eqb m m' && bytes_eqb q q'
  | _, _ => false
  end.

Inductive perr := PTooLong | PMalformed.
Record st := { memo : list (mkey * N); next : N; err : option perr }.
Definition st0 : st := {| memo := []; next := 0; err := None |}.

Fixpoint lookup (k : mkey) (m : list (mkey * N)) : option N :=
  match m with [] => None | (k', i) :: r => if mkey_eqb k k' then Some i else lookup k r end.

Definition put_bytes (i : N) : bytes :=
  if N.ltb i 256 then B 113 :: le_bytes 1 i else B 114 :: le_bytes 4 i.          (* q BINPUT / r LONG_BINPUT *)
Definition get_bytes (i : N) : bytes :=
  if N.ltb i 256 then B 104 :: le_bytes 1 i else B 106 :: le_bytes 4 i.          (* h BINGET / j LONG_BINGET *)

Definition put (k : mkey) (s : st) : bytes * st :=
  (put_bytes (next s), {| memo := (k, next s) :: memo s; next := N.succ (next s); err := err s |}).
(** a temporary object (the list / args tuple of a set reduction): memoised, never seen again *)
Definition put_temp (s : st) : bytes * st :=
  (put_bytes (next s), {| memo := memo s; next := N.succ (next s); err := err s |}).
Definition fail (e : perr) (s : st) : st :=
  {| memo := memo s; next := next s; err := match err s with Some e' => Some e' | None => Some e end |}.

Definition save_global (m q : bytes) (s : st) : bytes * st :=
  match lookup (MGlobal m q) (memo s) with
  | Some i => (get_bytes i, s)
  | None => let '(bp, s1) := put (MGlobal m q) s in (B 99 :: m ++ B 10 :: q ++ B 10 :: bp, s1)   (* c GLOBAL *)
  end.

Definition BATCH : nat := 1000.

(** * save() *)
Fixpoint save (v : value) (s : st) {struct v} : bytes * st :=
  let save_all := fix go (l : list value) (s : st) : bytes * st :=
    match l with
    | [] => ([], s)
    | x :: r => let '(b1, s1) := save x s in let '(b2, s2) := go r s1 in (b1 ++ b2, s2)
    end in
  let batch_list := fun (l : list value) (s : st) =>
    match l with
    | [] => ([], s)
    | [x] => let '(b, s1) := save x s in (b ++ [B 97], s1)                         (* a APPEND *)
    | _ => let '(b, s1) := save_all l s in
           (B 40 :: b ++ [B 101], if Nat.leb (List.length l) BATCH then s1 else fail PTooLong s1)   (* ( ... e *)
    end in
  match v with
  | VNone => ([B 78], s)
  | VBool true => ([B 136], s)
  | VBool false => ([B 137], s)
  | VInt z => (save_int z, s)
  | VFloat bits => (B 71 :: be_bytes 8 bits, s)
  | VStr o cps =>
      match lookup (MObj o) (memo s) with
      | Some i => (get_bytes i, s)
      | None => let u := utf8s cps in
                let '(bp, s1) := put (MObj o) s in (B 88 :: le_bytes 4 (blen u) ++ u ++ bp, s1)   (* X BINUNICODE *)
      end
  | VBytes o b =>
      match lookup (MObj o) (memo s) with
      | Some i => (get_bytes i, s)
      | None => let '(bp, s1) := put (MObj o) s in
                ((if Nat.ltb (List.length b) 256 then B 67 :: le_bytes 1 (blen b) else B 66 :: le_bytes 4 (blen b))
                   ++ b ++ bp, s1)                                                  (* C SHORT_BINBYTES / B BINBYTES *)
      end
  | VNode KTuple _ [] => ([B 41], s)                                               (* ) EMPTY_TUPLE, never memoised *)
  | VNode k o l =>
      match lookup (MObj o) (memo s) with
      | Some i => (get_bytes i, s)
      | None =>
          match k with
          | KTuple =>
              let '(bi, s1) := save_all l s in
              let '(bp, s2) := put (MObj o) s1 in
              (match l with
               | [_] => bi ++ [B 133]
               | [_; _] => bi ++ [B 134]
               | [_; _; _] => bi ++ [B 135]
               | _ => B 40 :: bi ++ [B 116]                                        (* ( ... t *)
               end ++ bp, s2)
          | KList =>
              let '(bp, s1) := put (MObj o) s in
              let '(bi, s2) := batch_list l s1 in
              (B 93 :: bp ++ bi, s2)                                               (* ] EMPTY_LIST *)
          | KDict =>
              let '(bp, s1) := put (MObj o) s in
              let '(bi, s2) :=
                match l with
                | [] => ([], s1)
                | [k1; v1] => let '(b, s') := save_all l s1 in (b ++ [B 115], s')  (* s SETITEM *)
                | _ => let '(b, s') := save_all l s1 in
                       (B 40 :: b ++ [B 117],                                      (* ( ... u SETITEMS *)
                        if Nat.even (List.length l) then
                          if Nat.leb (List.length l) (2 * BATCH) then s' else fail PTooLong s'
                        else fail PMalformed s')
                end in
              (B 125 :: bp ++ bi, s2)                                              (* } EMPTY_DICT *)
          | KSet | KFrozenset =>
              (* protocol < 4: save_reduce(type(obj), (list(obj),), obj=obj) *)
              let '(bg, s1) := save_global (s2b "builtins"%string)
                                 (match k with KSet => s2b "set"%string | _ => s2b "frozenset"%string end) s in
              let '(bp1, s2) := put_temp s1 in
              let '(bi, s3) := batch_list l s2 in
              let '(bp2, s4) := put_temp s3 in
              let '(bp3, s5) := put (MObj o) s4 in
              (bg ++ B 93 :: bp1 ++ bi ++ B 133 :: bp2 ++ B 82 :: bp3, s5)         (* ] .. \x85 TUPLE1 .. R REDUCE *)
          | KObj m q =>
              let '(bg, s1) := save_global m q s in
              let '(bp, s2) := put (MObj o) s1 in
              let '(bs, s3) :=
                match l with
                | [] => ([], s2)
                | [state] => let '(b, s') := save state s2 in (b ++ [B 98], s')    (* b BUILD *)
                | _ => ([], fail PMalformed s2)
                end in
              (bg ++ B 41 :: B 129 :: bp ++ bs, s3)                                (* ) \x81 NEWOBJ *)
          end
      end
  end.

(** pickle.dumps(v, protocol=3) with a fresh memo *)
Definition pickle_raw (v : value) : bytes * option perr :=
  let '(b, s) := save v st0 in (B 128 :: B 3 :: b ++ [B 46], err s).
Definition pickle_key (v : value) : bytes := fst (pickle_raw v).

(** * Canonical element order (the repaired pickle_dumps): the elements of every set and
    frozenset are written in the order of their own canonical pickle (stable). *)
Definition keysort (l : list value) : list value :=
  map snd (sort_kvs (map (fun e => (pickle_key e, e)) l)).

Fixpoint canon (v : value) : value :=
  match v with
  | VNode k o l => let l' := map canon l in VNode k o (if is_set k then keysort l' else l')
  | _ => v
  end.

Definition pickle (c : vh_cfg) (v : value) : bytes * option perr :=
  pickle_raw (if canon_sets c then canon v else v).

(** * sorted() on the elements of a top-level set *)
Inductive sort_result := SortOk (l : list value) | SortTypeError | SortUnmodelled.

Inductive cres := CEq | CLt | CGt
| CNe            (* unequal, and `<` raises TypeError *)
| CUnmod.        (* outside the model (float, set, list, dict, two instances) *)

Definition of_cmp (c : comparison) : cres := match c with Eq => CEq | Lt => CLt | Gt => CGt end.

Fixpoint lex_N (a b : list N) : comparison :=
  match a, b with
  | [], [] => Eq | [], _ :: _ => Lt | _ :: _, [] => Gt
  | x :: a', y :: b' => match N.compare x y with Eq => lex_N a' b' | c => c end
  end.
Definition cmp_bytes (a b : bytes) : comparison :=
  if bytes_ltb a b then Lt else if bytes_ltb b a then Gt else Eq.

Inductive sclass := SNum | SStr | SBytes | SNoneC | STuple | SObj | SOther.
Definition sclass_of (v : value) : sclass :=
  match v with
  | VNone => SNoneC | VBool _ | VInt _ => SNum | VFloat _ => SOther
  | VStr _ _ => SStr | VBytes _ _ => SBytes
  | VNode KTuple _ _ => STuple | VNode (KObj _ _) _ _ => SObj | VNode _ _ _ => SOther
  end.
Definition num_of (v : value) : Z :=
  match v with VInt z => z | VBool true => 1%Z | _ => 0%Z end.

(** Python's == / < on the comparable part of the universe (tuple comparison: first
    position where the items are not equal decides; else the lengths). *)
Fixpoint cmp3 (a b : value) {struct a} : cres :=
  match sclass_of a, sclass_of b with
  | SOther, _ | _, SOther => CUnmod
  | SObj, SObj => CUnmod
  | SNum, SNum => of_cmp (Z.compare (num_of a) (num_of b))
  | SNoneC, SNoneC => CEq
  | SStr, SStr => match a, b with VStr _ x, VStr _ y => of_cmp (lex_N x y) | _, _ => CUnmod end
  | SBytes, SBytes => match a, b with VBytes _ x, VBytes _ y => of_cmp (cmp_bytes x y) | _, _ => CUnmod end
  | STuple, STuple =>
      match a, b with
      | VNode _ _ la, VNode _ _ lb =>
          (fix go (la lb : list value) : cres :=
             match la, lb with
             | [], [] => CEq | [], _ :: _ => CLt | _ :: _, [] => CGt
             | x :: ra, y :: rb => match cmp3 x y with CEq => go ra rb | r => r end
             end) la lb
      | _, _ => CUnmod
      end
  | _, _ => CNe
  end.

Definition insert_lt (x : value) : list value -> list value :=
  fix go l := match l with
              | [] => [x]
              | y :: r => match cmp3 x y with CLt => x :: l | _ => y :: go r end
              end.
Fixpoint isort (l : list value) : list value :=
  match l with [] => [] | x :: r => insert_lt x (isort r) end.

Fixpoint pairs_have (p : cres -> bool) (l : list value) : bool :=
  match l with
  | [] => false
  | x :: r => existsb (fun y => p (cmp3 x y)) r || pairs_have p r
  end.

Definition py_sorted (l : list value) : sort_result :=
  if pairs_have (fun c => match c with CUnmod => true | _ => false end) l then SortUnmodelled
  else if pairs_have (fun c => match c with CNe => true | _ => false end) l then SortTypeError
  else SortOk (isort l).

(** * get_hash *)
Inductive hres :=
| HOk (preimage : bytes)     (* the bytes fed to SHA-512: bencode([tag]) ++ pickle *)
| HTypeError                 (* sorted() raised *)
| HUnmodelled | HMalformed.

Definition tagged (tag : bytes) (p : bytes * option perr) : hres :=
  match snd p with
  | None => HOk (pre_tag_bytes tag (fst p))
  | Some PTooLong => HUnmodelled
  | Some PMalformed => HMalformed
  end.

Definition TMP : N := 0.     (* oid of the list built by sorted(); the harness numbers objects from 1 *)

Section GetHash.
  Variable sorted_fn : list value -> sort_result.

  Definition get_hash (c : vh_cfg) (v : value) : hres :=
    match v with
    | VNode KSet _ l =>
        let l0 := if set_presort c then keysort (map (if canon_sets c then canon else fun x => x) l) else l in
        match (if set_sorted c then sorted_fn l0 else SortOk l0) with
        | SortOk l' => tagged (set_tag c) (pickle c (VNode KList TMP l'))
        | SortTypeError => HTypeError
        | SortUnmodelled => HUnmodelled
        end
    | _ => tagged (default_tag c) (pickle c v)
    end.
End GetHash.

Definition get_hash_py := get_hash py_sorted.

(** comparison helper for generated cases *)
Definition hres_is (r : hres) (tag pickled : bytes) : bool :=
  match r with HOk p => bytes_eqb p (pre_tag_bytes tag pickled) | _ => false end.
Definition hres_type_error (r : hres) : bool := match r with HTypeError => true | _ => false end.
Definition hres_unmodelled (r : hres) : bool := match r with HUnmodelled => true | _ => false end.
