(** Executable model of expression hashing and pickling (C18). Definitions only, no proofs.

    Sources modelled (redun/expression.py):
      TaskExpression._calc_hash / SchedulerExpression._calc_hash / SimpleExpression._calc_hash /
      ValueExpression._calc_hash                       -> [expr_calc] (fields [expr_fields])
      Expression.get_hash                              -> [get_hash]
      __getstate__ / __setstate__ of the four classes  -> [getstate] / [setstate]
    redun/scheduler.py: the pending-expression table is keyed by (parent job, expr.get_hash()) -> [merge_key]

    Abstract (Section variables): [H] (Hash().hexdigest), [vhash] (TypeRegistry.get_hash of an argument
    or value), [pickle] (pickle_dumps of the option dict), the registry's serialize/deserialize pairs. *)
From Coq Require Import List ZArith Ascii String Bool.
From RV Require Import Base.Decimal Model.Bencode Base.HashSpec Model.TaskHash.
Import ListNotations.
Open Scope list_scope.

Inductive kind := KTask | KScheduler | KSimple | KValue.

Definition kind_eqb (a c : kind) : bool :=
  match a, c with
  | KTask, KTask | KScheduler, KScheduler | KSimple, KSimple | KValue, KValue => true
  | _, _ => false
  end.

(** [_upstreams]: the default [[args, kwargs]], the empty list, or anything set during a run *)
Inductive ups := UArgs | UEmpty | UOther (tag : nat).

Section ExprHash.
  Variable H : bytes -> bytes.
  Variable value : Type.
  Variable vhash : value -> bytes.
  Variable pickle : opts value -> bytes.     (* pickle_dumps(self._options) *)
  Variable ve : variant.                     (* which SchedulerExpression._calc_hash *)
  Variable nm : list (bytes * bytes).        (* SimpleExpression._calc_hash: operator names replaced before
                                                hashing ([table.get(func_name, func_name)]); [] = verbatim *)

  Definition map_name (n : bytes) : bytes :=
    match lookup_b n nm with Some m => m | None => n end.

  Record expr := {
    e_kind : kind;
    e_name : bytes;                          (* task_name / func_name; unused for KValue *)
    e_args : list value;
    e_kwargs : list (bytes * value);
    e_options : opts value;                  (* _options (call-time task options) *)
    e_export : list bytes;                   (* _export_options (a set of str) *)
    e_value : option value;                  (* ValueExpression.value *)
    e_length : option nat;
    (* per-run bookkeeping *)
    e_hash : option bytes;                   (* _hash (cache of _calc_hash) *)
    e_call_hash : option bytes;
    e_upstreams : ups
  }.

  Definition is_nil {A} (l : list A) : bool := match l with [] => true | _ :: _ => false end.

  (** [hash_bytes(pickle_dumps(self._options))] *)
  Definition options_hash (e : expr) : bytes := H (pickle (e_options e)).
  (** [hash_struct(list(sorted(self._export_options)))] *)
  Definition export_pre (ex : list bytes) : bytes := pre_struct (BList (map BStr (sort_b ex))).
  Definition export_hash (e : expr) : bytes := H (export_pre (e_export e)).
  Definition eargs_hash (e : expr) : bytes := args_hash H vhash (e_args e) (e_kwargs e).

  Definition expr_tag (k : kind) : bytes :=
    match k with
    | KTask => b "TaskExpression"
    | KScheduler => b "SchedulerExpression"
    | KSimple => b "SimpleExpression"
    | KValue => b "ValueExpression"
    end.

  Definition expr_fields (e : expr) : list data :=
    match e_kind e with
    | KTask =>
        [BStr (e_name e); BStr (eargs_hash e); BStr (options_hash e)]
        ++ (if is_nil (e_export e) then [] else [BStr (export_hash e)])
    | KScheduler =>
        match ve with
        | AsShipped => [BStr (e_name e); BStr (eargs_hash e)]
        | Fixed =>
            if is_nil (e_options e) && is_nil (e_export e) then [BStr (e_name e); BStr (eargs_hash e)]
            else [BStr (e_name e); BStr (eargs_hash e); BStr (options_hash e); BStr (export_hash e)]
        end
    | KSimple => [BStr (map_name (e_name e)); BStr (eargs_hash e)]
    | KValue => match e_value e with Some v => [BStr (vhash v)] | None => [] end
    end.

  Definition expr_pre (e : expr) : bytes := pre_struct (layout (expr_tag (e_kind e)) (expr_fields e)).
  Definition expr_calc (e : expr) : bytes := H (expr_pre e).

  (** [Expression.get_hash] *)
  Definition get_hash (e : expr) : bytes :=
    match e_hash e with Some h => h | None => expr_calc e end.

  (** key of [Scheduler._pending_expr[parent_job]] *)
  Definition merge_key (job : nat) (e : expr) : nat * bytes := (job, get_hash e).

  (** * Pickling *)
  Variable sdata : Type.
  Variable ser_args : list value -> sdata.
  Variable deser_args : sdata -> list value.
  Variable ser_kwargs : list (bytes * value) -> sdata.
  Variable deser_kwargs : sdata -> list (bytes * value).
  Variable type_name : value -> bytes.
  Variable ser_value : value -> sdata.
  Variable deser_value : bytes -> sdata -> value.

  (** the state dict: [None] = key absent *)
  Record state := {
    s_task_name : option bytes;
    s_func_name : option bytes;
    s_args : option sdata;
    s_kwargs : option sdata;
    s_task_options : option (opts value);
    s_export_options : option (list bytes);
    s_length : option (option nat);
    s_value_type : option bytes;
    s_value : option sdata
  }.

  Definition empty_state : state :=
    {| s_task_name := None; s_func_name := None; s_args := None; s_kwargs := None; s_task_options := None;
       s_export_options := None; s_length := None; s_value_type := None; s_value := None |}.

  Definition getstate (e : expr) : state :=
    match e_kind e with
    | KTask | KScheduler =>
        {| s_task_name := Some (e_name e); s_func_name := None;
           s_args := Some (ser_args (e_args e)); s_kwargs := Some (ser_kwargs (e_kwargs e));
           s_task_options := Some (e_options e); s_export_options := Some (e_export e);
           s_length := Some (e_length e); s_value_type := None; s_value := None |}
    | KSimple =>
        {| s_task_name := None; s_func_name := Some (e_name e);
           s_args := Some (ser_args (e_args e)); s_kwargs := Some (ser_kwargs (e_kwargs e));
           s_task_options := None; s_export_options := None; s_length := None;
           s_value_type := None; s_value := None |}
    | KValue =>
        match e_value e with
        | Some v =>
            {| s_task_name := None; s_func_name := None; s_args := None; s_kwargs := None;
               s_task_options := None; s_export_options := None; s_length := None;
               s_value_type := Some (type_name v); s_value := Some (ser_value v) |}
        | None => empty_state
        end
    end.

  Definition orelse {A} (o : option A) (d : A) : A := match o with Some x => x | None => d end.

  (** [__setstate__] of the class [k]; [None] = KeyError *)
  Definition setstate (k : kind) (st : state) : option expr :=
    match k with
    | KTask | KScheduler =>
        match s_task_name st, s_args st, s_kwargs st with
        | Some n, Some a, Some kw =>
            Some {| e_kind := k; e_name := n; e_args := deser_args a; e_kwargs := deser_kwargs kw;
                    e_options := orelse (s_task_options st) []; e_export := orelse (s_export_options st) [];
                    e_value := None; e_length := orelse (s_length st) None;
                    e_hash := None; e_call_hash := None; e_upstreams := UArgs |}
        | _, _, _ => None
        end
    | KSimple =>
        match s_func_name st, s_args st, s_kwargs st with
        | Some n, Some a, Some kw =>
            Some {| e_kind := k; e_name := n; e_args := deser_args a; e_kwargs := deser_kwargs kw;
                    e_options := []; e_export := []; e_value := None; e_length := None;
                    e_hash := None; e_call_hash := None; e_upstreams := UArgs |}
        | _, _, _ => None
        end
    | KValue =>
        match s_value_type st, s_value st with
        | Some tn, Some d =>
            Some {| e_kind := k; e_name := []; e_args := []; e_kwargs := []; e_options := []; e_export := [];
                    e_value := Some (deser_value tn d); e_length := None;
                    e_hash := None; e_call_hash := None; e_upstreams := UEmpty |}
        | _, _ => None
        end
    end.

  Definition roundtrip (e : expr) : option expr := setstate (e_kind e) (getstate e).
End ExprHash.

Arguments e_kind {value} _.
Arguments e_name {value} _.
Arguments e_args {value} _.
Arguments e_kwargs {value} _.
Arguments e_options {value} _.
Arguments e_export {value} _.
Arguments e_value {value} _.
Arguments e_length {value} _.
Arguments e_hash {value} _.
Arguments e_call_hash {value} _.
Arguments e_upstreams {value} _.
Arguments Build_expr {value}.
Arguments options_hash H {value}.
Arguments export_hash H {value}.
Arguments eargs_hash H {value}.
Arguments expr_fields H {value}.
Arguments expr_pre H {value}.
Arguments expr_calc H {value}.
Arguments get_hash H {value}.
Arguments merge_key H {value}.
Arguments getstate {value sdata}.
Arguments setstate {value sdata}.
Arguments roundtrip {value sdata}.

(** * Description of the source regenerated by the translator (tie: [gen = describe_expr ve]). *)
Inductive efield := EName | EArgsHash | EOptionsHash | EExportHash | EValueHash.
Inductive guard := GAlways | GNoExport | GNoOptionsNoExport.

Record edescription := {
  ed_task : list (guard * bytes * list efield);        (* branches of _calc_hash: guard, tag, fields *)
  ed_scheduler : list (guard * bytes * list efield);
  ed_simple : list (guard * bytes * list efield);
  ed_simple_name_map : list (bytes * bytes);           (* [] when self.func_name is hashed verbatim *)
  ed_value : list (guard * bytes * list efield);
  ed_options_hash : bytes;                             (* expression that defines options_hash *)
  ed_export_hash : bytes;
  ed_args_hash : bytes;
  ed_value_hash : bytes;
  ed_get_hash_cached : bool;                           (* get_hash: compute once, cache in _hash *)
  ed_getstate : list (bytes * list (bytes * bytes));   (* class -> (state key, value expression) *)
  ed_setstate : list (bytes * list (bytes * bytes));   (* class -> (attribute, value expression) *)
  ed_pending_key : bytes;                              (* key expression of Scheduler._pending_expr[parent_job] *)
  ed_fields_fixed_after_construction : bool            (* no site outside __init__/__setstate__ writes, mutates or
                                                          aliases an expression's _options / _export_options: the
                                                          record [expr] is a value, [cache_ok] is preserved *)
}.

Definition scheduler_branches (v : variant) : list (guard * bytes * list efield) :=
  match v with
  | AsShipped => [(GAlways, b "SchedulerExpression", [EName; EArgsHash])]
  | Fixed => [(GNoOptionsNoExport, b "SchedulerExpression", [EName; EArgsHash]);
              (GAlways, b "SchedulerExpression", [EName; EArgsHash; EOptionsHash; EExportHash])]
  end.

Definition apply_setstate : list (bytes * bytes) :=
  [(b "self.args", b "registry.deserialize('builtins.tuple', state['args'])");
   (b "self.kwargs", b "registry.deserialize('builtins.dict', state['kwargs'])");
   (b "self._upstreams", b "[self.args, self.kwargs]")].

Definition describe_expr (v : variant) (nm : list (bytes * bytes)) : edescription := {|
  ed_task := [(GNoExport, b "TaskExpression", [EName; EArgsHash; EOptionsHash]);
              (GAlways, b "TaskExpression", [EName; EArgsHash; EOptionsHash; EExportHash])];
  ed_scheduler := scheduler_branches v;
  ed_simple := [(GAlways, b "SimpleExpression", [EName; EArgsHash])];
  ed_simple_name_map := nm;
  ed_value := [(GAlways, b "ValueExpression", [EValueHash])];
  ed_options_hash := b "hash_bytes(pickle_dumps(self._options))";
  ed_export_hash := b "hash_struct(list(sorted(self._export_options)))";
  ed_args_hash := b "hash_arguments(registry, self.args, self.kwargs)";
  ed_value_hash := b "registry.get_hash(self.value)";
  ed_get_hash_cached := true;
  ed_getstate :=
    [(b "Expression", []);
     (b "TaskExpression",
      [(b "task_name", b "self.task_name"); (b "args", b "registry.serialize(self.args)");
       (b "kwargs", b "registry.serialize(self.kwargs)"); (b "task_options", b "self._options");
       (b "export_options", b "self._export_options"); (b "length", b "self._length")]);
     (b "SimpleExpression",
      [(b "func_name", b "self.func_name"); (b "args", b "registry.serialize(self.args)");
       (b "kwargs", b "registry.serialize(self.kwargs)")]);
     (b "ValueExpression",
      [(b "value_type", b "registry.get_type_name(type(self.value))"); (b "value", b "registry.serialize(self.value)")])];
  ed_setstate :=
    [(b "Expression", [(b "self._hash", b "None"); (b "self._upstreams", b "[]"); (b "self._length", b "None")]);
     (b "TaskExpression",
      [(b "self.task_name", b "state['task_name']");
       (b "self.args", b "registry.deserialize('builtins.tuple', state['args'])");
       (b "self.kwargs", b "registry.deserialize('builtins.dict', state['kwargs'])");
       (b "self._options", b "state.get('task_options', {})");
       (b "self._export_options", b "state.get('export_options', set())");
       (b "self._upstreams", b "[self.args, self.kwargs]");
       (b "self._length", b "state.get('length', None)");
       (b "self.call_hash", b "None")]);
     (b "SimpleExpression", (b "self.func_name", b "state['func_name']") :: apply_setstate);
     (b "ValueExpression",
      [(b "self.value", b "registry.deserialize(state['value_type'], state['value'])")])];
  ed_pending_key := b "expr.get_hash()";
  ed_fields_fixed_after_construction := true
|}.

(** * Glue for the correspondence run *)
Definition optb_eq (x y : option bytes) : bool :=
  match x, y with
  | Some p, Some q => bytes_eqb p q
  | None, None => true
  | _, _ => false
  end.

Fixpoint list_b_eq (x y : list bytes) : bool :=
  match x, y with
  | [], [] => true
  | p :: x', q :: y' => bytes_eqb p q && list_b_eq x' y'
  | _, _ => false
  end.

Definition ups_eqb (x y : ups) : bool :=
  match x, y with
  | UArgs, UArgs | UEmpty, UEmpty => true
  | UOther n, UOther m => Nat.eqb n m
  | _, _ => false
  end.

Definition optnat_eq (x y : option nat) : bool :=
  match x, y with Some n, Some m => Nat.eqb n m | None, None => true | _, _ => false end.

(** structural equality of expressions over [value := bytes] (export compared as a set: sorted) *)
Definition expr_eqb (x y : expr bytes) : bool :=
  kind_eqb (e_kind x) (e_kind y) && bytes_eqb (e_name x) (e_name y) && list_b_eq (e_args x) (e_args y)
  && opts_eqb (e_kwargs x) (e_kwargs y) && opts_eqb (e_options x) (e_options y)
  && list_b_eq (sort_b (e_export x)) (sort_b (e_export y)) && optb_eq (e_value x) (e_value y)
  && optnat_eq (e_length x) (e_length y) && optb_eq (e_hash x) (e_hash y)
  && optb_eq (e_call_hash x) (e_call_hash y) && ups_eqb (e_upstreams x) (e_upstreams y).

Definition opt_expr_eqb (x : option (expr bytes)) (y : expr bytes) : bool :=
  match x with Some e => expr_eqb e y | None => false end.

(** a concrete serialisation for [value := bytes] (used by the non-vacuity example and the
    correspondence run): everything is a list of pairs *)
Definition sd := list (bytes * bytes).
Definition sa (a : list bytes) : sd := map (fun x => ([], x)) a.
Definition da (d : sd) : list bytes := map snd d.
Definition sk (k : list (bytes * bytes)) : sd := k.
Definition dk (d : sd) : list (bytes * bytes) := d.
Definition sv (v : bytes) : sd := [([], v)].
Definition dv (tn : bytes) (d : sd) : bytes := match d with [(_, v)] => v | _ => [] end.
Definition rt_bytes (tn : bytes -> bytes) (e : expr bytes) : option (expr bytes) :=
  roundtrip sa da sk dk tn sv dv e.
