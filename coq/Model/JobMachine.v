(** Executable model of the scheduler's job bookkeeping
    (redun/scheduler.py: _exec_job_main_thread, _done_job_main_thread,
    _resolve_job_main_thread, _reject_job_main_thread, _check_jobs_pending_limits,
    _check_pending_job, Job.collapse, _finalize_job) at the granularity of the real
    event queue.  No proofs here.

    The machine is *open*: what the evaluation of a job's result expression does
    (which child jobs it creates, when it finishes, with what value) is chosen by the
    schedule ([ONew], [OEval]); so is every executor completion ([OComplete]) and every
    answer of the backend cache for entries of *earlier* executions ([OPop c]).
    Every statement proved for all op lists therefore holds for every workflow, every
    completion order and every cache content. *)
From Coq Require Import List ZArith Bool Arith.
Import ListNotations.
Open Scope list_scope.

Inductive outcome := Ok (v : Z) | Ko (e : Z).

Inductive phase :=
| PQueued                 (* an Exec event for the job is in the queue (first time or re-nominated) *)
| PWaiting                (* in _jobs_pending_limits *)
| PCollapsed (into : nat) (* Job.collapse: waits for the twin's result promise *)
| PSubmitted              (* handed to an executor, not yet reported *)
| PReported               (* executor called done_job / reject_job: event queued *)
| PCacheQ                 (* cache / CSE hit or collapse result: Done or Reject event queued *)
| PEvaluating             (* _done_job_main_thread ran; result expression being evaluated *)
| PEvalQ                  (* evaluation finished: Resolve or Reject event queued *)
| PSettled (o : outcome)  (* job.resolve / job.reject + _finalize_job *)
| PDryStop.               (* dry run: would have been submitted *)

Record job := {
  jkey : nat;                   (* (task hash, args hash) *)
  jctx : nat;                   (* context hash; 0 = empty context *)
  jlimits : list (nat * Z);     (* resource demands, names unique *)
  jnocse : bool;                (* cache_scope = NONE (incl. prov=False) or CSE not allowed *)
  jprov : bool;                 (* recording provenance *)
  jbadexec : bool;              (* unknown executor / async unsupported: rejected after consuming *)
  jphase : phase;
  jcached : bool;               (* was_cached *)
  jholds : bool;                (* holds its units (bookkeeping used by the Fixed variant) *)
  jsubmits : nat;               (* times handed to an executor *)
  jreleases : nat;              (* times _release_resources ran for it *)
  jpreset : option Z            (* final value already known when Done is processed *)
}.

Inductive event :=
| EvExec (j : nat)
| EvDone (j : nat)
| EvReject (j : nat) (e : Z)
| EvResolve (j : nat) (v : Z).

(** What the backend answers for entries recorded by *earlier* executions. *)
Inductive cache_outcome :=
| CMiss
| CHitFinal (v : Z)     (* ultimate reduction: final value *)
| CHitExpr.             (* single reduction: an expression that still has to be evaluated *)

Inductive op :=
| ONew (key ctx : nat) (limits : list (nat * Z)) (nocse prov badexec : bool)
| OPop (k : nat) (j : nat) (c : cache_outcome)
    (* process the first queued event of kind k (0 exec, 1 done, 2 reject, 3 resolve) for job j.
       The real loop is FIFO; the model lets any queued event go next, a superset of behaviours. *)
| OComplete (j : nat) (ok : bool) (e : Z)
| OEval (j : nat) (o : outcome).

(** Variant switches at the sites where the unchanged code is known to be defective. *)
Record variant := {
  release_if_holds : bool;   (* false (as shipped): release iff not was_cached; true: iff the job still holds units *)
  recheck_on_skip : bool;    (* false (as shipped): a re-nominated job that ends up collapsed/cached wakes nobody *)
  ctx_strict : bool;         (* false (as shipped): a context-free call may reuse a record made under a context *)
  pending_owner_safe : bool; (* false (as shipped): submitting overwrites _pending_jobs[key] and _finalize_job pops it
                                whoever owns the entry; true: jobs that opted out of CSE do not register, pop only one's own entry *)
  ctx_exact : bool           (* true: a context-free look-up sees exactly the records made without a context.
                                false (the current code): the context of a call is a tag on its CallNode, and a CallNode is
                                shared by all calls with one call hash; a context-free look-up skips every tagged CallNode,
                                so once a twin of the call has been recorded under a context the backend's answer decides
                                (it may miss although the context-free call was recorded) *)
}.
Definition as_shipped : variant :=
  {| release_if_holds := false; recheck_on_skip := false; ctx_strict := false; pending_owner_safe := false;
     ctx_exact := false |}.
Definition all_fixed : variant :=
  {| release_if_holds := true; recheck_on_skip := true; ctx_strict := true; pending_owner_safe := true;
     ctx_exact := true |}.

Record config := {
  limit_of : nat -> Z;       (* configured limit; 1 for an unconfigured name *)
  dryrun : bool;
  vr : variant
}.

Record state := {
  jobs : list job;
  queue : list event;                         (* head = next event *)
  pending : list ((nat * nat) * nat);         (* _pending_jobs: (key, ctx) -> job id *)
  waiting : list nat;                         (* _jobs_pending_limits, in order *)
  used : nat -> Z;                            (* limits_used *)
  recorded : list ((nat * nat) * outcome);    (* call nodes recorded in this execution, newest first *)
  subs : list (nat * nat);                    (* (twin, collapsed job) in registration order *)
  submitlog : list nat                        (* jobs handed to an executor, newest first *)
}.

Definition init : state :=
  {| jobs := []; queue := []; pending := []; waiting := []; used := fun _ => 0%Z;
     recorded := []; subs := []; submitlog := [] |}.

(** * Small helpers *)
Definition getj (s : state) (j : nat) : option job := nth_error (jobs s) j.

Fixpoint set_nth {A} (l : list A) (n : nat) (x : A) : list A :=
  match l, n with
  | [], _ => []
  | _ :: r, O => x :: r
  | y :: r, S n => y :: set_nth r n x
  end.

Definition setj (s : state) (j : nat) (x : job) : state :=
  {| jobs := set_nth (jobs s) j x; queue := queue s; pending := pending s; waiting := waiting s;
     used := used s; recorded := recorded s; subs := subs s; submitlog := submitlog s |}.

Definition with_phase (x : job) (p : phase) : job :=
  {| jkey := jkey x; jctx := jctx x; jlimits := jlimits x; jnocse := jnocse x; jprov := jprov x;
     jbadexec := jbadexec x; jphase := p; jcached := jcached x; jholds := jholds x;
     jsubmits := jsubmits x; jreleases := jreleases x; jpreset := jpreset x |}.

Definition enqueue (s : state) (e : event) : state :=
  {| jobs := jobs s; queue := queue s ++ [e]; pending := pending s; waiting := waiting s;
     used := used s; recorded := recorded s; subs := subs s; submitlog := submitlog s |}.

Definition key_eqb (a b : nat * nat) : bool := Nat.eqb (fst a) (fst b) && Nat.eqb (snd a) (snd b).

Definition lookup_pending (s : state) (k : nat * nat) : option nat :=
  option_map snd (find (fun p => key_eqb (fst p) k) (pending s)).

Definition demand (l : list (nat * Z)) (r : nat) : Z :=
  match find (fun p => Nat.eqb (fst p) r) l with Some p => snd p | None => 0%Z end.

(** [_add_limits]: union of names, counts added. *)
Definition add_limits (l1 l2 : list (nat * Z)) : list (nat * Z) :=
  map (fun p => (fst p, (snd p + demand l2 (fst p))%Z)) l1 ++
  filter (fun p => negb (existsb (fun q => Nat.eqb (fst q) (fst p)) l1)) l2.

(** [_is_job_within_limits] *)
Definition within (c : config) (u : nat -> Z) (l : list (nat * Z)) : bool :=
  forallb (fun p => Z.leb 0 (limit_of c (fst p) - u (fst p) - snd p)) l.

Definition consume (u : nat -> Z) (l : list (nat * Z)) : nat -> Z :=
  fold_left (fun u p => fun r => if Nat.eqb r (fst p) then (u r + snd p)%Z else u r) l u.
Definition release (u : nat -> Z) (l : list (nat * Z)) : nat -> Z :=
  fold_left (fun u p => fun r => if Nat.eqb r (fst p) then (u r - snd p)%Z else u r) l u.

Definition set_used (s : state) (u : nat -> Z) : state :=
  {| jobs := jobs s; queue := queue s; pending := pending s; waiting := waiting s;
     used := u; recorded := recorded s; subs := subs s; submitlog := submitlog s |}.
Definition set_waiting (s : state) (w : list nat) : state :=
  {| jobs := jobs s; queue := queue s; pending := pending s; waiting := w;
     used := used s; recorded := recorded s; subs := subs s; submitlog := submitlog s |}.
Definition set_pending (s : state) (p : list ((nat * nat) * nat)) : state :=
  {| jobs := jobs s; queue := queue s; pending := p; waiting := waiting s;
     used := used s; recorded := recorded s; subs := subs s; submitlog := submitlog s |}.
Definition add_recorded (s : state) (k : nat * nat) (o : outcome) : state :=
  {| jobs := jobs s; queue := queue s; pending := pending s; waiting := waiting s;
     used := used s; recorded := (k, o) :: recorded s; subs := subs s; submitlog := submitlog s |}.
Definition add_sub (s : state) (twin j : nat) : state :=
  {| jobs := jobs s; queue := queue s; pending := pending s; waiting := waiting s;
     used := used s; recorded := recorded s; subs := subs s ++ [(twin, j)]; submitlog := submitlog s |}.
Definition add_submit (s : state) (j : nat) : state :=
  {| jobs := jobs s; queue := queue s; pending := pending s; waiting := waiting s;
     used := used s; recorded := recorded s; subs := subs s; submitlog := j :: submitlog s |}.

(** * _check_jobs_pending_limits *)
Fixpoint split_ready (c : config) (s : state) (w : list nat) (ready_lim : list (nat * Z))
  : list nat * list nat :=
  match w with
  | [] => ([], [])
  | j :: r =>
      match getj s j with
      | None => split_ready c s r ready_lim
      | Some x =>
          let proposed := add_limits (jlimits x) ready_lim in
          if within c (used s) proposed
          then let (a, b) := split_ready c s r proposed in (j :: a, b)
          else let (a, b) := split_ready c s r ready_lim in (a, j :: b)
      end
  end.

Definition requeue (s : state) (j : nat) : state :=
  match getj s j with
  | Some x => enqueue (setj s j (with_phase x PQueued)) (EvExec j)
  | None => s
  end.

Definition check_pending_limits (c : config) (s : state) : state :=
  let (ready, notready) := split_ready c s (waiting s) [] in
  fold_left requeue ready (set_waiting s notready).

(** * release at done / reject *)
Definition bump_release (x : job) : job :=
  {| jkey := jkey x; jctx := jctx x; jlimits := jlimits x; jnocse := jnocse x; jprov := jprov x;
     jbadexec := jbadexec x; jphase := jphase x; jcached := jcached x; jholds := false;
     jsubmits := jsubmits x; jreleases := S (jreleases x); jpreset := jpreset x |}.

Definition maybe_release (c : config) (s : state) (j : nat) : state :=
  match getj s j with
  | None => s
  | Some x =>
      let guard := if release_if_holds (vr c) then jholds x else negb (jcached x) in
      if guard then
        check_pending_limits c (set_used (setj s j (bump_release x)) (release (used s) (jlimits x)))
      else s
  end.

(** * _finalize_job: pops _pending_jobs[(key, ctx)] *)
Definition finalize (c : config) (s : state) (j : nat) : state :=
  match getj s j with
  | None => s
  | Some x =>
      let k := (jkey x, jctx x) in
      set_pending s (filter (fun p => negb (key_eqb (fst p) k &&
                                           (if pending_owner_safe (vr c) then Nat.eqb (snd p) j else true)))
                            (pending s))
  end.

Definition mark_cached (x : job) (v : option Z) (p : phase) : job :=
  {| jkey := jkey x; jctx := jctx x; jlimits := jlimits x; jnocse := jnocse x; jprov := jprov x;
     jbadexec := jbadexec x; jphase := p; jcached := true; jholds := jholds x;
     jsubmits := jsubmits x; jreleases := jreleases x; jpreset := v |}.

(** Settling a job: record, set the phase, finalize, then run the callbacks that collapsed
    twins registered on its result promise, in registration order.  A fulfilled twin gets a
    Done event (scheduler.done_job); a rejected one is rejected synchronously
    (scheduler._reject_job_main_thread) — it is cached, so it releases nothing. *)
Definition settle_one (c : config) (s : state) (j : nat) (o : outcome) : state :=
  match getj s j with
  | None => s
  | Some x =>
      let s1 := if jprov x then add_recorded s (jkey x, jctx x) o else s in
      finalize c (setj s1 j (with_phase x (PSettled o))) j
  end.

Definition notify_sub (c : config) (o : outcome) (s : state) (sub : nat) : state :=
  match getj s sub with
  | None => s
  | Some y =>
      match o with
      | Ok v => enqueue (setj s sub (mark_cached y (Some v) PCacheQ)) (EvDone sub)
      | Ko e => settle_one c (setj s sub (mark_cached y None (jphase y))) sub (Ko e)
      end
  end.

Definition settle (c : config) (s : state) (j : nat) (o : outcome) : state :=
  match getj s j with
  | None => s
  | Some x =>
      (* job.resolve/job.reject run the promise callbacks before _finalize_job; the order of
         the two does not matter for the state reached (both only remove the same key). *)
      let s1 := settle_one c s j o in
      let mine := map snd (filter (fun p => Nat.eqb (fst p) j) (subs s1)) in
      fold_left (notify_sub c o) mine s1
  end.

(** * CSE lookup in the backend for call nodes of this execution *)
Definition cse_lookup (c : config) (s : state) (key ctx : nat) : option outcome :=
  option_map snd
    (find (fun r => Nat.eqb (fst (fst r)) key &&
                    (if ctx_strict (vr c) then Nat.eqb (snd (fst r)) ctx
                     else (Nat.eqb ctx 0 || Nat.eqb (snd (fst r)) ctx)))
          (recorded s)).

(** some twin of the call has been recorded under a (non-empty) context *)
Definition ctx_twin_recorded (s : state) (key : nat) : bool :=
  existsb (fun r => Nat.eqb (fst (fst r)) key && negb (Nat.eqb (snd (fst r)) 0)) (recorded s).

(** the same-execution look-up as the code performs it *)
Definition cse_eff (c : config) (s : state) (key ctx : nat) : option outcome :=
  if negb (ctx_exact (vr c)) && Nat.eqb ctx 0 && ctx_twin_recorded s key then None
  else cse_lookup c s key ctx.

(** * _exec_job_main_thread *)
Definition skip_wakeup (c : config) (s : state) : state :=
  if recheck_on_skip (vr c) then check_pending_limits c s else s.

Definition mark_submitted (x : job) : job :=
  {| jkey := jkey x; jctx := jctx x; jlimits := jlimits x; jnocse := jnocse x; jprov := jprov x;
     jbadexec := jbadexec x; jphase := PSubmitted; jcached := jcached x; jholds := jholds x;
     jsubmits := S (jsubmits x); jreleases := jreleases x; jpreset := jpreset x |}.
Definition mark_holds (x : job) (p : phase) : job :=
  {| jkey := jkey x; jctx := jctx x; jlimits := jlimits x; jnocse := jnocse x; jprov := jprov x;
     jbadexec := jbadexec x; jphase := p; jcached := jcached x; jholds := true;
     jsubmits := jsubmits x; jreleases := jreleases x; jpreset := jpreset x |}.

Definition exec_job (c : config) (s : state) (j : nat) (co : cache_outcome) : state :=
  match getj s j with
  | None => s
  | Some x =>
      let k := (jkey x, jctx x) in
      let twin := if jnocse x then None else lookup_pending s k in
      match twin with
      | Some t =>
          (* Job.collapse; if the twin is already settled the callback runs at once — cannot
             happen: a settled job is no longer in _pending_jobs. *)
          skip_wakeup c (add_sub (setj s j (with_phase x (PCollapsed t))) t j)
      | None =>
          let hit :=
            if jnocse x then None
            else match cse_eff c s (jkey x) (jctx x) with
                 | Some (Ok v) => Some (inl (Some v))
                 | Some (Ko e) => Some (inr e)
                 | None =>
                     match co with
                     | CMiss => None
                     | CHitFinal v => Some (inl (Some v))
                     | CHitExpr => Some (inl None)
                     end
                 end in
          match hit with
          | Some (inl v) => skip_wakeup c (enqueue (setj s j (mark_cached x v PCacheQ)) (EvDone j))
          | Some (inr e) => skip_wakeup c (enqueue (setj s j (mark_cached x None PCacheQ)) (EvReject j e))
          | None =>
              if dryrun c then
                (* no rollbacks, no limits; an unknown executor is still rejected *)
                if jbadexec x then enqueue (setj s j (with_phase x PReported)) (EvReject j 0%Z)
                else setj s j (with_phase x PDryStop)
              else if negb (within c (used s) (jlimits x))
              then set_waiting (setj s j (with_phase x PWaiting)) (waiting s ++ [j])
              else
                let s1 := set_used s (consume (used s) (jlimits x)) in
                if jbadexec x
                then enqueue (setj s1 j (mark_holds x PReported)) (EvReject j 0%Z)
                else
                  let s2 := setj s1 j (mark_submitted (mark_holds x PSubmitted)) in
                  add_submit (set_pending s2
                    (if pending_owner_safe (vr c)
                     then (if jnocse x then pending s2
                           else (k, j) :: filter (fun p => negb (key_eqb (fst p) k)) (pending s2))
                     else (k, j) :: filter (fun p => negb (key_eqb (fst p) k)) (pending s2))) j
          end
      end
  end.

(** * _done_job_main_thread *)
Definition done_job (c : config) (s : state) (j : nat) : state :=
  let s1 := maybe_release c s j in
  match getj s1 j with
  | None => s1
  | Some x =>
      match jpreset x with
      | Some v => enqueue (setj s1 j (with_phase x PEvalQ)) (EvResolve j v)
      | None => setj s1 j (with_phase x PEvaluating)
      end
  end.

(** * _reject_job_main_thread / _resolve_job_main_thread *)
Definition reject_job (c : config) (s : state) (j : nat) (e : Z) : state :=
  settle c (maybe_release c s j) j (Ko e).
Definition resolve_job (c : config) (s : state) (j : nat) (v : Z) : state :=
  settle c s j (Ok v).

Fixpoint remove_nth {A} (l : list A) (n : nat) : list A :=
  match l, n with
  | [], _ => []
  | _ :: r, O => r
  | y :: r, S n => y :: remove_nth r n
  end.

Definition event_is (e : event) (k j : nat) : bool :=
  match e with
  | EvExec j' => Nat.eqb k 0 && Nat.eqb j j'
  | EvDone j' => Nat.eqb k 1 && Nat.eqb j j'
  | EvReject j' _ => Nat.eqb k 2 && Nat.eqb j j'
  | EvResolve j' _ => Nat.eqb k 3 && Nat.eqb j j'
  end.

(** index of the first matching event; [length q] (out of range) if there is none *)
Fixpoint find_event (q : list event) (k j : nat) (i : nat) : nat :=
  match q with
  | [] => i
  | e :: r => if event_is e k j then i else find_event r k j (S i)
  end.

Definition pop_queue (s : state) (i : nat) : state :=
  {| jobs := jobs s; queue := remove_nth (queue s) i; pending := pending s; waiting := waiting s;
     used := used s; recorded := recorded s; subs := subs s; submitlog := submitlog s |}.

Definition new_job (key ctx : nat) (limits : list (nat * Z)) (nocse prov badexec : bool) : job :=
  {| jkey := key; jctx := ctx; jlimits := limits; jnocse := nocse || negb prov; jprov := prov;
     jbadexec := badexec; jphase := PQueued; jcached := false; jholds := false; jsubmits := 0;
     jreleases := 0; jpreset := None |}.

Definition phase_is (s : state) (j : nat) (f : phase -> bool) : bool :=
  match getj s j with Some x => f (jphase x) | None => false end.

Definition step (c : config) (s : state) (o : op) : state :=
  match o with
  | ONew key ctx limits nocse prov badexec =>
      let j := length (jobs s) in
      enqueue {| jobs := jobs s ++ [new_job key ctx limits nocse prov badexec]; queue := queue s;
                 pending := pending s; waiting := waiting s; used := used s; recorded := recorded s;
                 subs := subs s; submitlog := submitlog s |} (EvExec j)
  | OPop k j0 co =>
      let i := find_event (queue s) k j0 0 in
      match nth_error (queue s) i with
      | None => s
      | Some (EvExec j) => exec_job c (pop_queue s i) j co
      | Some (EvDone j) => done_job c (pop_queue s i) j
      | Some (EvReject j e) => reject_job c (pop_queue s i) j e
      | Some (EvResolve j v) => resolve_job c (pop_queue s i) j v
      end
  | OComplete j ok e =>
      if phase_is s j (fun p => match p with PSubmitted => true | _ => false end) then
        match getj s j with
        | Some x => enqueue (setj s j (with_phase x PReported)) (if ok then EvDone j else EvReject j e)
        | None => s
        end
      else s
  | OEval j o =>
      if phase_is s j (fun p => match p with PEvaluating => true | _ => false end) then
        match getj s j with
        | Some x => enqueue (setj s j (with_phase x PEvalQ))
                            (match o with Ok v => EvResolve j v | Ko e => EvReject j e end)
        | None => s
        end
      else s
  end.

Definition run (c : config) (ops : list op) : state := fold_left (step c) ops init.

(** * Observables *)
Definition in_flight (x : job) : bool :=
  match jphase x with PSubmitted | PReported => negb (jcached x) | _ => false end.

(** Units of resource [r] held by jobs that were submitted (consumed) and whose completion
    has not yet been processed. *)
Definition held (s : state) (r : nat) : Z :=
  fold_right (fun x a => ((if jholds x then demand (jlimits x) r else 0) + a)%Z) 0%Z (jobs s).
