(** `Scheduler._pending_expr[parent_job]`: what makes "each distinct expression of one parent job is
    evaluated by ONE child job" independent of timing.  No proofs here.

    redun/scheduler.py `_evaluate_apply`: a demand for an expression whose hash has an entry in the
    parent's table reuses the entry's promise; otherwise a Job is created (appended to
    `parent_job.child_jobs`, so its call hash becomes one of the parent's `child_call_hashes`) and an
    entry is added.  Demands arrive over time: eagerly when the parent's result expression is first
    walked, later when a `cond` / `seq` / `catch` under the same parent evaluates a branch.  The
    lifetime of an entry is the variant: until the parent is finalized (`_finalize_job` pops the whole
    table), or only until the entry's job has concluded. *)
From Coq Require Import List Arith Bool.
Import ListNotations.

Inductive pev :=
| Demand (e : nat)      (* `_evaluate_apply(expr, parent_job)` for the task expression with hash e *)
| Conclude (e : nat).   (* the job evaluating e resolved / was rejected *)

Record pstate := { table : list nat; created : list nat }.

Definition memb (e : nat) (l : list nat) : bool := existsb (Nat.eqb e) l.

Fixpoint remove_all (e : nat) (l : list nat) : list nat :=
  match l with [] => [] | x :: r => if Nat.eqb e x then remove_all e r else x :: remove_all e r end.

(** [until_finalized = true]: entries live as long as the parent job *)
Definition pstep (until_finalized : bool) (st : pstate) (ev : pev) : pstate * option bool :=
  match ev with
  | Demand e =>
      if memb e (table st) then (st, Some false)
      else ({| table := e :: table st; created := created st ++ [e] |}, Some true)
  | Conclude e =>
      if until_finalized then (st, None)
      else ({| table := remove_all e (table st); created := created st |}, None)
  end.

(** final state and, for every demand, whether it created a job *)
Fixpoint prun (uf : bool) (st : pstate) (evs : list pev) : pstate * list bool :=
  match evs with
  | [] => (st, [])
  | ev :: r =>
      let '(st1, o) := pstep uf st ev in
      let '(st2, tr) := prun uf st1 r in
      (st2, match o with Some b => b :: tr | None => tr end)
  end.

Definition pinit : pstate := {| table := []; created := [] |}.

(** the child jobs (by expression) the parent ends up with *)
Definition child_jobs (uf : bool) (evs : list pev) : list nat := created (fst (prun uf pinit evs)).
Definition new_job_trace (uf : bool) (evs : list pev) : list bool := snd (prun uf pinit evs).

Definition demands (evs : list pev) : list nat :=
  flat_map (fun ev => match ev with Demand e => [e] | Conclude _ => [] end) evs.

Fixpoint list_bool_eqb (a b : list bool) : bool :=
  match a, b with
  | [], [] => true
  | x :: a', y :: b' => Bool.eqb x y && list_bool_eqb a' b'
  | _, _ => false
  end.
