(** Executable model of redun/task.py [TaskRegistry] (add / rename / get / task_hashes /
    _decrement_hash_count), of the [task()] decorator's registration and of
    [wraps_task]'s [create_tasks] / [recursive_rename] — no proofs here.

    Task objects live in a heap (identity = index, name / namespace / wrapped_task option are
    mutable, [hash] is the stored attribute and is never recomputed); [_tasks] and
    [_task_hash_counts] are insertion-ordered association lists like Python dicts.
    Python exceptions are outcomes, and the state reached when the exception propagates is kept. *)
From Coq Require Import List ZArith NArith String Bool Arith.
Import ListNotations.
Open Scope list_scope.

(** * Insertion-ordered dictionaries *)
Section Dict.
  Context {K V : Type} (eqb : K -> K -> bool).
  Fixpoint dget (k : K) (l : list (K * V)) : option V :=
    match l with
    | [] => None
    | (k', v) :: r => if eqb k k' then Some v else dget k r
    end.
  (* dict.pop(k, None) / dict.pop(k) on an existing key *)
  Fixpoint dpop (k : K) (l : list (K * V)) : list (K * V) :=
    match l with
    | [] => []
    | (k', v) :: r => if eqb k k' then r else (k', v) :: dpop k r
    end.
  (* d[k] = v : in place when present, appended otherwise *)
  Fixpoint dset (k : K) (v : V) (l : list (K * V)) : list (K * V) :=
    match l with
    | [] => [(k, v)]
    | (k', v') :: r => if eqb k k' then (k, v) :: r else (k', v') :: dset k v r
    end.
End Dict.

(** * What the translator extracts from [class TaskRegistry] *)
Inductive add_step := APopOld | ADecOld | AStore | AIncr.
Inductive ren_step := RAssertIn | RPop | RDec | RSetNs | RSetName | RAdd.
Record reg_cfg := {
  c_add : list add_step;        (* statements of TaskRegistry.add, in order *)
  c_rename : list ren_step;     (* statements of TaskRegistry.rename, in order *)
  c_dec_assert_gt : Z;          (* _decrement_hash_count: assert count > 0 *)
  c_dec_pop_eq : Z;             (*   if count == 1: pop *)
  c_dec_delta : Z;              (*   else: counts[h] = count - 1 *)
  c_inc_delta : Z;              (* add: counts[h] += 1 *)
  c_th_assert_ge : Z;           (* task_hashes: assert all(count >= 1 ...) *)
  c_th_keep_gt : Z              (* task_hashes: {h ... if count > 0} *)
}.

Definition shipped : reg_cfg := {|
  c_add := [APopOld; ADecOld; AStore; AIncr];
  c_rename := [RAssertIn; RPop; RDec; RSetNs; RSetName; RAdd];
  c_dec_assert_gt := 0; c_dec_pop_eq := 1; c_dec_delta := 1; c_inc_delta := 1;
  c_th_assert_ge := 1; c_th_keep_gt := 0
|}.

(** * State *)
Record tobj := mkT {
  t_ns : string; t_name : string;
  t_hash : N;                      (* Task.hash: opaque, compared with == only *)
  t_wrapped : option string        (* _task_options_base["wrapped_task"] *)
}.
Record state := mkS {
  heap : list tobj;                (* every Task object created so far *)
  tasks : list (string * nat);     (* TaskRegistry._tasks : fullname -> object *)
  counts : list (N * Z)            (* TaskRegistry._task_hash_counts *)
}.
Definition init : state := mkS [] [] [].

Inductive exn := AssertionError | KeyError | AttributeError | UnboundLocalError
               | OutOfFuel (* = RecursionError: the wrapped_task chain is cyclic *)
               | BadOp.    (* op names an object that does not exist (harness never does) *)

Definition dummy : tobj := mkT "" "" 0 None.
Definition obj (st : state) (o : nat) : tobj := nth o (heap st) dummy.

(* Task._format_fullname *)
Definition fullname_of (ns name : string) : string :=
  if (ns =? "")%string then name else (ns ++ "." ++ name)%string.
Definition fullname (st : state) (o : nat) : string :=
  fullname_of (t_ns (obj st o)) (t_name (obj st o)).
(* recursive_rename: new_namespace *)
Definition inner_ns (ns suffix : string) : string :=
  if (ns =? "")%string then suffix else (ns ++ "." ++ suffix)%string.

Fixpoint upd {A} (n : nat) (f : A -> A) (l : list A) : list A :=
  match l, n with
  | [], _ => []
  | x :: r, O => f x :: r
  | x :: r, S n' => x :: upd n' f r
  end.
Definition set_heap (st : state) (h : list tobj) := mkS h (tasks st) (counts st).
Definition set_tasks (st : state) (t : list (string * nat)) := mkS (heap st) t (counts st).
Definition set_counts (st : state) (c : list (N * Z)) := mkS (heap st) (tasks st) c.
Definition set_ns (st : state) (o : nat) (ns : string) :=
  set_heap st (upd o (fun t => mkT ns (t_name t) (t_hash t) (t_wrapped t)) (heap st)).
Definition set_name (st : state) (o : nat) (nm : string) :=
  set_heap st (upd o (fun t => mkT (t_ns t) nm (t_hash t) (t_wrapped t)) (heap st)).
Definition set_wrapped (st : state) (o : nat) (w : string) :=
  set_heap st (upd o (fun t => mkT (t_ns t) (t_name t) (t_hash t) (Some w)) (heap st)).

(** * TaskRegistry methods *)
(* _decrement_hash_count on the counts dict; None = AssertionError *)
Definition dec_count (cfg : reg_cfg) (cs : list (N * Z)) (h : N) : option (list (N * Z)) :=
  match dget N.eqb h cs with
  | None => Some cs
  | Some c =>
      if (c >? c_dec_assert_gt cfg)%Z then
        if (c =? c_dec_pop_eq cfg)%Z then Some (dpop N.eqb h cs)
        else Some (dset N.eqb h (c - c_dec_delta cfg)%Z cs)
      else None
  end.

(* defaultdict(int): counts[h] += d *)
Definition inc_count (cfg : reg_cfg) (cs : list (N * Z)) (h : N) : list (N * Z) :=
  match dget N.eqb h cs with
  | None => dset N.eqb h (0 + c_inc_delta cfg)%Z cs
  | Some c => dset N.eqb h (c + c_inc_delta cfg)%Z cs
  end.

(* TaskRegistry.add(task); [old] is the local variable old_task *)
Fixpoint run_add (cfg : reg_cfg) (steps : list add_step) (st : state) (old : option nat) (o : nat)
  : state * option exn :=
  match steps with
  | [] => (st, None)
  | APopOld :: r =>
      let k := fullname st o in
      run_add cfg r (set_tasks st (dpop String.eqb k (tasks st))) (dget String.eqb k (tasks st)) o
  | ADecOld :: r =>
      match old with
      | None => run_add cfg r st old o
      | Some t =>      (* `if old_task:` -- a Task is truthy (no __bool__/__len__; translator checks) *)
          match dec_count cfg (counts st) (t_hash (obj st t)) with
          | Some cs => run_add cfg r (set_counts st cs) old o
          | None => (st, Some AssertionError)
          end
      end
  | AStore :: r => run_add cfg r (set_tasks st (dset String.eqb (fullname st o) o (tasks st))) old o
  | AIncr :: r => run_add cfg r (set_counts st (inc_count cfg (counts st) (t_hash (obj st o)))) old o
  end.
Definition reg_add (cfg : reg_cfg) (st : state) (o : nat) := run_add cfg (c_add cfg) st None o.

(* TaskRegistry.rename(old_name, new_namespace, new_name); [loc] is the local variable task *)
Fixpoint run_rename (cfg : reg_cfg) (steps : list ren_step) (st : state) (loc : option nat)
         (old ns nm : string) : state * (nat + exn) :=
  match steps with
  | [] => match loc with Some t => (st, inl t) | None => (st, inr UnboundLocalError) end
  | RAssertIn :: r =>
      match dget String.eqb old (tasks st) with
      | Some _ => run_rename cfg r st loc old ns nm
      | None => (st, inr AssertionError)
      end
  | RPop :: r =>
      match dget String.eqb old (tasks st) with
      | Some t => run_rename cfg r (set_tasks st (dpop String.eqb old (tasks st))) (Some t) old ns nm
      | None => (st, inr KeyError)
      end
  | s :: r =>
      match loc with
      | None => (st, inr UnboundLocalError)
      | Some t =>
          match s with
          | RDec =>
              match dec_count cfg (counts st) (t_hash (obj st t)) with
              | Some cs => run_rename cfg r (set_counts st cs) loc old ns nm
              | None => (st, inr AssertionError)
              end
          | RSetNs => run_rename cfg r (set_ns st t ns) loc old ns nm
          | RSetName => run_rename cfg r (set_name st t nm) loc old ns nm
          | _ (* RAdd *) =>
              match reg_add cfg st t with
              | (st', None) => run_rename cfg r st' loc old ns nm
              | (st', Some e) => (st', inr e)
              end
          end
      end
  end.
Definition reg_rename (cfg : reg_cfg) (st : state) (old ns nm : string) :=
  run_rename cfg (c_rename cfg) st None old ns nm.

(* TaskRegistry.get(task_name=k) for a non-empty k; __iter__ *)
Definition reg_get (st : state) (k : string) : option nat := dget String.eqb k (tasks st).
Definition reg_iter (st : state) : list nat := map snd (tasks st).

(* TaskRegistry.task_hashes (a set; here in dict order); None = AssertionError *)
Definition task_hashes (cfg : reg_cfg) (st : state) : option (list N) :=
  if forallb (fun hc => (snd hc >=? c_th_assert_ge cfg)%Z) (counts st)
  then Some (map fst (filter (fun hc => (snd hc >? c_th_keep_gt cfg)%Z) (counts st)))
  else None.

(** * wraps_task: recursive_rename and create_tasks (hand-modelled, pinned by shape) *)
Fixpoint rec_rename (cfg : reg_cfg) (fuel : nat) (st : state) (o : nat) (suffix : string)
  : state * (string + exn) :=
  match fuel with
  | O => (st, inr OutOfFuel)
  | S f =>
      let inner :=
        match t_wrapped (obj st o) with
        | None => (st, None)
        | Some wn =>
            match reg_get st wn with
            | None => (st, Some AttributeError)   (* recursive_rename(None, ...) *)
            | Some o' =>
                match rec_rename cfg f st o' suffix with
                | (st', inl newname) => (set_wrapped st' o newname, None)
                | (st', inr e) => (st', Some e)
                end
            end
        end in
      match inner with
      | (st1, Some e) => (st1, inr e)
      | (st1, None) =>
          let t := obj st1 o in
          match reg_rename cfg st1 (fullname st1 o) (inner_ns (t_ns t) suffix) (t_name t) with
          | (st2, inl o2) => (st2, inl (fullname st2 o2))
          | (st2, inr e) => (st2, inr e)
          end
      end
  end.

(** * Histories *)
Inductive op :=
| Define (ns name : string) (h : N)     (* task(name=, namespace=)(func): new Task, registry.add *)
| Wrap (o : nat) (w : string) (h : N)   (* wraps_task(wrapper_name=w)(wf)(task object o); h = hash of the new wrapper *)
| Rename (old ns name : string)         (* registry.rename(old, ns, name) called directly *)
| ReAdd (o : nat).                        (* registry.add(task object o) called directly *)

Inductive outcome := Done (ret : nat) | Raised (e : exn).

Definition alloc (st : state) (t : tobj) : state * nat :=
  (set_heap st (heap st ++ [t])%list, List.length (heap st)).

Definition step (cfg : reg_cfg) (st : state) (x : op) : state * outcome :=
  match x with
  | Define ns nm h =>
      let (st1, o) := alloc st (mkT ns nm h None) in
      match reg_add cfg st1 o with
      | (st2, None) => (st2, Done o)
      | (st2, Some e) => (st2, Raised e)
      end
  | Wrap o w h =>
      if (o <? List.length (heap st))%nat then
        let vis_name := t_name (obj st o) in
        let vis_ns := t_ns (obj st o) in
        (* the descent of recursive_rename does not change the registry; a chain longer than
           the registry revisits a task, i.e. Python recurses forever (RecursionError) *)
        match rec_rename cfg (S (List.length (tasks st))) st o w with
        | (st1, inr e) => (st1, Raised e)
        | (st1, inl _) =>
            let (st2, o') := alloc st1 (mkT vis_ns vis_name h (Some (fullname st1 o))) in
            match reg_add cfg st2 o' with
            | (st3, None) => (st3, Done o')
            | (st3, Some e) => (st3, Raised e)
            end
        end
      else (st, Raised BadOp)
  | Rename old ns nm =>
      match reg_rename cfg st old ns nm with
      | (st1, inl t) => (st1, Done t)
      | (st1, inr e) => (st1, Raised e)
      end
  | ReAdd o =>
      if (o <? List.length (heap st))%nat then
        match reg_add cfg st o with
        | (st1, None) => (st1, Done o)
        | (st1, Some e) => (st1, Raised e)
        end
      else (st, Raised BadOp)
  end.

(* A history: every op is applied to the state the previous one left (also after an exception,
   as a Python session that catches it would). *)
Fixpoint run (cfg : reg_cfg) (st : state) (ops : list op) : state :=
  match ops with
  | [] => st
  | x :: r => run cfg (fst (step cfg st x)) r
  end.

Fixpoint trace (cfg : reg_cfg) (st : state) (ops : list op) : list (state * outcome) :=
  match ops with
  | [] => []
  | x :: r => let so := step cfg st x in so :: trace cfg (fst so) r
  end.

(** * Observation used by the correspondence run: everything visible of a state *)
Definition obs_task (st : state) (ko : string * nat) :=
  (fst ko, snd ko, t_ns (obj st (snd ko)), t_name (obj st (snd ko)), t_hash (obj st (snd ko)),
   t_wrapped (obj st (snd ko))).

(** * Comparison helpers for the correspondence run (booleans, no proofs) *)
Definition opt_eqb {A} (eq : A -> A -> bool) (a b : option A) : bool :=
  match a, b with Some x, Some y => eq x y | None, None => true | _, _ => false end.
Fixpoint list_eqb {A} (eq : A -> A -> bool) (a b : list A) : bool :=
  match a, b with
  | [], [] => true
  | x :: a', y :: b' => eq x y && list_eqb eq a' b'
  | _, _ => false
  end.
Definition tobj_eqb (a b : tobj) : bool :=
  String.eqb (t_ns a) (t_ns b) && String.eqb (t_name a) (t_name b) && N.eqb (t_hash a) (t_hash b)
  && opt_eqb String.eqb (t_wrapped a) (t_wrapped b).
Definition state_eqb (a b : state) : bool :=
  list_eqb tobj_eqb (heap a) (heap b)
  && list_eqb (fun x y => String.eqb (fst x) (fst y) && Nat.eqb (snd x) (snd y)) (tasks a) (tasks b)
  && list_eqb (fun x y => N.eqb (fst x) (fst y) && Z.eqb (snd x) (snd y)) (counts a) (counts b).
Definition exn_eqb (a b : exn) : bool :=
  match a, b with
  | AssertionError, AssertionError | KeyError, KeyError | AttributeError, AttributeError
  | UnboundLocalError, UnboundLocalError | OutOfFuel, OutOfFuel | BadOp, BadOp => true
  | _, _ => false
  end.
Definition outcome_eqb (a b : outcome) : bool :=
  match a, b with
  | Done x, Done y => Nat.eqb x y
  | Raised x, Raised y => exn_eqb x y
  | _, _ => false
  end.
Definition set_eqb (a b : list N) : bool :=
  forallb (fun x => existsb (N.eqb x) b) a && forallb (fun x => existsb (N.eqb x) a) b.

(* what the harness records after every op on the real registry *)
Record observed := mkO {
  o_state : state;                         (* all Task objects, _tasks, _task_hash_counts, in order *)
  o_outcome : outcome;
  o_hashes : option (list N);              (* registry.task_hashes, None = AssertionError *)
  o_iter : list nat;                       (* list(registry) *)
  o_gets : list (string * option nat)      (* registry.get(task_name=k) for probed k *)
}.
Definition observed_ok (cfg : reg_cfg) (so : state * outcome) (e : observed) : bool :=
  state_eqb (fst so) (o_state e) && outcome_eqb (snd so) (o_outcome e)
  && opt_eqb set_eqb (task_hashes cfg (fst so)) (o_hashes e)
  && list_eqb Nat.eqb (reg_iter (fst so)) (o_iter e)
  && forallb (fun kg => opt_eqb Nat.eqb (reg_get (fst so) (fst kg)) (snd kg)) (o_gets e).
Fixpoint trace_ok (cfg : reg_cfg) (tr : list (state * outcome)) (es : list observed) : bool :=
  match tr, es with
  | [], [] => true
  | so :: tr', e :: es' => observed_ok cfg so e && trace_ok cfg tr' es'
  | _, _ => false
  end.
Definition history_ok (cfg : reg_cfg) (ops : list op) (es : list observed) : bool :=
  trace_ok cfg (trace cfg init ops) es.
