(** C36 — executable model of redun's schema migrations (alembic revision chain,
    redun/backends/db/alembic/versions/*.py) and of RedunBackendDb.migrate.
    No proofs in this file.

    A database is a list of named tables; a table is a column list plus rows; a row is an
    association list column -> value (insertion order = rowid order).  Every migration is a list
    of guarded operations.  Schema operations are the alembic calls; the three data migrations
    (companion Task values, stub executions + execution_id back-fill, job times to UTC) are
    hand-modelled operations whose source is pinned by the translator.

    Not modelled: PRIMARY KEY / UNIQUE / FOREIGN KEY enforcement (every database that exists
    satisfies the constraints of its own schema, and no operation below can break them except
    by a uuid4 collision); PostgreSQL triggers. *)
From Coq Require Import List String ZArith Bool Ascii.
Import ListNotations.
Open Scope string_scope.
Open Scope list_scope.

(* ------------------------------------------------------------------ values *)
Inductive val :=
| VNull
| VInt (z : Z)                      (* INTEGER and BOOLEAN (0/1) *)
| VText (s : string)
| VBlob (s : string)
| VTime (secs us : Z)               (* naive 'YYYY-MM-DD HH:MM:SS.ffffff': seconds of the naive reading since 1970, microseconds *)
| VTaskPickle (name ns : string) (script : bool)   (* pickle_dumps(Task(func=<dummy>, name, namespace, script=..)) *)
| VFresh (what : string) (k : val). (* str(uuid.uuid4()) drawn on behalf of [k] *)

Fixpoint val_eqb (a b : val) : bool :=
  match a, b with
  | VNull, VNull => true
  | VInt x, VInt y => Z.eqb x y
  | VText x, VText y => String.eqb x y
  | VBlob x, VBlob y => String.eqb x y
  | VTime s u, VTime s' u' => Z.eqb s s' && Z.eqb u u'
  | VTaskPickle n m s, VTaskPickle n' m' s' => String.eqb n n' && String.eqb m m' && Bool.eqb s s'
  | VFresh w k, VFresh w' k' => String.eqb w w' && val_eqb k k'
  | _, _ => false
  end.

Definition is_null (v : val) : bool := match v with VNull => true | _ => false end.

(* ------------------------------------------------------------------ rows, tables, databases *)
Definition row := list (string * val).

Fixpoint rget (r : row) (c : string) : option val :=
  match r with
  | [] => None
  | (k, v) :: r' => if String.eqb k c then Some v else rget r' c
  end.

(** SQL UPDATE of one column: replaces the binding if the column exists. *)
Fixpoint rset (r : row) (c : string) (v : val) : row :=
  match r with
  | [] => []
  | (k, w) :: r' => if String.eqb k c then (k, v) :: r' else (k, w) :: rset r' c v
  end.

(** SQL comparison [a = b] used in joins: NULL never matches. *)
Definition sql_eq (a b : option val) : bool :=
  match a, b with
  | Some x, Some y => negb (is_null x) && val_eqb x y
  | _, _ => false
  end.

Record column := { c_name : string; c_type : string; c_null : bool }.
Record table := { t_cols : list column; t_rows : list row }.
Record index := { i_name : string; i_table : string; i_cols : list string; i_unique : bool }.
Record db := { d_tables : list (string * table); d_indexes : list index; d_rev : string }.

Fixpoint lookup {A} (k : string) (l : list (string * A)) : option A :=
  match l with
  | [] => None
  | (k', a) :: l' => if String.eqb k' k then Some a else lookup k l'
  end.

Fixpoint update {A} (k : string) (a : A) (l : list (string * A)) : list (string * A) :=
  match l with
  | [] => []
  | (k', b) :: l' => if String.eqb k' k then (k', a) :: l' else (k', b) :: update k a l'
  end.

Definition set_table (t : string) (T : table) (d : db) : db :=
  {| d_tables := update t T (d_tables d); d_indexes := d_indexes d; d_rev := d_rev d |}.

Definition rows_of (t : string) (d : db) : list row :=
  match lookup t (d_tables d) with Some T => t_rows T | None => [] end.

Definition empty_db : db := {| d_tables := []; d_indexes := []; d_rev := "" |}.

(* ------------------------------------------------------------------ results *)
Inductive error :=
| ETableExists (t : string)
| ENoTable (t : string)
| EDupColumn (t c : string)
| ENoColumn (t c : string)
| ENotNull (t c : string)          (* sqlite3.IntegrityError: NOT NULL constraint failed *)
| EBadTaskName (name ns : val)     (* ValueError from Task._validate in the companion-value back-fill *)
| EUnknownRev (r : string)
| EUnique (t c : string)           (* sqlite3.IntegrityError: UNIQUE constraint failed (only where the model inserts rows itself) *)
| EGuard.                          (* an operation was run under a dialect its guard excludes *)

Inductive result (A : Type) := Ok (a : A) | Err (e : error).
Arguments Ok {A} a.
Arguments Err {A} e.

Definition on_table (t : string) (d : db) (f : table -> result table) : result db :=
  match lookup t (d_tables d) with
  | None => Err (ENoTable t)
  | Some T => match f T with Ok T' => Ok (set_table t T' d) | Err e => Err e end
  end.

(* ------------------------------------------------------------------ environment *)
Inductive dialect := Sqlite | Postgres.

(** [e_tz s]: the C library's conversion of a naive local time (seconds) to UTC seconds, as used by
    SQLite's ['utc'] modifier; whole seconds only.  [e_now]: utcnow() at the end of migrate. *)
Record env := { e_dialect : dialect; e_tz : Z -> Z; e_now : val }.

(* ------------------------------------------------------------------ operations *)
Inductive utc_variant := Truncating | KeepFraction.
(** Variant sites of the companion-value back-fill (30ffbaee18cd): which tasks count as lonely,
    and how the new Value objects are written. As shipped: [AnyValue], [AddRow]. *)
Inductive lonely_test := AnyValue | TypedValue.
Inductive write_mode := AddRow | MergeRow.

Inductive op :=
| CreateTable (t : string) (cs : list column)
| AddColumn (t : string) (c : column)
| CreateIndex (i : index)
| CreateFK (name t rt : string)
| AlterNullable (t c : string) (nullable : bool)
| AlterType (t c ty : string)
| SqlNoData (what : string)          (* DDL without effect on rows or on the modelled schema *)
| BackfillTaskValues (lt : lonely_test) (wm : write_mode) (scripts : list string)
| StubExecutions
| BackfillExecutionId
| JobTimesToUtc (v : utc_variant)
| PgTimestamptz (t c : string).

Inductive guard := Always | IfPg | IfSqlite | IfNotSqlite.

Definition guard_holds (g : guard) (dl : dialect) : bool :=
  match g, dl with
  | Always, _ => true
  | IfPg, Postgres => true
  | IfSqlite, Sqlite => true
  | IfNotSqlite, Postgres => true
  | _, _ => false
  end.

Record migration := { m_rev : string; m_down : string; m_ops : list (guard * op) }.

(* --- helpers for the schema operations *)
Definition has_col (c : string) (cs : list column) : bool := existsb (fun x => String.eqb (c_name x) c) cs.

Definition set_col (c : string) (f : column -> column) (cs : list column) : list column :=
  map (fun x => if String.eqb (c_name x) c then f x else x) cs.

Definition null_in (c : string) (r : row) : bool :=
  match rget r c with Some v => is_null v | None => true end.

(* --- Task._validate (task.py): ^[A-Za-z_][A-Za-z_0-9]*$ and, for a non-empty namespace,
       ^[A-Za-z_][A-Za-z_0-9.]*$  (a trailing newline, which Python's [$] tolerates, is not modelled) *)
Definition is_alpha_ (a : ascii) : bool :=
  let n := nat_of_ascii a in
  ((65 <=? n) && (n <=? 90) || (97 <=? n) && (n <=? 122) || (n =? 95))%nat.
Definition is_digit (a : ascii) : bool :=
  let n := nat_of_ascii a in ((48 <=? n) && (n <=? 57))%nat.
Fixpoint all_chars (p : ascii -> bool) (s : string) : bool :=
  match s with EmptyString => true | String a r => p a && all_chars p r end.
Definition name_valid (s : string) : bool :=
  match s with
  | EmptyString => false      (* name or func.__name__ = "<lambda>" *)
  | String a r => is_alpha_ a && all_chars (fun c => is_alpha_ c || is_digit c) r
  end.
Definition ns_valid (s : string) : bool :=
  match s with
  | EmptyString => true
  | String a r => is_alpha_ a && all_chars (fun c => is_alpha_ c || is_digit c || (nat_of_ascii c =? 46)%nat) r
  end.
Definition fullname (ns name : string) : string :=
  match ns with EmptyString => name | _ => (ns ++ "." ++ name)%string end.

(* --- 30ffbaee18cd: a Value row for every Task row without one *)
(** get_lonely_tasks: [AnyValue] = filter_by(value=None), no value row with the task's hash at all;
    [TypedValue] = anti-join against the value rows of type "redun.Task" only. *)
Definition lonely_by (lt : lonely_test) (values : list row) (tr : row) : bool :=
  negb (existsb (fun vr => sql_eq (rget vr "value_hash") (rget tr "hash") &&
                           match lt with
                           | AnyValue => true
                           | TypedValue => sql_eq (rget vr "type") (Some (VText "redun.Task"))
                           end) values).
Definition lonely : list row -> row -> bool := lonely_by AnyValue.

Definition same_value_hash (a b : row) : bool := sql_eq (rget a "value_hash") (rget b "value_hash").
Definition getv (r : row) (c : string) : val := match rget r c with Some v => v | None => VNull end.

(** session.merge of a Value whose primary key exists: the row keeps its place, the mapped
    non-key columns are overwritten. *)
Definition overwrite (new : list row) (r : row) : row :=
  match find (fun nr => same_value_hash nr r) new with
  | Some nr => rset (rset (rset r "type" (getv nr "type")) "format" (getv nr "format")) "value" (getv nr "value")
  | None => r
  end.

(** session.add + commit ([AddRow]: a second row with an existing primary key is an IntegrityError)
    or session.merge + commit ([MergeRow]). *)
Definition write_rows (wm : write_mode) (rows new : list row) : result (list row) :=
  match wm with
  | AddRow =>
      if existsb (fun nr => existsb (same_value_hash nr) rows) new then Err (EUnique "value" "value_hash")
      else Ok (rows ++ new)
  | MergeRow =>
      Ok (map (overwrite new) rows ++ filter (fun nr => negb (existsb (same_value_hash nr) rows)) new)
  end.

Fixpoint companion_rows (scripts : list string) (tasks : list row) : result (list row) :=
  match tasks with
  | [] => Ok []
  | tr :: rest =>
      match rget tr "name", rget tr "namespace", rget tr "hash" with
      | Some (VText n), Some (VText ns), Some h =>
          if name_valid n && ns_valid ns then
            match companion_rows scripts rest with
            | Ok rs => Ok ([("value_hash", h); ("type", VText "redun.Task");
                            ("format", VText "application/python-pickle");
                            ("value", VTaskPickle n ns (existsb (String.eqb (fullname ns n)) scripts))] :: rs)
            | Err e => Err e
            end
          else Err (EBadTaskName (VText n) (VText ns))
      | Some n, Some ns, _ => Err (EBadTaskName n ns)
      | _, _, _ => Err (EBadTaskName VNull VNull)     (* row without name / namespace: not a task row *)
      end
  end.

(* --- cd2d53191748, first half: stub executions for root jobs without an execution *)
Definition needs_stub (execs : list row) (j : row) : bool :=
  match rget j "parent_id" with
  | Some VNull => negb (existsb (fun e => sql_eq (rget e "job_id") (rget j "id")) execs)
  | _ => false
  end.

Definition stub_row (j : row) : row :=
  let jid := match rget j "id" with Some v => v | None => VNull end in
  [("id", VFresh "stub" jid); ("args", VText """Stub Execution"""); ("job_id", jid)].

(* --- cd2d53191748, second half: the recursive CTE [ancestors] (job_id, exec_id), UNION semantics *)
Definition pair_in (p : val * val) (ps : list (val * val)) : bool :=
  existsb (fun q => val_eqb (fst p) (fst q) && val_eqb (snd p) (snd q)) ps.

Fixpoint add_new (new ps : list (val * val)) : list (val * val) :=
  match new with
  | [] => ps
  | p :: r => if pair_in p ps then add_new r ps else add_new r (ps ++ [p])
  end.

Definition oval (o : option val) : val := match o with Some v => v | None => VNull end.

Definition anc_base (jobs execs : list row) : list (val * val) :=
  flat_map (fun j => map (fun e => (oval (rget j "id"), oval (rget e "id")))
                         (filter (fun e => sql_eq (rget e "job_id") (rget j "id")) execs)) jobs.

Definition anc_step (jobs : list row) (ps : list (val * val)) : list (val * val) :=
  add_new (flat_map (fun j2 => map (fun a => (oval (rget j2 "id"), snd a))
                                   (filter (fun a => sql_eq (Some (fst a)) (rget j2 "parent_id")) ps)) jobs) ps.

Fixpoint iter {A} (n : nat) (f : A -> A) (a : A) : A :=
  match n with O => a | S k => iter k f (f a) end.

(** A derivation of (job, exec) never needs to repeat a job, so [length jobs] rounds reach the fixpoint. *)
Definition ancestors (jobs execs : list row) : list (val * val) :=
  iter (List.length jobs) (anc_step jobs) (add_new (anc_base jobs execs) []).

(** [select a.exec_id from tmp_ancestors a where a.job_id = job.id]: first match, NULL if none
    (with several matches SQLite's choice is unspecified; the model takes the first derived). *)
Definition exec_for (ps : list (val * val)) (j : row) : val :=
  match find (fun p => sql_eq (Some (fst p)) (rget j "id")) ps with
  | Some p => snd p
  | None => VNull
  end.

(* --- 3b0a6e67cc58 (SQLite): datetime(x, 'utc') *)
Definition utc_conv (v : utc_variant) (tz : Z -> Z) (x : val) : val :=
  match x with
  | VTime s us =>
      match v with
      | Truncating => VTime (tz (if (999500 <=? us)%Z then (s + 1)%Z else s)) 0
      | KeepFraction => VTime (tz s) us
      end
  | _ => VNull          (* datetime(NULL) and datetime(<unparsable>) are NULL *)
  end.

Definition job_time_col (c : string) : bool := String.eqb c "start_time" || String.eqb c "end_time".

Definition utc_row (v : utc_variant) (tz : Z -> Z) (r : row) : row :=
  let r1 := match rget r "start_time" with Some x => rset r "start_time" (utc_conv v tz x) | None => r end in
  match rget r1 "end_time" with Some x => rset r1 "end_time" (utc_conv v tz x) | None => r1 end.

(* ------------------------------------------------------------------ semantics of one operation *)
Definition apply_op (e : env) (o : op) (d : db) : result db :=
  match o with
  | CreateTable t cs =>
      match lookup t (d_tables d) with
      | Some _ => Err (ETableExists t)
      | None => Ok {| d_tables := d_tables d ++ [(t, {| t_cols := cs; t_rows := [] |})];
                      d_indexes := d_indexes d; d_rev := d_rev d |}
      end
  | AddColumn t c =>
      on_table t d (fun T =>
        if has_col (c_name c) (t_cols T) then Err (EDupColumn t (c_name c))
        else if negb (c_null c) && negb (match t_rows T with [] => true | _ => false end)
             then Err (ENotNull t (c_name c))
        else Ok {| t_cols := t_cols T ++ [c]; t_rows := map (fun r => r ++ [(c_name c, VNull)]) (t_rows T) |})
  | CreateIndex i =>
      match lookup (i_table i) (d_tables d) with
      | None => Err (ENoTable (i_table i))
      | Some _ => Ok {| d_tables := d_tables d; d_indexes := d_indexes d ++ [i]; d_rev := d_rev d |}
      end
  | CreateFK _ t rt =>
      match lookup t (d_tables d), lookup rt (d_tables d) with
      | Some _, Some _ => Ok d
      | None, _ => Err (ENoTable t)
      | _, None => Err (ENoTable rt)
      end
  | AlterNullable t c nullable =>
      on_table t d (fun T =>
        if negb (has_col c (t_cols T)) then Err (ENoColumn t c)
        else if negb nullable && existsb (null_in c) (t_rows T) then Err (ENotNull t c)
        else Ok {| t_cols := set_col c (fun x => {| c_name := c_name x; c_type := c_type x; c_null := nullable |}) (t_cols T);
                   t_rows := t_rows T |})
  | AlterType t c ty =>
      on_table t d (fun T =>
        if negb (has_col c (t_cols T)) then Err (ENoColumn t c)
        else Ok {| t_cols := set_col c (fun x => {| c_name := c_name x; c_type := ty; c_null := c_null x |}) (t_cols T);
                   t_rows := t_rows T |})
  | PgTimestamptz t c =>
      (* ALTER COLUMN TYPE timestamptz: the stored naive reading now denotes an instant of the
         session time zone; the reading itself is unchanged *)
      on_table t d (fun T =>
        if negb (has_col c (t_cols T)) then Err (ENoColumn t c)
        else Ok {| t_cols := set_col c (fun x => {| c_name := c_name x; c_type := "TIMESTAMPTZ"; c_null := c_null x |}) (t_cols T);
                   t_rows := t_rows T |})
  | SqlNoData _ => Ok d
  | BackfillTaskValues lt wm scripts =>
      match lookup "task" (d_tables d) with
      | None => Err (ENoTable "task")
      | Some TT =>
          on_table "value" d (fun T =>
            match companion_rows scripts (filter (lonely_by lt (t_rows T)) (t_rows TT)) with
            | Ok rs => match write_rows wm (t_rows T) rs with
                       | Ok rows => Ok {| t_cols := t_cols T; t_rows := rows |}
                       | Err x => Err x
                       end
            | Err x => Err x
            end)
      end
  | StubExecutions =>
      match lookup "job" (d_tables d) with
      | None => Err (ENoTable "job")
      | Some J =>
          on_table "execution" d (fun T =>
            Ok {| t_cols := t_cols T;
                  t_rows := t_rows T ++ map stub_row (filter (needs_stub (t_rows T)) (t_rows J)) |})
      end
  | BackfillExecutionId =>
      let execs := rows_of "execution" d in
      on_table "job" d (fun T =>
        if negb (has_col "execution_id" (t_cols T)) then Err (ENoColumn "job" "execution_id")
        else
          let ps := ancestors (t_rows T) execs in
          Ok {| t_cols := t_cols T; t_rows := map (fun r => rset r "execution_id" (exec_for ps r)) (t_rows T) |})
  | JobTimesToUtc v =>
      on_table "job" d (fun T =>
        let rs := map (utc_row v (e_tz e)) (t_rows T) in
        if existsb (null_in "start_time") rs then Err (ENotNull "job" "start_time")
        else Ok {| t_cols := t_cols T; t_rows := rs |})
  end.

Fixpoint run_ops (e : env) (ops : list op) (d : db) : result db :=
  match ops with
  | [] => Ok d
  | o :: rest => match apply_op e o d with Ok d' => run_ops e rest d' | Err x => Err x end
  end.

Definition ops_for (dl : dialect) (m : migration) : list op :=
  map snd (filter (fun go => guard_holds (fst go) dl) (m_ops m)).

Definition chain_ops (dl : dialect) (ms : list migration) : list op := flat_map (ops_for dl) ms.

(* ------------------------------------------------------------------ RedunBackendDb.migrate (upgrade to latest) *)
(** The migrations strictly after revision [rev] ([""] = no schema yet). *)
Fixpoint steps_after (rev : string) (ms : list migration) : option (list migration) :=
  if String.eqb rev "" then Some ms else
  match ms with
  | [] => None
  | m :: rest => if String.eqb (m_rev m) rev then Some rest else steps_after rev rest
  end.

Definition last_rev (ms : list migration) (dflt : string) : string :=
  match rev ms with m :: _ => m_rev m | [] => dflt end.

Definition set_rev (r : string) (d : db) : db :=
  {| d_tables := d_tables d; d_indexes := d_indexes d; d_rev := r |}.

(** REDUN_DB_VERSIONS: (migration id, major, minor). *)
Definition versions := list (string * (Z * Z)).

Definition version_row (e : env) (rev : string) (major : Z) : row :=
  [("id", VFresh "version" (VText rev)); ("version", VInt major); ("timestamp", e_now e)].

Definition upgrade (e : env) (ms : list migration) (vs : versions) (d : db) : result db :=
  match steps_after (d_rev d) ms with
  | None => Err (EUnknownRev (d_rev d))
  | Some [] => Ok d                              (* already at the desired version: nothing recorded *)
  | Some todo =>
      match run_ops e (chain_ops (e_dialect e) todo) d with
      | Err x => Err x
      | Ok d1 =>
          let r := last_rev todo (d_rev d) in
          match lookup r vs with
          | None => Err (EUnknownRev r)
          | Some (major, _) =>
              on_table "redun_version" (set_rev r d1) (fun T =>
                Ok {| t_cols := t_cols T; t_rows := t_rows T ++ [version_row e r major] |})
          end
      end
  end.

(** Schema only (what the library's ORM classes are compared with). *)
Definition schema_of (d : db) : list (string * list column) :=
  map (fun kt => (fst kt, t_cols (snd kt))) (d_tables d).

(** The database produced by running the first [n] migrations on nothing (no rows). *)
Definition built (e : env) (ms : list migration) (n : nat) : result db :=
  match run_ops e (chain_ops (e_dialect e) (firstn n ms)) empty_db with
  | Ok d => Ok (set_rev (last_rev (firstn n ms) "") d)
  | Err x => Err x
  end.

(** is_db_compatible on the revision: min <= version <= max, compared as (major, minor). *)
Definition vle (a b : Z * Z) : bool :=
  (fst a <? fst b)%Z || ((fst a =? fst b)%Z && (snd a <=? snd b)%Z).
Definition compatible (vs : versions) (vmin vmax : Z * Z) (d : db) : bool :=
  match lookup (d_rev d) vs with
  | Some v => vle vmin v && vle v vmax
  | None => false
  end.

(* ------------------------------------------------------------------ comparison with the implementation
   (used only by the generated correspondence cases and by Gen/C36Gen.v) *)
Fixpoint list_eqb {A} (eq : A -> A -> bool) (a b : list A) : bool :=
  match a, b with
  | [], [] => true
  | x :: a', y :: b' => eq x y && list_eqb eq a' b'
  | _, _ => false
  end.

Definition col_eqb (a b : column) : bool :=
  String.eqb (c_name a) (c_name b) && String.eqb (c_type a) (c_type b) && Bool.eqb (c_null a) (c_null b).
Definition binding_eqb (a b : string * val) : bool := String.eqb (fst a) (fst b) && val_eqb (snd a) (snd b).
Definition row_eqb : row -> row -> bool := list_eqb binding_eqb.
Definition count_row (r : row) (l : list row) : nat := List.length (filter (row_eqb r) l).
(** Same rows as multisets (SQL tables are unordered). *)
Definition rows_perm (a b : list row) : bool :=
  Nat.eqb (List.length a) (List.length b) && forallb (fun r => Nat.eqb (count_row r a) (count_row r b)) a.
Definition table_agrees (T want : table) : bool :=
  list_eqb col_eqb (t_cols T) (t_cols want) && rows_perm (t_rows T) (t_rows want).
Definition index_eqb (a b : index) : bool :=
  String.eqb (i_name a) (i_name b) && String.eqb (i_table a) (i_table b) &&
  list_eqb String.eqb (i_cols a) (i_cols b) && Bool.eqb (i_unique a) (i_unique b).
Definition indexes_agree (a b : list index) : bool :=
  Nat.eqb (List.length a) (List.length b) && forallb (fun i => existsb (index_eqb i) b) a.

Definition db_agrees (res : result db) (want : db) : bool :=
  match res with
  | Ok d =>
      String.eqb (d_rev d) (d_rev want) &&
      Nat.eqb (List.length (d_tables d)) (List.length (d_tables want)) &&
      forallb (fun kt => match lookup (fst kt) (d_tables d) with
                         | Some T => table_agrees T (snd kt)
                         | None => false
                         end) (d_tables want) &&
      indexes_agree (d_indexes d) (d_indexes want)
  | Err _ => false
  end.

Inductive expect_err := XNotNull (c : string) | XBadTask | XUnique (c : string).
Definition err_agrees (res : result db) (x : expect_err) : bool :=
  match res, x with
  | Err (ENotNull _ c), XNotNull c' => String.eqb c c'
  | Err (EBadTaskName _ _), XBadTask => true
  | Err (EUnique _ c), XUnique c' => String.eqb c c'
  | _, _ => false
  end.

(** The library's ORM classes (table -> (column, nullable)), order-insensitive. *)
Definition cols_match (cs : list column) (want : list (string * bool)) : bool :=
  Nat.eqb (List.length cs) (List.length want) &&
  forallb (fun w => existsb (fun c => String.eqb (c_name c) (fst w) && Bool.eqb (c_null c) (snd w)) cs) want.
Definition schema_matches (s : list (string * list column)) (want : list (string * list (string * bool))) : bool :=
  Nat.eqb (List.length s) (List.length want) &&
  forallb (fun w => match lookup (fst w) s with Some cs => cols_match cs (snd w) | None => false end) want.
