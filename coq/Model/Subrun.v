(** Executable model for C38 (sub-scheduler runs).  No proofs here.

    Part 1  the cache decision procedure: RedunBackendDb.check_cache as a small statement
            program over abstract backend lookups (extracted statement by statement by
            translate/tr_subrun.py), Scheduler._get_cache around it (option defaults, script /
            async special cases, the final if/elif chain), and how subrun / Job.get_options
            assemble the options of the _subrun_root_task job.
    Part 2  the hand-back protocol: what Scheduler.run / Scheduler.extend_run give back for each
            final state of the workflow promise, the dict built by _subrun_root_task, and the
            [then] callback of subrun that unwraps it.
    Part 3  the Job rows written by a sub-scheduler (parent_id, execution_id), for an arbitrary
            sequence of job creations.

    The backend state is not modelled: every lookup is an *answer* (an argument), so a theorem
    "for all answers" is a theorem for all backend states. *)
From Coq Require Import List ZArith Bool.
Import ListNotations.
Open Scope list_scope.

(* ====================================================================== *)
(** * Part 1: cache decision                                               *)
(* ====================================================================== *)

Inductive cache_result := CSE | ULTIMATE | SINGLE | MISS.
Inductive cache_scope := ScNONE | ScCSE | ScBACKEND.
Inductive check_valid := CvFULL | CvSHALLOW.

Definition cr_eqb (a b : cache_result) : bool :=
  match a, b with CSE, CSE | ULTIMATE, ULTIMATE | SINGLE, SINGLE | MISS, MISS => true | _, _ => false end.
Definition sc_eqb (a b : cache_scope) : bool :=
  match a, b with ScNONE, ScNONE | ScCSE, ScCSE | ScBACKEND, ScBACKEND => true | _, _ => false end.
Definition cv_eqb (a b : check_valid) : bool :=
  match a, b with CvFULL, CvFULL | CvSHALLOW, CvSHALLOW => true | _, _ => false end.

(** a Python [set[CacheResult]] is its characteristic function *)
Definition allowed := cache_result -> bool.
Definition set_of (l : list cache_result) : allowed := fun r => existsb (cr_eqb r) l.
Definition all_results : allowed := fun _ => true.           (* set(CacheResult) *)
Definition set_minus (a : allowed) (r : cache_result) : allowed := fun x => a x && negb (cr_eqb x r).

(** a value found in a cache: an id, whether it is still valid (type_registry.is_valid_nested),
    whether its Handles are valid; or a recorded error (ErrorValue) *)
Inductive cval := CVal (id : Z) (valid : bool) (handles_ok : bool) | CErr (id : Z).
Definition cval_eqb (a b : cval) : bool :=
  match a, b with
  | CVal i v h, CVal j w k => Z.eqb i j && Bool.eqb v w && Bool.eqb h k
  | CErr i, CErr j => Z.eqb i j
  | _, _ => false
  end.

(** the answers of the backend: a call node (call_hash) found by a query and what
    get_call_cache says about it ([None]: the value is not in the store), and get_eval_cache *)
Inductive lookup := LkCSE | LkULT.
Record answers := mkAns {
  a_cse : option (Z * option cval);      (* equivalent Job of this execution *)
  a_ult : option (Z * option cval);      (* _get_call_node: newest current CallNode *)
  a_single : option cval                 (* get_eval_cache(eval_hash) *)
}.
Definition ans_node (a : answers) (l : lookup) := match l with LkCSE => a_cse a | LkULT => a_ult a end.

(** what was asked of the backend, in order *)
Inductive consult := QNode (l : lookup) | FCall (l : lookup) | FEval.

(** ** the statement language check_cache is translated into *)
Inductive cond :=
| CScope (s : cache_scope)            (* cache_scope == CacheScope.s *)
| CValid (v : check_valid)            (* check_valid == CacheCheckValid.v *)
| CAllowed (r : cache_result)         (* CacheResult.r in allowed_cache_results *)
| CCached                             (* is_cached *)
| CNotCached                          (* not is_cached *)
| CFound (l : lookup)                 (* the call node variable of the query is truthy *)
| CAnd (cs : list cond).

Inductive stmt :=
| SDefaultAllowed                     (* if allowed_cache_results is None: allowed_cache_results = set(CacheResult) *)
| SInit                               (* is_cached=False; result=None; call_hash=None; cache_type=MISS *)
| SQuery (l : lookup)                 (* call_node := the query *)
| SFetch (l : lookup)                 (* result, is_cached = self.get_call_cache(<hash of node l>) *)
| SFetchEval                          (* result, is_cached = self.get_eval_cache(eval_hash) *)
| SSetHash (l : lookup)               (* call_hash = node.call_hash *)
| SSetType (r : cache_result)         (* cache_type = CacheResult.r *)
| SRetMiss                            (* return None, None, CacheResult.MISS *)
| SRetNode (l : lookup) (r : cache_result)   (* return result, node.call_hash, CacheResult.r *)
| SRetCur                             (* return result, call_hash, cache_type *)
| SIf (c : cond) (a b : list stmt).

Record st := mkSt {
  s_allowed : option allowed;
  s_result : option cval;
  s_cached : bool;
  s_hash : option Z;
  s_type : cache_result;
  s_node : lookup -> option (Z * option cval);   (* the node variables, [None] before the query / not found *)
  s_trace : list consult                         (* reversed *)
}.

Inductive cc_result :=
| CCOut (result : option cval) (call_hash : option Z) (ct : cache_result)
| CCPyError.        (* a Python error the real function cannot raise on the shipped program: unbound
                       variable, `in None`, falling off the end (returns None, the caller's unpacking fails) *)

Inductive flow := Continue (s : st) | Return (r : cc_result) (s : st).

Definition upd_node (f : lookup -> option (Z * option cval)) (l : lookup) (v : option (Z * option cval)) :=
  fun l' => match l, l' with LkCSE, LkCSE | LkULT, LkULT => v | _, _ => f l' end.

Fixpoint eval_cond (scope : cache_scope) (cv : check_valid) (c : cond) (s : st) : option bool :=
  match c with
  | CScope x => Some (sc_eqb scope x)
  | CValid x => Some (cv_eqb cv x)
  | CAllowed r => match s_allowed s with Some a => Some (a r) | None => None end
  | CCached => Some (s_cached s)
  | CNotCached => Some (negb (s_cached s))
  | CFound l => Some (match s_node s l with Some _ => true | None => false end)
  | CAnd cs =>
      (fix go (l : list cond) : option bool :=
         match l with
         | [] => Some true
         | x :: r => match eval_cond scope cv x s with
                     | Some true => go r
                     | Some false => Some false      (* short circuit *)
                     | None => None
                     end
         end) cs
  end.

Definition fetch (s : st) (ov : option cval) (what : consult) : st :=
  mkSt (s_allowed s) ov (match ov with Some _ => true | None => false end) (s_hash s) (s_type s) (s_node s)
       (what :: s_trace s).

Fixpoint exec (scope : cache_scope) (cv : check_valid) (ans : answers) (p : stmt) (s : st) {struct p} : flow :=
  let block := fix block (l : list stmt) (s : st) : flow :=
      match l with
      | [] => Continue s
      | x :: r => match exec scope cv ans x s with Continue s' => block r s' | ret => ret end
      end in
  match p with
  | SDefaultAllowed =>
      Continue (mkSt (match s_allowed s with None => Some all_results | x => x end)
                     (s_result s) (s_cached s) (s_hash s) (s_type s) (s_node s) (s_trace s))
  | SInit => Continue (mkSt (s_allowed s) None false None MISS (s_node s) (s_trace s))
  | SQuery l =>
      Continue (mkSt (s_allowed s) (s_result s) (s_cached s) (s_hash s) (s_type s)
                     (upd_node (s_node s) l (ans_node ans l)) (QNode l :: s_trace s))
  | SFetch l =>
      match s_node s l with
      | Some (_, ov) => Continue (fetch s ov (FCall l))
      | None => Return CCPyError s
      end
  | SFetchEval => Continue (fetch s (a_single ans) FEval)
  | SSetHash l =>
      match s_node s l with
      | Some (h, _) => Continue (mkSt (s_allowed s) (s_result s) (s_cached s) (Some h) (s_type s) (s_node s) (s_trace s))
      | None => Return CCPyError s
      end
  | SSetType r => Continue (mkSt (s_allowed s) (s_result s) (s_cached s) (s_hash s) r (s_node s) (s_trace s))
  | SRetMiss => Return (CCOut None None MISS) s
  | SRetNode l r =>
      match s_node s l with
      | Some (h, _) => Return (CCOut (s_result s) (Some h) r) s
      | None => Return CCPyError s
      end
  | SRetCur => Return (CCOut (s_result s) (s_hash s) (s_type s)) s
  | SIf c a b =>
      match eval_cond scope cv c s with
      | Some true => block a s
      | Some false => block b s
      | None => Return CCPyError s
      end
  end.

Fixpoint exec_block (scope : cache_scope) (cv : check_valid) (ans : answers) (l : list stmt) (s : st) : flow :=
  match l with
  | [] => Continue s
  | x :: r => match exec scope cv ans x s with Continue s' => exec_block scope cv ans r s' | ret => ret end
  end.

Definition st0 (al : option allowed) : st := mkSt al None false None MISS (fun _ => None) [].

(** run a translated check_cache body: the result and the backend consultations in order *)
Definition run_cc (prog : list stmt) (scope : cache_scope) (cv : check_valid) (al : option allowed)
           (ans : answers) : cc_result * list consult :=
  match exec_block scope cv ans prog (st0 al) with
  | Return r s => (r, rev (s_trace s))
  | Continue s => (CCPyError, rev (s_trace s))
  end.

(** the body of RedunBackendDb.check_cache as shipped (what translate/tr_subrun.py must extract) *)
Definition shipped_check_cache : list stmt :=
  [ SDefaultAllowed;
    SInit;
    SIf (CScope ScNONE) [SRetMiss] [];
    SIf (CAllowed CSE)
        [ SQuery LkCSE;
          SIf (CFound LkCSE) [ SFetch LkCSE; SIf CCached [SRetNode LkCSE CSE] [] ] [] ] [];
    SIf (CAnd [CScope ScBACKEND; CValid CvSHALLOW; CAllowed ULTIMATE])
        [ SQuery LkULT;
          SIf (CFound LkULT) [ SSetHash LkULT; SFetch LkULT; SSetType ULTIMATE ] [] ] [];
    SIf (CAnd [CNotCached; CScope ScBACKEND; CAllowed SINGLE]) [ SFetchEval; SSetType SINGLE ] [];
    SIf CCached [SRetCur] [SRetMiss] ].

(** ** Scheduler._get_cache *)
Inductive gc_test := TestCSEHandles | TestCSE | TestError | TestMiss | TestValid.
Inductive gc_outcome := OutHit | OutMiss.
Definition gc_chain := list (gc_test * gc_outcome).

Record getcache_cfg := mkGC {
  gc_default_valid : check_valid;          (* job.get_option("check_valid", <default>) *)
  gc_default_scope : cache_scope;          (* job.get_option("cache_scope", <default>) *)
  gc_script_scope : cache_scope;           (* scope forced for redun.script_task *)
  gc_async_scope : cache_scope;            (* the scope at which async tasks are restricted *)
  gc_async_removes : cache_result;         (* allowed_cache_results -= {...} *)
  gc_async_valid : check_valid;            (* check_valid forced for them *)
  gc_args_in_order : bool;                 (* the call passes cache_scope, check_valid, context_hash, allowed in check_cache's parameter order *)
  gc_chain_of : gc_chain
}.

Definition shipped_getcache : getcache_cfg :=
  mkGC CvFULL ScBACKEND ScCSE ScBACKEND SINGLE CvSHALLOW true
       [ (TestCSEHandles, OutHit); (TestCSE, OutMiss); (TestError, OutMiss); (TestMiss, OutMiss); (TestValid, OutHit) ].

(** the options of a job as _get_cache reads them *)
Record jobopts := mkJO {
  jo_valid : option check_valid;
  jo_scope : option cache_scope;
  jo_allowed : option allowed;
  jo_script : bool;                        (* job.task.fullname == "redun.script_task" *)
  jo_async : bool                          (* job.task.is_async() *)
}.

Inductive gc_result :=
| GHit (v : cval) (call_hash : option Z) (ct : cache_result)     (* (result, True, call_hash); ct is a ghost *)
| GMiss                                                          (* (None, False, None) *)
| GPyError.

Definition test_holds (t : gc_test) (result : option cval) (ct : cache_result) : bool :=
  match t with
  | TestCSEHandles => cr_eqb ct CSE && match result with Some (CVal _ _ h) => h | _ => true end
  | TestCSE => cr_eqb ct CSE
  | TestError => match result with Some (CErr _) => true | _ => false end
  | TestMiss => cr_eqb ct MISS
  | TestValid => match result with Some (CVal _ v _) => v | Some (CErr _) => true | None => true end
  end.

Fixpoint run_chain (ch : gc_chain) (result : option cval) (h : option Z) (ct : cache_result) : gc_result :=
  match ch with
  | [] => GMiss                      (* the final else *)
  | (t, o) :: r =>
      if test_holds t result ct
      then match o, result with
           | OutHit, Some v => GHit v h ct
           | OutHit, None => GPyError      (* a hit without a value: cannot happen as shipped (proved) *)
           | OutMiss, _ => GMiss
           end
      else run_chain r result h ct
  end.

(** the arguments _get_cache hands to check_cache *)
Definition gc_args (g : getcache_cfg) (jo : jobopts) : cache_scope * check_valid * option allowed :=
  let cv := match jo_valid jo with Some v => v | None => gc_default_valid g end in
  let scope := if jo_script jo then gc_script_scope g
               else match jo_scope jo with Some s => s | None => gc_default_scope g end in
  if jo_async jo && sc_eqb scope (gc_async_scope g)
  then (scope, gc_async_valid g,
        Some (set_minus (match jo_allowed jo with Some a => a | None => all_results end) (gc_async_removes g)))
  else (scope, cv, jo_allowed jo).

Definition get_cache (prog : list stmt) (g : getcache_cfg) (jo : jobopts) (ans : answers)
  : gc_result * list consult :=
  if negb (gc_args_in_order g) then (GPyError, []) else
  match gc_args g jo with
  | (scope, cv, al) =>
      match run_cc prog scope cv al ans with
      | (CCOut result h ct, tr) => (run_chain (gc_chain_of g) result h ct, tr)
      | (CCPyError, tr) => (GPyError, tr)
      end
  end.

(** ** the options of the _subrun_root_task job
    subrun builds  all_options = {cache_scope: sexpr option or subrun's own default, check_valid: likewise,
    allowed_cache_results: {CSE, ULTIMATE}}, then all_options.update(task_options);
    Job.get_raw_options layers  task defaults < parent's exported options < expr options < job options,
    and _evaluate_apply sets job option cache_scope=CSE when the run has cache=False, and
    options_then forces cache_scope=NONE when provenance is off. *)
(** when _evaluate_apply installs the cache=False override: always, or only for a task whose
    *definition* has backend scope (the call's own options are not looked at by such a guard) *)
Inductive nocache_guard := GuardNone | GuardDefinedBackend.

Record subrun_cfg := mkSC {
  sc_default_scope : cache_scope;          (* @scheduler_task(cache_scope=...) of subrun *)
  sc_default_valid : check_valid;          (* @scheduler_task(check_valid=...) of subrun *)
  sc_allowed : list cache_result;          (* the literal set in all_options *)
  sc_nocache_scope : cache_scope;          (* job option when not scheduler._use_cache *)
  sc_noprov_scope : cache_scope;           (* eval option when not recording provenance *)
  sc_nocache_guard : nocache_guard;        (* the condition around the cache=False override *)
  sc_task_defined_scope : cache_scope      (* @task(cache_scope=...) of _subrun_root_task itself *)
}.
Definition shipped_subrun_opts : subrun_cfg := mkSC ScBACKEND CvSHALLOW [CSE; ULTIMATE] ScCSE ScNONE GuardNone ScCSE.
(** the variant with the guard on the definition-time scope (not what the code does) *)
Definition guarded_subrun_opts : subrun_cfg := mkSC ScBACKEND CvSHALLOW [CSE; ULTIMATE] ScCSE ScNONE GuardDefinedBackend ScCSE.

Record subrun_call := mkCall {
  c_scope : option cache_scope;            (* subrun.options(cache_scope=...) *)
  c_valid : option check_valid;            (* subrun.options(check_valid=...) *)
  c_use_cache : bool;                      (* scheduler.run(cache=...) *)
  c_prov : bool                            (* the _subrun_root_task job records provenance *)
}.

Definition root_task_jobopts (c : subrun_cfg) (k : subrun_call) : jobopts :=
  let scope0 := match c_scope k with Some s => s | None => sc_default_scope c end in
  let overridden := match sc_nocache_guard c with
                    | GuardNone => true
                    | GuardDefinedBackend => sc_eqb (sc_task_defined_scope c) ScBACKEND
                    end in
  let scope1 := if c_use_cache k then scope0 else if overridden then sc_nocache_scope c else scope0 in
  let scope2 := if c_prov k then scope1 else sc_noprov_scope c in
  mkJO (Some (match c_valid k with Some v => v | None => sc_default_valid c end))
       (Some scope2) (Some (set_of (sc_allowed c))) false false.

(* ====================================================================== *)
(** * Part 2: handing the result back                                      *)
(* ====================================================================== *)

(** final state of the workflow promise of the (sub-)scheduler after _run *)
Inductive outcome := OVal (v : Z) | OErr (e : Z) | ODry.        (* fulfilled / rejected / pending under dryrun *)
Inductive pstate := PFulfilled | PRejected | PPendingDry.
Definition pstate_of (o : outcome) := match o with OVal _ => PFulfilled | OErr _ => PRejected | ODry => PPendingDry end.
Definition pstate_eqb (a b : pstate) : bool :=
  match a, b with PFulfilled, PFulfilled | PRejected, PRejected | PPendingDry, PPendingDry => true | _, _ => false end.

(** what the caller of a run / of the subrun expression observes *)
Inductive observed :=
| RetV (v : Z)            (* a value *)
| Raise (e : Z)           (* the user's error *)
| RaiseDryRun             (* DryRunResult: additional jobs would run *)
| RetNone                 (* a silent None (no branch of [then] applies) *)
| PyError.                (* KeyError / AssertionError / TypeError inside the protocol *)

(** Scheduler.run's ending: per promise state *)
Inductive run_end := EndReturnValue | EndRaiseError | EndRaiseDryRun.
Definition run_ends := list (pstate * run_end).

(** keys and entries of the dicts of the protocol *)
Inductive key := KConfig | KResult | KError | KDryrun | KJobId | KCallHash | KRunConfig | KStatus.
Definition key_eqb (a b : key) : bool :=
  match a, b with
  | KConfig, KConfig | KResult, KResult | KError, KError | KDryrun, KDryrun | KJobId, KJobId
  | KCallHash, KCallHash | KRunConfig, KRunConfig | KStatus, KStatus => true
  | _, _ => false
  end.
Inductive src := SrcValue | SrcError | SrcTrue | SrcMeta.          (* result.value / result.error / True / bookkeeping *)
Inductive dval := DVal (v : Z) | DErr (e : Z) | DTrue | DMeta.
Definition dict := list (key * dval).
Fixpoint dict_get (d : dict) (k : key) : option dval :=
  match d with [] => None | (k', v) :: r => if key_eqb k k' then Some v else dict_get r k end.
Fixpoint dict_set (d : dict) (k : key) (v : dval) : dict :=
  match d with
  | [] => [(k, v)]
  | (k', v') :: r => if key_eqb k k' then (k, v) :: r else (k', v') :: dict_set r k v
  end.
Definition dict_update (d e : dict) : dict := fold_left (fun acc kv => dict_set acc (fst kv) (snd kv)) e d.

Definition mk_entry (o : outcome) (ks : key * src) : option (key * dval) :=
  match snd ks, o with
  | SrcValue, OVal v => Some (fst ks, DVal v)
  | SrcError, OErr e => Some (fst ks, DErr e)
  | SrcTrue, _ => Some (fst ks, DTrue)
  | SrcMeta, _ => Some (fst ks, DMeta)
  | _, _ => None                                   (* result.value of a promise that is not fulfilled: an error *)
  end.
Fixpoint mk_dict (o : outcome) (l : list (key * src)) : option dict :=
  match l with
  | [] => Some []
  | ks :: r => match mk_entry o ks, mk_dict o r with
               | Some e, Some d => Some (e :: d)
               | _, _ => None
               end
  end.

(** [then] of subrun: an if/elif chain on key membership *)
Inductive then_act := ActReturn (k : key) | ActRaise (k : key) | ActPending.

Record handback_cfg := mkHB {
  hb_run : run_ends;                                 (* Scheduler.run *)
  hb_extend : list (pstate * list (key * src));      (* Scheduler.extend_run: the dict returned per state *)
  hb_root_init : list key;                           (* subrun_result = {...} *)
  hb_root_extend_parent_is_jobinfo : bool;           (* extend_run(..., parent_job_id=job_info.job_id, ...) *)
  hb_root_extend_checks_dict : bool;                 (* the isinstance(result, dict) guard *)
  hb_root_extend_raises_error : bool;                (* if "error" in result: raise result["error"]  (else the failure is
                                                        handed on as a value inside the task's result) *)
  hb_root_new_key : key;                             (* subrun_result[<key>] = result of run() *)
  hb_root_final : list key;                          (* subrun_result.update({...}) *)
  hb_then : list (key * then_act)
}.

Definition shipped_handback : handback_cfg :=
  mkHB [ (PFulfilled, EndReturnValue); (PRejected, EndRaiseError); (PPendingDry, EndRaiseDryRun) ]
       [ (PFulfilled, [ (KResult, SrcValue); (KJobId, SrcMeta); (KCallHash, SrcMeta) ]);
         (PRejected, [ (KError, SrcError); (KJobId, SrcMeta); (KCallHash, SrcMeta) ]);
         (PPendingDry, [ (KDryrun, SrcTrue); (KJobId, SrcMeta); (KCallHash, SrcMeta) ]) ]
       [ KConfig ] true true true KResult [ KRunConfig; KStatus ]
       [ (KResult, ActReturn KResult); (KError, ActRaise KError); (KDryrun, ActPending) ].
(** the earlier shape: a failed sub-execution is returned as a value of the _subrun_root_task job *)
Definition value_handback : handback_cfg :=
  mkHB (hb_run shipped_handback) (hb_extend shipped_handback) [ KConfig ] true true false KResult [ KRunConfig; KStatus ]
       (hb_then shipped_handback).

Fixpoint assoc_ps {A} (l : list (pstate * A)) (p : pstate) : option A :=
  match l with [] => None | (q, a) :: r => if pstate_eqb p q then Some a else assoc_ps r p end.

(** evaluating the expression directly: Scheduler.run *)
Definition run_direct (h : handback_cfg) (o : outcome) : observed :=
  match assoc_ps (hb_run h) (pstate_of o), o with
  | Some EndReturnValue, OVal v => RetV v
  | Some EndRaiseError, OErr e => Raise e
  | Some EndRaiseDryRun, _ => RaiseDryRun
  | _, _ => PyError                                  (* "Unexpected state" *)
  end.

(** the _subrun_root_task job: returns a dict, or fails with an error *)
Inductive task_out := TaskReturns (d : dict) | TaskRaises (o : observed).

Definition meta_dict (ks : list key) : dict := map (fun k => (k, DMeta)) ks.

Definition root_task (h : handback_cfg) (new_execution : bool) (o : outcome) : task_out :=
  let d0 := meta_dict (hb_root_init h) in
  let finish d := TaskReturns (dict_update d (meta_dict (hb_root_final h))) in
  if negb new_execution then
    match assoc_ps (hb_extend h) (pstate_of o) with
    | Some l => match mk_dict o l with
                | Some r =>
                    match hb_root_extend_raises_error h, dict_get r KError with
                    | true, Some (DErr e) => TaskRaises (Raise e)      (* the job fails with the inner error *)
                    | true, Some _ => TaskRaises PyError
                    | _, _ => finish (dict_update d0 r)
                    end
                | None => TaskRaises PyError
                end
    | None => TaskRaises PyError                       (* extend_run: "Unexpected state" *)
    end
  else
    match run_direct h o with
    | RetV v => finish (dict_set d0 (hb_root_new_key h) (DVal v))
    | other => TaskRaises other                        (* run() raised: the job fails with that error *)
    end.

(** [then] applied to the job's (fresh or replayed) result *)
Fixpoint then_chain (l : list (key * then_act)) (d : dict) (dryrun : observed) : observed :=
  match l with
  | [] => RetNone
  | (k, a) :: r =>
      match dict_get d k with
      | Some _ =>
          match a with
          | ActReturn k' => match dict_get d k' with Some (DVal v) => RetV v | _ => PyError end
          | ActRaise k' => match dict_get d k' with Some (DErr e) => Raise e | _ => PyError end
          | ActPending => dryrun
          end
      | None => then_chain r d dryrun
      end
  end.

(** what the caller of subrun(expr) observes, for the inner outcome [o].  A promise that never
    resolves is what a dry run of the caller reports as DryRunResult. *)
Definition subrun_observed (h : handback_cfg) (new_execution : bool) (o : outcome) : observed :=
  match root_task h new_execution o with
  | TaskReturns d => then_chain (hb_then h) d RaiseDryRun
  | TaskRaises e => e                                   (* the rejection passes through .then(then) *)
  end.

(* ====================================================================== *)
(** * Part 3: Job rows of the sub-scheduler                                *)
(* ====================================================================== *)

Inductive jid := JCaller            (* the _subrun_root_task job of the calling scheduler *)
               | JInner (k : nat).  (* k-th job created by the sub-scheduler *)
Inductive eid := ECaller            (* execution of the calling job, as stored in its Job row *)
               | EFresh.            (* a new Execution id *)
Definition jid_eqb (a b : jid) : bool :=
  match a, b with JCaller, JCaller => true | JInner i, JInner j => Nat.eqb i j | _, _ => false end.
Definition eid_eqb (a b : eid) : bool := match a, b with ECaller, ECaller | EFresh, EFresh => true | _, _ => false end.

(** where the pieces come from in the code (extracted by the translator) *)
Inductive w_exec := WExecOfParentRow | WExecFresh.          (* extend_run: Execution(parent_job_details["execution_id"]) *)
Inductive w_parent := WDummyWithGivenId | WNoParent.        (* extend_run: _run(parent_job=Job(id=parent_job_id ...)) *)
Inductive w_rowpar := WJobParentId | WRowNoParent.          (* record_job_start: parent_id = job.parent_job.id if job.parent_job else None *)
Inductive w_rowexec := WJobExecutionId.                     (* record_job_start: execution_id = job.execution.id *)
Inductive w_jobexec := WCurrentExecution.                   (* _evaluate_apply: Job(..., execution=self._current_execution) *)
Inductive w_jobpar := WParentJobArg | WJobNoParent.         (* _evaluate_apply: Job(..., parent_job=parent_job) *)

Record wiring := mkW {
  w_extend_exec : w_exec;
  w_extend_parent : w_parent;
  w_extend_parent_arg_is_jobinfo : bool;   (* _subrun_root_task passes job_info.job_id, filled from the running job *)
  w_new_exec : w_exec;                     (* run(): Execution(execution_id) with execution_id absent from run_config *)
  w_row_parent : w_rowpar;
  w_row_exec : w_rowexec;
  w_job_exec : w_jobexec;
  w_job_parent : w_jobpar
}.
Definition shipped_wiring : wiring :=
  mkW WExecOfParentRow WDummyWithGivenId true WExecFresh WJobParentId WJobExecutionId WCurrentExecution WParentJobArg.

(** one job creation inside the sub-scheduler: evaluate(expr, parent_job=...) with the parent
    handed to _run (top level) or with an earlier inner job *)
Inductive newjob := NewTop | NewChild (k : nat).

Record jobrow := mkRow { r_id : jid; r_parent : option jid; r_exec : eid }.

Definition sub_exec (w : wiring) (new_execution : bool) : eid :=
  if new_execution then match w_new_exec w with WExecFresh => EFresh | WExecOfParentRow => ECaller end
  else match w_extend_exec w with WExecOfParentRow => ECaller | WExecFresh => EFresh end.

Definition top_parent (w : wiring) (new_execution : bool) : option jid :=
  if new_execution then None
  else match w_extend_parent w with
       | WDummyWithGivenId => if w_extend_parent_arg_is_jobinfo w then Some JCaller else None
       | WNoParent => None
       end.

Definition row_of (w : wiring) (new_execution : bool) (idx : nat) (op : newjob) : jobrow :=
  let parent_job := match w_job_parent w with
                    | WJobNoParent => None
                    | WParentJobArg => match op with NewTop => top_parent w new_execution | NewChild k => Some (JInner k) end
                    end in
  mkRow (JInner idx)
        (match w_row_parent w with WJobParentId => parent_job | WRowNoParent => None end)
        (sub_exec w new_execution).

Fixpoint rows_from (w : wiring) (new_execution : bool) (idx : nat) (ops : list newjob) : list jobrow :=
  match ops with
  | [] => []
  | op :: r => row_of w new_execution idx op :: rows_from w new_execution (S idx) r
  end.
Definition sub_rows (w : wiring) (new_execution : bool) (ops : list newjob) : list jobrow :=
  rows_from w new_execution 0 ops.

(** well-formed creation sequences: a child names a job created before it *)
Fixpoint wf_from (idx : nat) (ops : list newjob) : bool :=
  match ops with
  | [] => true
  | NewTop :: r => wf_from (S idx) r
  | NewChild k :: r => Nat.ltb k idx && wf_from (S idx) r
  end.
Definition wf_ops (ops : list newjob) : bool := wf_from 0 ops.

(** [under rows fuel j]: following parent_id from job j reaches the calling job *)
Fixpoint lookup_row (rows : list jobrow) (j : jid) : option jobrow :=
  match rows with [] => None | r :: t => if jid_eqb (r_id r) j then Some r else lookup_row t j end.
Fixpoint under_caller (rows : list jobrow) (fuel : nat) (j : jid) : bool :=
  match fuel with
  | O => false
  | S f => match lookup_row rows j with
           | Some r => match r_parent r with
                       | Some JCaller => true
                       | Some p => under_caller rows f p
                       | None => false
                       end
           | None => false
           end
  end.

(* ====================================================================== *)
(** * Part 4: the context the sub-workflow sees                            *)
(* ====================================================================== *)
(** Contexts are flat key -> value maps here (merge_dicts also merges nested dicts; the keys the
    harness uses are flat).  [ctx_merge a b]: later wins, as merge_dicts([a, b]). *)
Definition ctx := list (nat * Z).
Fixpoint ctx_get (c : ctx) (k : nat) : option Z :=
  match c with [] => None | (k', v) :: r => if Nat.eqb k k' then Some v else ctx_get r k end.
Definition later_wins (a b : nat -> option Z) : nat -> option Z :=
  fun k => match b k with Some v => Some v | None => a k end.

(** Scheduler.run: Execution(execution_id, context=merge_dicts([<first>, <second>])) *)
Inductive ctx_order := ConfigThenRun | RunThenConfig.
Definition shipped_ctx_order : ctx_order := ConfigThenRun.

(** context of a new execution: the scheduler's config-level context and the context given to run() *)
Definition run_context (o : ctx_order) (config run : nat -> option Z) : nat -> option Z :=
  match o with ConfigThenRun => later_wins config run | RunThenConfig => later_wins run config end.

(** Job.get_context: the parent's context (the execution's for a root job) overridden by the job's
    own update_context; [overrides] lists them from the root job down to the job *)
Fixpoint job_context (base : nat -> option Z) (overrides : list ctx) : nat -> option Z :=
  match overrides with
  | [] => base
  | o :: r => job_context (later_wins base (ctx_get o)) r
  end.

(** what the jobs of the sub-scheduler start from, given the context [fwd] that subrun forwards
    (run_config["context"] = parent_job.get_context()) and the same config (forwarded too):
    new execution: sub_scheduler.run(expr, context=fwd);
    extending: Execution(<id>) has no context, the stand-in parent job carries _context_override=fwd *)
Definition sub_new_context (o : ctx_order) (config : nat -> option Z) (fwd : nat -> option Z) := run_context o config fwd.
Definition sub_extend_context (fwd : nat -> option Z) : nat -> option Z := later_wins (fun _ => None) fwd.

(* ====================================================================== *)
(** * Part 5: the cache identity of the _subrun_root_task call             *)
(* ====================================================================== *)
(** hash_args_eval leaves the task's config_args out of args_hash / eval_hash; everything else is in *)
Inductive rtarg := AExpr | AConfig | AConfigDir | ALoadModules | ARunConfig | ANewExecution | AJobInfo | AExportOptions.
Definition rtarg_eqb (a b : rtarg) : bool :=
  match a, b with
  | AExpr, AExpr | AConfig, AConfig | AConfigDir, AConfigDir | ALoadModules, ALoadModules | ARunConfig, ARunConfig
  | ANewExecution, ANewExecution | AJobInfo, AJobInfo | AExportOptions, AExportOptions => true
  | _, _ => false
  end.
Definition all_rtargs : list rtarg :=
  [AExpr; AConfig; AConfigDir; ALoadModules; ARunConfig; ANewExecution; AJobInfo; AExportOptions].
Definition shipped_config_args : list rtarg := [AConfig; AConfigDir; ALoadModules; ARunConfig].
(** the key of a call with argument values [a] *)
Definition root_key (config_args : list rtarg) (a : rtarg -> Z) : list Z :=
  map a (filter (fun x => negb (existsb (rtarg_eqb x) config_args)) all_rtargs).

(* ====================================================================== *)
(** * Part 6: when the top-level expression is its own root job            *)
(* ====================================================================== *)
(** needs_root_task: a task call may be the root job of run / extend_run only if everything the
    scheduler evaluates before the job starts is concrete; otherwise it is wrapped in redun.root_task,
    so that exactly one job is created directly under the (stand-in) parent *)
Inductive concrete_part := CArgs | CKwargs | CDefaults | CTaskOptions | CExprOptions.
Definition all_parts : list concrete_part := [CArgs; CKwargs; CDefaults; CTaskOptions; CExprOptions].
Definition shipped_root_parts : list concrete_part := [CArgs; CKwargs; CDefaults; CTaskOptions; CExprOptions].
Definition needs_root (parts : list concrete_part) (is_task_call is_scheduler_call : bool)
           (lazy : concrete_part -> bool) : bool :=
  negb is_task_call || is_scheduler_call || existsb lazy parts.
(** jobs created directly under the parent of the top-level expression when it is NOT wrapped: the call's own
    job plus one per lazy part (its expressions are evaluated with the same parent job) *)
Definition top_jobs_unwrapped (lazy : concrete_part -> bool) : nat :=
  S (length (filter lazy all_parts)).

(* ====================================================================== *)
(** * Part 7: a second execution on the same backend                       *)
(* ====================================================================== *)
(** what the first execution leaves in the backend for the _subrun_root_task call: a value (the dict)
    if the job returned, a recorded error if it failed *)
Definition recorded_result (t : task_out) : cval :=
  match t with TaskReturns _ => CVal 1 true true | TaskRaises _ => CErr 1 end.

(** second execution, subrun at its default cache options, no equivalent job in the new execution yet:
    the cache decision for the job decides between replaying the first execution's result (the
    sub-workflow does not run) and running the sub-workflow again (inner outcome [o2]).
    Returns what the caller observes and whether the sub-workflow ran. *)
Definition second_execution_subrun (h : handback_cfg) (new_execution : bool) (o1 o2 : outcome) : observed * bool :=
  let t1 := root_task h new_execution o1 in
  match fst (get_cache shipped_check_cache shipped_getcache
                       (root_task_jobopts shipped_subrun_opts (mkCall None None true true))
                       (mkAns None (Some (1%Z, Some (recorded_result t1))) None)) with
  | GHit _ _ _ => (subrun_observed h new_execution o1, false)
  | _ => (subrun_observed h new_execution o2, true)
  end.

(** second execution of the same expression evaluated directly: a value is replayed, a failed call is
    executed again (errors are not replayed from the backend) *)
Definition second_execution_direct (h : handback_cfg) (o1 o2 : outcome) : observed * bool :=
  match o1 with OVal v => (RetV v, false) | _ => (run_direct h o2, true) end.

(* ====================================================================== *)
(** * Decidable equalities used by the correspondence cases (harness)      *)
(* ====================================================================== *)
Definition opt_eqb {A} (e : A -> A -> bool) (a b : option A) : bool :=
  match a, b with Some x, Some y => e x y | None, None => true | _, _ => false end.
Fixpoint list_eqb {A} (e : A -> A -> bool) (a b : list A) : bool :=
  match a, b with
  | [], [] => true
  | x :: a', y :: b' => e x y && list_eqb e a' b'
  | _, _ => false
  end.
Definition lookup_eqb (a b : lookup) : bool := match a, b with LkCSE, LkCSE | LkULT, LkULT => true | _, _ => false end.
Definition consult_eqb (a b : consult) : bool :=
  match a, b with
  | QNode x, QNode y => lookup_eqb x y
  | FCall x, FCall y => lookup_eqb x y
  | FEval, FEval => true
  | _, _ => false
  end.
Definition cc_result_eqb (a b : cc_result) : bool :=
  match a, b with
  | CCOut r h t, CCOut r' h' t' => opt_eqb cval_eqb r r' && opt_eqb Z.eqb h h' && cr_eqb t t'
  | CCPyError, CCPyError => true
  | _, _ => false
  end.
Definition gc_result_eqb (a b : gc_result) : bool :=
  match a, b with
  | GHit v h t, GHit v' h' t' => cval_eqb v v' && opt_eqb Z.eqb h h' && cr_eqb t t'
  | GMiss, GMiss => true
  | GPyError, GPyError => true
  | _, _ => false
  end.
(** the consultations the harness can observe on the real backend: the CSE query is inline SQL *)
Definition observable (c : consult) : bool := match c with QNode LkCSE => false | _ => true end.

Definition cc_case (prog : list stmt) (scope : cache_scope) (cv : check_valid) (al : option (list cache_result))
           (ans : answers) (exp : cc_result) (exp_trace : list consult) : bool :=
  match run_cc prog scope cv (option_map set_of al) ans with
  | (r, tr) => cc_result_eqb r exp && list_eqb consult_eqb (filter observable tr) exp_trace
  end.

(** arguments of the check_cache call: scope, check_valid, and the allowed set by its four memberships *)
Definition args_case (g : getcache_cfg) (jo : jobopts) (scope : cache_scope) (cv : check_valid)
           (al : option (list bool)) : bool :=
  match gc_args g jo with
  | (s, v, a) =>
      sc_eqb s scope && cv_eqb v cv &&
      opt_eqb (list_eqb Bool.eqb) (option_map (fun f => [f CSE; f ULTIMATE; f SINGLE; f MISS]) a) al
  end.

Definition parent_eqb := opt_eqb jid_eqb.
Definition row_eqb (a b : jobrow) : bool :=
  jid_eqb (r_id a) (r_id b) && parent_eqb (r_parent a) (r_parent b) && eid_eqb (r_exec a) (r_exec b).
Definition observed_eqb (a b : observed) : bool :=
  match a, b with
  | RetV x, RetV y => Z.eqb x y
  | Raise x, Raise y => Z.eqb x y
  | RaiseDryRun, RaiseDryRun | RetNone, RetNone | PyError, PyError => true
  | _, _ => false
  end.
