(** C21 — model of the upstream-dataflow bookkeeping of argument expressions.

    What is modelled (one evaluation level = the expression tree one task body / one top-level
    run hands to [Scheduler.evaluate] under one parent job):

    - redun/expression.py: every [ApplyExpression] starts with [_upstreams = [args, kwargs]];
      [TaskExpression.call_hash] is set by [Job.resolve]/[Job.reject];
      [derive_expression orig derived] sets [derived._upstreams = [orig]].
    - redun/scheduler.py [_evaluate_apply]: the per-parent-job table [_pending_expr] keyed by the
      expression hash (= structure of the expression); a second expression object with the same
      hash is not evaluated again, it receives the first one's promise and a *copy of the
      bookkeeping* in a success callback: [call_hash] when the first is a TaskExpression
      (SchedulerExpression is a subclass), [_upstreams] when it is a SimpleExpression.
    - scheduler tasks [cond], [seq], [catch] (with the catch cache in the backend, which survives
      from one run to the next: a hit evaluates a deserialised copy of the cached expression).
    - redun/backends/db/__init__.py [_find_arg_upstreams] (folded into the evaluator: [ups] of an
      expression object is what the finder yields on it once everything has completed) and
      [_record_args] ([record_args]: positional by [enumerate(zip(..))], keywords present on both
      sides in sorted order, then the defaulted parameters as keyword rows); [record_call_node]
      writes the rows only when the CallNode does not exist yet.

    A task call is identified by [ckey] = (task, positional values, keyword values incl. defaults,
    sorted): the model's stand-in for [call_hash] (deterministic tasks, collision-free hashes).
    Each syntactic occurrence of an expression is a distinct Python object; occurrences with equal
    structure have equal hashes.  Evaluation order is sequential depth-first; the real scheduler
    interleaves, which changes *which* of several equal expressions is evaluated first — that is
    observable only through the copy defects below (see harness/props/c21.py, generator rule).

    Two defect sites carry a variant flag:
    - [v_copy_sched]: a duplicate SchedulerExpression also receives the first one's [_upstreams]
      (as shipped only [call_hash], which is always None for scheduler expressions, is copied, so
      the duplicate keeps its own never-evaluated argument objects: no upstream at all);
    - [v_derive_cached]: when [catch] replays its cached expression, the scheduler expression is
      derived from the evaluated copy (as shipped the original argument objects are never
      evaluated: no upstream at all).

    No proofs in this file. *)
From Coq Require Import List ZArith String Bool Arith.
Import ListNotations.
Open Scope list_scope.

(* ------------------------------------------------------------------ values *)
(** Python values of the modelled programs.  A list is a [VCons None _ _] chain, a dict a
    [VCons (Some key) _ _] chain; [VErr cls payload] is an exception instance. *)
Inductive val : Type :=
| VInt (z : Z)
| VStr (s : string)
| VErr (cls : nat) (payload : Z)
| VNil
| VCons (k : option string) (hd : val) (tl : val).

Definition okey_eqb (a b : option string) : bool :=
  match a, b with
  | None, None => true
  | Some x, Some y => String.eqb x y
  | _, _ => false
  end.

Fixpoint val_eqb (a b : val) : bool :=
  match a, b with
  | VInt x, VInt y => Z.eqb x y
  | VStr x, VStr y => String.eqb x y
  | VErr c p, VErr d q => Nat.eqb c d && Z.eqb p q
  | VNil, VNil => true
  | VCons k x r, VCons j y s => okey_eqb k j && val_eqb x y && val_eqb r s
  | _, _ => false
  end.

Inductive res : Type := Ok (v : val) | Raise (e : val).

Definition is_ok (r : res) : bool := match r with Ok _ => true | Raise _ => false end.

(** Identity of a task call (stand-in for call_hash). *)
Definition ckey : Type := (nat * list val * list (string * val))%type.

Fixpoint list_eqb {A} (eq : A -> A -> bool) (a b : list A) : bool :=
  match a, b with
  | [], [] => true
  | x :: a', y :: b' => eq x y && list_eqb eq a' b'
  | _, _ => false
  end.

Definition kv_eqb (a b : string * val) : bool := String.eqb (fst a) (fst b) && val_eqb (snd a) (snd b).

Definition ckey_eqb (a b : ckey) : bool :=
  match a, b with
  | (t, p, k), (t', p', k') => Nat.eqb t t' && list_eqb val_eqb p p' && list_eqb kv_eqb k k'
  end.

(* ------------------------------------------------------------------ expressions *)
Inductive expr : Type :=
| EConst (v : val)                       (* a concrete value *)
| ECont (items : exprs)                  (* list (labels None) or dict (labels Some key) display *)
| ETask (t : nat) (args : exprs)         (* TaskExpression: t(positional.., key=..) *)
| ESimple (o : nat) (args : exprs)       (* SimpleExpression: lazy operator *)
| ECond (args : exprs)                   (* cond(c0, t0, c1, t1, ..., else) *)
| ESeq (items : exprs)                   (* seq([..]) *)
| ECatch (e : expr) (cls : nat) (r : nat) (* catch(e, cls, r) *)
with exprs : Type :=
| XNil
| XCons (k : option string) (e : expr) (r : exprs).

Fixpoint expr_eqb (a b : expr) : bool :=
  match a, b with
  | EConst v, EConst w => val_eqb v w
  | ECont x, ECont y => exprs_eqb x y
  | ETask t x, ETask u y => Nat.eqb t u && exprs_eqb x y
  | ESimple t x, ESimple u y => Nat.eqb t u && exprs_eqb x y
  | ECond x, ECond y => exprs_eqb x y
  | ESeq x, ESeq y => exprs_eqb x y
  | ECatch e c r, ECatch f d s => expr_eqb e f && Nat.eqb c d && Nat.eqb r s
  | _, _ => false
  end
with exprs_eqb (a b : exprs) : bool :=
  match a, b with
  | XNil, XNil => true
  | XCons k e r, XCons j f s => okey_eqb k j && expr_eqb e f && exprs_eqb r s
  | _, _ => false
  end.

Fixpoint to_list (es : exprs) : list (option string * expr) :=
  match es with
  | XNil => []
  | XCons k e r => (k, e) :: to_list r
  end.

(* ------------------------------------------------------------------ the world *)
(** Everything the bookkeeping does not decide: what tasks and operators compute, the default
    parameters of a task ([get_arg_defaults task args kwargs]: task, number of positional
    arguments, keyword names given), truthiness, [isinstance(error, cls)]. *)
Record world : Type := {
  w_run : nat -> list val -> list (string * val) -> res;
  w_defaults : nat -> nat -> list string -> list (string * val);
  w_op : nat -> list val -> res;
  w_truthy : val -> bool;
  w_matches : nat -> val -> bool;
  w_index_error : val
}.

(* ------------------------------------------------------------------ _record_args *)
Record row : Type := {
  r_pos : option nat;        (* Argument.arg_position *)
  r_key : option string;     (* Argument.arg_key *)
  r_val : val;               (* the recorded value (Argument.value_hash) *)
  r_ups : list ckey;         (* ArgumentResult rows of this argument *)
  r_expr : expr              (* ghost: the argument expression this row was recorded for *)
}.

Record callrec : Type := { c_key : ckey; c_rows : list row }.

(** An argument expression together with what [_find_arg_upstreams] yields on it. *)
Definition xarg : Type := (expr * list ckey)%type.

Fixpoint assoc {A} (k : string) (l : list (string * A)) : option A :=
  match l with
  | [] => None
  | (j, x) :: r => if String.eqb k j then Some x else assoc k r
  end.

Definition keys {A} (l : list (string * A)) : list string := map fst l.

Fixpoint mem (k : string) (l : list string) : bool :=
  match l with
  | [] => false
  | j :: r => String.eqb k j || mem k r
  end.

Fixpoint insert_key (k : string) (l : list string) : list string :=
  match l with
  | [] => [k]
  | j :: r => if String.leb k j then k :: l else j :: insert_key k r
  end.

Fixpoint sort_keys (l : list string) : list string :=
  match l with
  | [] => []
  | k :: r => insert_key k (sort_keys r)
  end.

Fixpoint insert_kv {A} (x : string * A) (l : list (string * A)) : list (string * A) :=
  match l with
  | [] => [x]
  | y :: r => if String.leb (fst x) (fst y) then x :: l else y :: insert_kv x r
  end.

Fixpoint sort_kv {A} (l : list (string * A)) : list (string * A) :=
  match l with
  | [] => []
  | x :: r => insert_kv x (sort_kv r)
  end.

Fixpoint pos_rows (i : nat) (xs : list xarg) (vs : list val) : list row :=
  match xs, vs with
  | (e, u) :: xs', v :: vs' =>
      {| r_pos := Some i; r_key := None; r_val := v; r_ups := u; r_expr := e |} :: pos_rows (S i) xs' vs'
  | _, _ => []                       (* zip stops at the shorter side *)
  end.

(** The three generators chained in [_record_args], in the order the source chains them. *)
Inductive seg : Type := SegPos | SegKw | SegDef.

Definition seg_rows (s : seg) (xpos : list xarg) (xkw : list (string * xarg))
           (epos : list val) (ekw : list (string * val)) : list row :=
  match s with
  | SegPos => pos_rows 0 xpos epos
  | SegKw =>
      flat_map (fun k => match assoc k xkw, assoc k ekw with
                         | Some (e, u), Some v =>
                             [{| r_pos := None; r_key := Some k; r_val := v; r_ups := u; r_expr := e |}]
                         | _, _ => []
                         end)
               (sort_keys (filter (fun k => mem k (keys xkw)) (keys ekw)))
  | SegDef =>
      flat_map (fun kv => if mem (fst kv) (keys xkw) then []
                          else [{| r_pos := None; r_key := Some (fst kv); r_val := snd kv;
                                   r_ups := []; r_expr := EConst (snd kv) |}])
               ekw
  end.

Definition record_args_with (segs : list seg) xpos xkw epos ekw : list row :=
  flat_map (fun s => seg_rows s xpos xkw epos ekw) segs.

Definition shipped_segs : list seg := [SegPos; SegKw; SegDef].

Definition record_args := record_args_with shipped_segs.

(** Shape of [_find_arg_upstreams], as the translator reads it from the source.  The evaluator
    below computes, for every expression object, what a finder of shape [model_finder] yields. *)
Record finder : Type := {
  f_walks_nested : bool;          (* for value in iter_nested_value(expr_arg) *)
  f_leaf_task : bool;             (* isinstance(value, TaskExpression) ... *)
  f_leaf_excludes_sched : bool;   (* ... and not isinstance(value, SchedulerExpression) *)
  f_leaf_needs_hash : bool;       (* if value.call_hash: yield value.call_hash *)
  f_recurse_upstreams : bool      (* elif isinstance(value, Expression): recurse into value._upstreams *)
}.
Definition model_finder : finder :=
  {| f_walks_nested := true; f_leaf_task := true; f_leaf_excludes_sched := true;
     f_leaf_needs_hash := true; f_recurse_upstreams := true |}.

(** Initial bookkeeping of expression objects ([ApplyExpression.__init__], [derive_expression]). *)
Record bookkeeping : Type := {
  b_apply_upstreams_args_kwargs : bool;   (* self._upstreams = [args, kwargs] *)
  b_derive_sets_orig : bool               (* derived_expr._upstreams = [orig_expr] *)
}.
Definition model_bookkeeping : bookkeeping :=
  {| b_apply_upstreams_args_kwargs := true; b_derive_sets_orig := true |}.

(* ------------------------------------------------------------------ evaluator state *)
(** [v_forget]: the program being evaluated is a *deserialised* expression tree (the result
    expression of a parent task that was a cache hit, read back from the backend) AND
    [TaskExpression.__setstate__] does not rebuild [_upstreams = [args, kwargs]].  Then a
    scheduler expression (cond, seq, catch: subclasses of TaskExpression, no call_hash) starts with
    [_upstreams = []]; only what [derive_expression] assigns later is seen by the finder.  Task calls
    are linked through [call_hash] and SimpleExpressions rebuild in their own [__setstate__]. *)
Record variant : Type := { v_copy_sched : bool; v_derive_cached : bool; v_forget : bool }.
Definition shipped : variant := {| v_copy_sched := false; v_derive_cached := false; v_forget := false |}.
Definition fixed : variant := {| v_copy_sched := true; v_derive_cached := true; v_forget := false |}.

(** Shape of [TaskExpression.__setstate__] / [SimpleExpression.__setstate__] as the translator reads it. *)
Record setstate : Type := { ss_rebuilds_upstreams : bool }.
Definition model_setstate : setstate := {| ss_rebuilds_upstreams := true |}.
Definition forgetful_setstate : setstate := {| ss_rebuilds_upstreams := false |}.

(** The variant under which a deserialised program is evaluated (pickling round trip: the objects
    are new, [call_hash] is None, [_upstreams] is whatever [__setstate__] leaves). *)
Definition deser_variant (S : setstate) (V : variant) : variant :=
  {| v_copy_sched := v_copy_sched V; v_derive_cached := v_derive_cached V;
     v_forget := v_forget V || negb (ss_rebuilds_upstreams S) |}.

(** [_upstreams] a scheduler expression keeps from its construction. *)
Definition kept (V : variant) (u : list ckey) : list ckey := if v_forget V then [] else u.

(** What the catch cache holds for a catch expression: its main expression (it succeeded) or
    the recover expression [recover(ValueExpression(error))]. *)
Inductive centry : Type := CSucc | CRec (err : val).

(** Outcome of evaluating one expression object: its result and what [_find_arg_upstreams]
    yields on the object afterwards. *)
Definition outcome : Type := (res * list ckey)%type.

Record state : Type := {
  s_pend : list (expr * outcome);       (* _pending_expr[parent_job]; reset by every run *)
  s_cache : list (expr * centry);       (* backend: cached catch evaluations *)
  s_calls : list callrec                (* backend: CallNode + Argument + ArgumentResult rows *)
}.

Definition empty_state : state := {| s_pend := []; s_cache := []; s_calls := [] |}.

Fixpoint lookup {A} (e : expr) (l : list (expr * A)) : option A :=
  match l with
  | [] => None
  | (f, x) :: r => if expr_eqb e f then Some x else lookup e r
  end.

Definition register (e : expr) (o : outcome) (st : state) : state :=
  {| s_pend := (e, o) :: s_pend st; s_cache := s_cache st; s_calls := s_calls st |}.

Definition add_cache (e : expr) (c : centry) (st : state) : state :=
  {| s_pend := s_pend st; s_cache := (e, c) :: s_cache st; s_calls := s_calls st |}.

Fixpoint has_call (k : ckey) (l : list callrec) : bool :=
  match l with
  | [] => false
  | c :: r => ckey_eqb k (c_key c) || has_call k r
  end.

Definition add_call (c : callrec) (st : state) : state :=
  if has_call (c_key c) (s_calls st) then st
  else {| s_pend := s_pend st; s_cache := s_cache st; s_calls := s_calls st ++ [c] |}.

(** One evaluated argument / item: label, expression, outcome. *)
Definition out : Type := (option string * expr * outcome)%type.

Definition out_label (o : out) : option string := fst (fst o).
Definition out_expr (o : out) : expr := snd (fst o).
Definition out_res (o : out) : res := fst (snd o).
Definition out_ups (o : out) : list ckey := snd (snd o).

(** Leftmost error, otherwise the labelled values. *)
Fixpoint collect (l : list (option string * res)) : (list (option string * val)) + val :=
  match l with
  | [] => inl []
  | (k, Raise e) :: _ => inr e
  | (k, Ok v) :: r => match collect r with inl vs => inl ((k, v) :: vs) | inr e => inr e end
  end.

Definition labres (o : out) : option string * res := (out_label o, out_res o).

Definition all_ups (os : list out) : list ckey := flat_map out_ups os.

Fixpoint mk_container (vs : list (option string * val)) : val :=
  match vs with
  | [] => VNil
  | (k, v) :: r => VCons k v (mk_container r)
  end.

Definition mk_list (vs : list (option string * val)) : val :=
  mk_container (map (fun kv => (None, snd kv)) vs).

Definition pos_of {A} (l : list (option string * A)) : list A :=
  flat_map (fun kv => match fst kv with None => [snd kv] | Some _ => [] end) l.

Definition kw_of {A} (l : list (option string * A)) : list (string * A) :=
  flat_map (fun kv => match fst kv with Some k => [(k, snd kv)] | None => [] end) l.

(** eval_args of a call: [(args, {**default_kwargs, **kwargs})] (a given keyword overrides a
    default of the same name; [get_arg_defaults] never returns one). *)
Definition eval_kwargs (W : world) (t : nat) (vs : list (option string * val)) : list (string * val) :=
  let kw := kw_of vs in
  filter (fun kv => negb (mem (fst kv) (keys kw))) (w_defaults W t (List.length (pos_of vs)) (keys kw)) ++ kw.

Definition call_key (W : world) (t : nat) (vs : list (option string * val)) : ckey :=
  (t, pos_of vs, sort_kv (eval_kwargs W t vs)).

Definition call_res (W : world) (t : nat) (vs : list (option string * val)) : res :=
  w_run W t (pos_of vs) (eval_kwargs W t vs).

(** The job of a task call whose arguments [xs] (label, expression, upstreams) evaluated to
    [vs]: run it, record the CallNode with its argument rows unless it exists. *)
Definition exec_call (W : world) (t : nat) (xs : list (option string * xarg))
           (vs : list (option string * val)) (st : state) : outcome * state :=
  let k := call_key W t vs in
  let rows := record_args (pos_of xs) (kw_of xs) (pos_of vs) (eval_kwargs W t vs) in
  ((call_res W t vs, [k]), add_call {| c_key := k; c_rows := rows |} st).

Definition xargs_of (os : list out) : list (option string * xarg) :=
  map (fun o => (out_label o, (out_expr o, out_ups o))) os.

(** The expression [recover(ValueExpression(error))] built by [catch]. *)
Definition recover_expr (r : nat) (err : val) : expr := ETask r (XCons None (EConst err) XNil).

(** Bookkeeping a duplicate expression object ends up with. *)
Definition dup_task (o : outcome) : outcome := (fst o, if is_ok (fst o) then snd o else []).
Definition dup_sched (V : variant) (o : outcome) : outcome :=
  (fst o, if v_copy_sched V && is_ok (fst o) then snd o else []).

Section Eval.
  Variable W : world.
  Variable V : variant.

  (** Evaluate the recover expression whose argument object yields [uarg]. *)
  Definition eval_recover (r : nat) (err : val) (uarg : list ckey) (st : state) : outcome * state :=
    match lookup (recover_expr r err) (s_pend st) with
    | Some o => (dup_task o, st)
    | None =>
        let '(o, st1) := exec_call W r [(None, (EConst err, uarg))] [(None, err)] st in
        (o, register (recover_expr r err) o st1)
    end.

  Fixpoint eval (e : expr) (st : state) {struct e} : outcome * state :=
    match e with
    | EConst v => ((Ok v, []), st)
    | ECont items =>
        let '(os, st1) := eval_args items st in
        ((match collect (map labres os) with inl vs => Ok (mk_container vs) | inr err => Raise err end,
          all_ups os), st1)
    | ETask t args =>
        match lookup e (s_pend st) with
        | Some o => (dup_task o, st)
        | None =>
            let '(os, st1) := eval_args args st in
            let '(o, st2) :=
              match collect (map labres os) with
              | inl vs => exec_call W t (xargs_of os) vs st1
              | inr err => ((Raise err, []), st1)       (* the job never runs: no call_hash *)
              end in
            (o, register e o st2)
        end
    | ESimple op args =>
        match lookup e (s_pend st) with
        | Some o => (dup_task o, st)                     (* _upstreams copied on success only *)
        | None =>
            let '(os, st1) := eval_args args st in
            let o := (match collect (map labres os) with
                      | inl vs => w_op W op (map snd vs)
                      | inr err => Raise err
                      end, all_ups os) in
            (o, register e o st1)
        end
    | ECond args =>
        match lookup e (s_pend st) with
        | Some o => (dup_sched V o, st)
        | None =>
            let '((r0, u0), st1) := eval_cond args st in
            let o := (r0, kept V u0) in
            (o, register e o st1)
        end
    | ESeq items =>
        match lookup e (s_pend st) with
        | Some o => (dup_sched V o, st)
        | None =>
            let '(os, st1) := eval_seq items st in
            let o := (match collect (map labres os) with inl vs => Ok (mk_list vs) | inr err => Raise err end,
                      kept V (all_ups os)) in
            (o, register e o st1)
        end
    | ECatch e0 cls r =>
        match lookup e (s_pend st) with
        | Some o => (dup_sched V o, st)
        | None =>
            let '(o, st') :=
              match lookup e (s_cache st) with
              | None =>
                  let '((re, ue), st1) := eval e0 st in
                  match re with
                  | Ok v => ((Ok v, kept V ue), add_cache e CSucc st1)
                  | Raise err =>
                      if w_matches W cls err then
                        let '(o, st2) := eval_recover r err ue st1 in
                        (o, if is_ok (fst o) then add_cache e (CRec err) st2 else st2)
                      else ((Raise err, kept V ue), st1)
                  end
              | Some CSucc =>
                  (* a deserialised copy of e0 is evaluated; the objects in the catch
                     expression's own arguments never are *)
                  let '((re, ue), st1) := eval e0 st in
                  let ud := if v_derive_cached V then ue else [] in
                  match re with
                  | Ok v => ((Ok v, ud), st1)
                  | Raise err =>
                      if w_matches W cls err then
                        let '(o, st2) := eval_recover r err ud st1 in
                        (o, if is_ok (fst o) then add_cache e (CRec err) st2 else st2)
                      else ((Raise err, ud), st1)
                  end
              | Some (CRec err) =>
                  (* a deserialised copy of recover(ValueExpression(err)) is evaluated *)
                  let '(o, st1) := eval_recover r err [] st in
                  ((fst o, if v_derive_cached V then snd o else []), st1)
              end in
            (o, register e o st')
        end
    end
  with eval_args (es : exprs) (st : state) {struct es} : list out * state :=
    match es with
    | XNil => ([], st)
    | XCons k e r =>
        let '(o, st1) := eval e st in
        let '(os, st2) := eval_args r st1 in
        ((k, e, o) :: os, st2)
    end
  with eval_seq (es : exprs) (st : state) {struct es} : list out * state :=
    match es with
    | XNil => ([], st)
    | XCons k e r =>
        let '(o, st1) := eval e st in
        if is_ok (fst o) then
          let '(os, st2) := eval_seq r st1 in ((k, e, o) :: os, st2)
        else ([(k, e, o)], st1)
    end
  with eval_cond (es : exprs) (st : state) {struct es} : outcome * state :=
    match es with
    | XCons _ c (XCons _ t rest) =>
        let '((rc, uc), st1) := eval c st in
        match rc with
        | Raise err => ((Raise err, uc), st1)
        | Ok vc =>
            if w_truthy W vc then
              let '((rt, ut), st2) := eval t st1 in ((rt, uc ++ ut), st2)
            else
              match rest with
              | XNil => ((Raise (w_index_error W), uc), st1)
              | XCons _ e' XNil => let '((re, ue), st2) := eval e' st1 in ((re, uc ++ ue), st2)
              | XCons _ _ (XCons _ _ _) =>
                  let '((rr, ur), st2) := eval_cond rest st1 in ((rr, uc ++ ur), st2)
              end
        end
    | _ => ((Raise (w_index_error W), []), st)
    end.

  (** One run ([Scheduler.run]) of a program on a backend: fresh pending table. *)
  Definition run_prog (e : expr) (st : state) : outcome * state :=
    eval e {| s_pend := []; s_cache := s_cache st; s_calls := s_calls st |}.

  Fixpoint run_all (ps : list expr) (st : state) : state :=
    match ps with
    | [] => st
    | p :: r => run_all r (snd (run_prog p st))
    end.

  Fixpoint results (ps : list expr) (st : state) : list res :=
    match ps with
    | [] => []
    | p :: r => let '(o, st1) := run_prog p st in fst o :: results r st1
    end.
End Eval.

(* ------------------------------------------------------------------ specification side *)
(** Pure semantics (no tables, no cache) and the calls that *produced* the value of an
    expression: directly, through lazy operators, containers, and the scheduler tasks
    (cond: the chosen branch; seq: every item; catch: the main expression, or the recover call). *)
Section Spec.
  Variable W : world.

  Fixpoint sem (e : expr) : res :=
    match e with
    | EConst v => Ok v
    | ECont items => match collect (sems items) with inl vs => Ok (mk_container vs) | inr err => Raise err end
    | ETask t args => match collect (sems args) with inl vs => call_res W t vs | inr err => Raise err end
    | ESimple o args => match collect (sems args) with inl vs => w_op W o (map snd vs) | inr err => Raise err end
    | ECond args => sem_cond args
    | ESeq items => match collect (sems items) with inl vs => Ok (mk_list vs) | inr err => Raise err end
    | ECatch e0 cls r =>
        match sem e0 with
        | Ok v => Ok v
        | Raise err => if w_matches W cls err then call_res W r [(None, err)] else Raise err
        end
    end
  with sems (es : exprs) : list (option string * res) :=
    match es with
    | XNil => []
    | XCons k e r => (k, sem e) :: sems r
    end
  with sem_cond (es : exprs) : res :=
    match es with
    | XCons _ c (XCons _ t rest) =>
        match sem c with
        | Raise err => Raise err
        | Ok vc =>
            if w_truthy W vc then sem t
            else match rest with
                 | XNil => Raise (w_index_error W)
                 | XCons _ e' XNil => sem e'
                 | XCons _ _ (XCons _ _ _) => sem_cond rest
                 end
        end
    | _ => Raise (w_index_error W)
    end.

  Fixpoint prod (e : expr) : list ckey :=
    match e with
    | EConst _ => []
    | ECont items => prods items
    | ETask t args => match collect (sems args) with inl vs => [call_key W t vs] | inr _ => [] end
    | ESimple _ args => prods args
    | ECond args => prod_cond args
    | ESeq items => prods items
    | ECatch e0 cls r =>
        match sem e0 with
        | Ok _ => prod e0
        | Raise err => if w_matches W cls err then [call_key W r [(None, err)]] else []
        end
    end
  with prods (es : exprs) : list ckey :=
    match es with
    | XNil => []
    | XCons _ e r => prod e ++ prods r
    end
  with prod_cond (es : exprs) : list ckey :=
    match es with
    | XCons _ c (XCons _ t rest) =>
        match sem c with
        | Raise _ => []
        | Ok vc =>
            if w_truthy W vc then prod t
            else match rest with
                 | XNil => []
                 | XCons _ e' XNil => prod e'
                 | XCons _ _ (XCons _ _ _) => prod_cond rest
                 end
        end
    | _ => []
    end.

  (** The property on a backend: every argument row of every recorded call carries the value
      of its argument expression and links every call that produced it. *)
  Definition row_complete (r : row) : Prop :=
    sem (r_expr r) = Ok (r_val r) /\ incl (prod (r_expr r)) (r_ups r).

  Definition rows_complete (st : state) : Prop :=
    forall c, In c (s_calls st) -> forall r, In r (c_rows c) -> row_complete r.

  (** Boolean version for witnesses. *)
  Definition inclb (a b : list ckey) : bool := forallb (fun k => existsb (ckey_eqb k) b) a.

  Definition row_completeb (r : row) : bool :=
    match sem (r_expr r) with Ok v => val_eqb v (r_val r) | Raise _ => false end
    && inclb (prod (r_expr r)) (r_ups r).

  Definition rows_completeb (st : state) : bool :=
    forallb (fun c => forallb row_completeb (c_rows c)) (s_calls st).
End Spec.

(** The recorded rows reproduce the arguments the call received. *)
Definition rows_pos (rs : list row) : list (nat * val) :=
  flat_map (fun r => match r_pos r, r_key r with Some i, None => [(i, r_val r)] | _, _ => [] end) rs.

Definition rows_kw (rs : list row) : list (string * val) :=
  flat_map (fun r => match r_pos r, r_key r with None, Some k => [(k, r_val r)] | _, _ => [] end) rs.

Fixpoint enum {A} (i : nat) (l : list A) : list (nat * A) :=
  match l with
  | [] => []
  | x :: r => (i, x) :: enum (S i) r
  end.

(* ------------------------------------------------------------------ the concrete world of the harness *)
(** The task family of harness/props/c21.py.  Each entry: argument name and optional default. *)
Definition sig_of (t : nat) : list (string * option val) :=
  let tag := ("tag"%string, Some (VInt 0)) in
  match t with
  | 0 => [("x"%string, None); tag]                                   (* inc *)
  | 1 => [("x"%string, None); tag]                                   (* pair *)
  | 2 => [("x"%string, None); tag]                                   (* mk *)
  | 3 => [("x"%string, None); ("y"%string, Some (VInt 5)); tag]      (* add2 *)
  | 4 => [("c"%string, None); tag]                                   (* sumc *)
  | 5 => [("x"%string, None); tag]                                   (* pick *)
  | 6 => [("x"%string, None); tag]                                   (* boom *)
  | 7 => [("e"%string, None)]                                        (* rec *)
  | 8 => [("x"%string, None); tag]                                   (* kboom *)
  | 9 => [("e"%string, None); ("bonus"%string, Some (VInt 3))]       (* rec2 *)
  | _ => []
  end.

Fixpoint defaults_from (i npos : nat) (given : list string) (sg : list (string * option val))
  : list (string * val) :=
  match sg with
  | [] => []
  | (n, d) :: r =>
      let rest := defaults_from (S i) npos given r in
      if Nat.ltb i npos then rest
      else if mem n given then rest
      else match d with Some v => (n, v) :: rest | None => rest end
  end.

Fixpoint bind (i : nat) (sg : list (string * option val)) (pos : list val) (kw : list (string * val))
  : option (list val) :=
  match sg with
  | [] => Some []
  | (n, _) :: r =>
      match nth_error pos i with
      | Some v => option_map (cons v) (bind (S i) r pos kw)
      | None => match assoc n kw with
                | Some v => option_map (cons v) (bind (S i) r pos kw)
                | None => None
                end
      end
  end.

Fixpoint vsum (v : val) : Z :=
  match v with
  | VInt z => z
  | VCons _ x r => (vsum x + vsum r)%Z
  | _ => 0%Z
  end.

Definition type_error : val := VErr 2 0.

Definition c_run (t : nat) (pos : list val) (kw : list (string * val)) : res :=
  match bind 0 (sig_of t) pos kw with
  | None => Raise type_error
  | Some bs =>
      match t, bs with
      | 0, [VInt x; _] => Ok (VInt (x + 1))
      | 1, [VInt x; _] => Ok (VCons None (VInt x) (VCons None (VInt (x * 2)) VNil))
      | 2, [VInt x; _] =>
          Ok (VCons (Some "k"%string) (VInt x)
                (VCons (Some "m"%string) (VCons None (VInt x) (VCons None (VInt 7) VNil)) VNil))
      | 3, [VInt x; VInt y; _] => Ok (VInt (x + y))
      | 4, [c; _] => Ok (VInt (vsum c))
      | 5, [VInt x; _] => Ok (VInt (x mod 2))
      | 6, [VInt x; VInt tag] => Raise (VErr 0 (x * 1000 + tag))
      | 7, [VErr _ p] => Ok (VInt (100 + p mod 1000))
      | 8, [VInt x; VInt tag] => Raise (VErr 1 (x * 1000 + tag))
      | 9, [VErr _ p; VInt b] => Ok (VInt (p mod 1000 + b))
      | _, _ => Raise type_error
      end
  end.

Fixpoint vnth (v : val) (i : nat) : option val :=
  match v, i with
  | VCons None x _, O => Some x
  | VCons None _ r, S j => vnth r j
  | _, _ => None
  end.

Fixpoint vget (v : val) (k : string) : option val :=
  match v with
  | VCons (Some j) x r => if String.eqb k j then Some x else vget r k
  | _ => None
  end.

Definition c_op (o : nat) (vs : list val) : res :=
  match o, vs with
  | 0, [VInt a; VInt b] => Ok (VInt (a + b))                 (* add / radd *)
  | 1, [VInt a; VInt b] => Ok (VInt (a * b))                 (* mul / rmul *)
  | 2, [c; VInt i] => match vnth c (Z.to_nat i) with Some v => Ok v | None => Raise type_error end
  | 2, [c; VStr k] => match vget c k with Some v => Ok v | None => Raise type_error end
  | _, _ => Raise type_error
  end.

Definition c_truthy (v : val) : bool :=
  match v with
  | VInt z => negb (Z.eqb z 0)
  | VStr s => negb (String.eqb s "")
  | VNil => false
  | _ => true
  end.

Definition c_matches (cls : nat) (err : val) : bool :=
  match err with
  | VErr c _ => match cls with
                | 0 => Nat.eqb c 0                       (* ValueError *)
                | 1 => Nat.eqb c 1                       (* KeyError *)
                | _ => Nat.eqb c 0 || Nat.eqb c 1        (* (ValueError, KeyError) *)
                end
  | _ => false
  end.

Definition cw : world := {|
  w_run := c_run;
  w_defaults := fun t npos given => defaults_from 0 npos given (sig_of t);
  w_op := c_op;
  w_truthy := c_truthy;
  w_matches := c_matches;
  w_index_error := VErr 3 0
|}.

(* ------------------------------------------------------------------ comparison helpers for the harness *)
(** A row as read from the database: position, key, value, upstream call keys. *)
Definition drow : Type := (option nat * option string * val * list ckey)%type.

Definition onat_eqb (a b : option nat) : bool :=
  match a, b with None, None => true | Some x, Some y => Nat.eqb x y | _, _ => false end.

Definition seteqb (a b : list ckey) : bool := inclb a b && inclb b a.

(** [early]: the call is a recover call (tasks 7, 9 of [cw]).  catch starts it as soon as one
    argument of its main expression has failed, while sibling arguments may still be running, so
    the links of the error argument the real scheduler records are a subset, depending on timing,
    of the ones the sequential model records (no theorem speaks about them). *)
Definition row_matches (early : bool) (d : drow) (r : row) : bool :=
  match d with
  | (p, k, v, u) => onat_eqb p (r_pos r) && okey_eqb k (r_key r) && val_eqb v (r_val r)
                    && (if early then inclb u (r_ups r) else seteqb u (r_ups r))
  end.

Definition early_call (k : ckey) : bool :=
  match k with (t, _, _) => Nat.eqb t 7 || Nat.eqb t 9 end.

Fixpoint find_call (k : ckey) (l : list callrec) : option callrec :=
  match l with
  | [] => None
  | c :: r => if ckey_eqb k (c_key c) then Some c else find_call k r
  end.

(** Every call found in the database exists in the model with the same rows. *)
Definition db_agrees (db : list (ckey * list drow)) (st : state) : bool :=
  forallb (fun kc => match find_call (fst kc) (s_calls st) with
                     | None => false
                     | Some c => Nat.eqb (List.length (snd kc)) (List.length (c_rows c))
                                 && forallb (fun d => existsb (row_matches (early_call (fst kc)) d) (c_rows c)) (snd kc)
                     end) db.

Definition res_eqb (a b : res) : bool :=
  match a, b with
  | Ok x, Ok y => val_eqb x y
  | Raise x, Raise y => val_eqb x y
  | _, _ => false
  end.

Fixpoint exp_agrees (exp : list (option res)) (got : list res) : bool :=
  match exp, got with
  | [], [] => true
  | None :: e', _ :: g' => exp_agrees e' g'
  | Some x :: e', y :: g' => res_eqb x y && exp_agrees e' g'
  | _, _ => false
  end.

(** One correspondence case: programs run in order on one backend; expected results of the runs
    ([None]: not compared), the database rows afterwards, and (strict) the number of calls. *)
Definition case_ok (V : variant) (ps : list expr) (exp : list (option res))
           (db : list (ckey * list drow)) (ncalls : option nat) : bool :=
  let st := run_all cw V ps empty_state in
  exp_agrees exp (results cw V ps empty_state)
  && db_agrees db st
  && match ncalls with None => true | Some n => Nat.eqb n (List.length (s_calls st)) end.
