(** C10 — the JobArrayer counter that the AWS Batch / K8S / GCP Batch monitor loops read.

    Executable model, no proofs.  The monitor's exit condition is
        while self.is_running and (self.pending_jobs or self.arrayer.num_pending)
    so the update discipline of [num_pending] (redun/job_array.py) belongs to the protocol:
      - scheduler thread, [add_job]:  with self._lock: pending[descr].append(job); num_pending += 1
      - arrayer thread, [submit_pending_jobs]:  with self._lock: jobs = pending.pop(descr)
                                               self._submit_jobs(jobs)      (-> executor pending map)
                                               num_pending -= len(jobs)     (locked, or as read; store)
      - monitor thread: polls the pending map (the fake completes every job) and leaves -
        stop() also stops the arrayer thread - as soon as the map is empty and num_pending == 0.
    Variant [counter_locked]: whether the decrement is inside [with self._lock:] (atomic with respect
    to add_job) or an unprotected read-modify-write (two steps; CPython can switch threads at the
    [len(jobs)] call between the read and the store).  All jobs share one JobDescription. *)
From Coq Require Import List Bool Arith ZArith.
Import ListNotations.
Open Scope list_scope.

Definition job := nat.

Record acfg := { counter_locked : bool }.
Definition arr_locked : acfg := {| counter_locked := true |}.
Definition arr_unlocked : acfg := {| counter_locked := false |}.

Inductive apc :=
| AIdle                          (* waiting / looking for stale descriptions *)
| ASubmit (b : list job)         (* popped b under the lock; before self._submit_jobs(b) *)
| ADec (b : list job)            (* submitted b; before the num_pending statement *)
| AStore (b : list job) (r : Z). (* unlocked only: num_pending was read as r; before the store *)

Record ast := {
  a_todo : list job;       (* scheduler thread: jobs still to submit *)
  a_held : list job;       (* arrayer.pending *)
  a_num : Z;               (* arrayer.num_pending *)
  a_pc : apc;              (* arrayer thread *)
  a_tracked : list job;    (* executor pending map *)
  a_reported : list job;
  a_stopped : bool         (* the monitor has left its loop and stopped the arrayer *)
}.

Definition ainit (js : list job) : ast :=
  {| a_todo := js; a_held := []; a_num := 0%Z; a_pc := AIdle; a_tracked := []; a_reported := [];
     a_stopped := false |}.

Inductive aact := XAdd | XArr | XPoll | XExit.

Definition zlen (l : list job) : Z := Z.of_nat (length l).

Definition astep (c : acfg) (s : ast) (a : aact) : option ast :=
  if a_stopped s then None else
  match a with
  | XAdd =>
      match a_todo s with
      | [] => None
      | j :: r => Some {| a_todo := r; a_held := a_held s ++ [j]; a_num := (a_num s + 1)%Z; a_pc := a_pc s;
                          a_tracked := a_tracked s; a_reported := a_reported s; a_stopped := false |}
      end
  | XArr =>
      match a_pc s with
      | AIdle =>
          match a_held s with
          | [] => None
          | b => Some {| a_todo := a_todo s; a_held := []; a_num := a_num s; a_pc := ASubmit b;
                         a_tracked := a_tracked s; a_reported := a_reported s; a_stopped := false |}
          end
      | ASubmit b =>
          Some {| a_todo := a_todo s; a_held := a_held s; a_num := a_num s; a_pc := ADec b;
                  a_tracked := a_tracked s ++ b; a_reported := a_reported s; a_stopped := false |}
      | ADec b =>
          if counter_locked c
          then Some {| a_todo := a_todo s; a_held := a_held s; a_num := (a_num s - zlen b)%Z; a_pc := AIdle;
                       a_tracked := a_tracked s; a_reported := a_reported s; a_stopped := false |}
          else Some {| a_todo := a_todo s; a_held := a_held s; a_num := a_num s; a_pc := AStore b (a_num s);
                       a_tracked := a_tracked s; a_reported := a_reported s; a_stopped := false |}
      | AStore b r =>
          Some {| a_todo := a_todo s; a_held := a_held s; a_num := (r - zlen b)%Z; a_pc := AIdle;
                  a_tracked := a_tracked s; a_reported := a_reported s; a_stopped := false |}
      end
  | XPoll =>
      match a_tracked s with
      | [] => None
      | t => Some {| a_todo := a_todo s; a_held := a_held s; a_num := a_num s; a_pc := a_pc s;
                     a_tracked := []; a_reported := a_reported s ++ t; a_stopped := false |}
      end
  | XExit =>
      match a_tracked s with
      | [] => if Z.eqb (a_num s) 0
              then Some {| a_todo := a_todo s; a_held := a_held s; a_num := a_num s; a_pc := a_pc s;
                           a_tracked := []; a_reported := a_reported s; a_stopped := true |}
              else None
      | _ => None
      end
  end.

Fixpoint arun (c : acfg) (s : ast) (sch : list aact) : option ast :=
  match sch with
  | [] => Some s
  | a :: r => match astep c s a with None => None | Some s' => arun c s' r end
  end.

(** Jobs the arrayer thread has popped and not yet accounted for. *)
Definition inflight (p : apc) : list job :=
  match p with AIdle => [] | ASubmit b | ADec b | AStore b _ => b end.

(** The lost update: job 0 is being accounted for (num_pending read as 1) when job 1 is added. *)
Definition witness_counter : list aact :=
  [XAdd; XArr; XArr; XArr; XAdd; XArr; XPoll; XExit].
