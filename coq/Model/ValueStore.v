(** C31 — executable model of value recording / reading with a value store and FileCache.

    Anchors: redun/backends/db/__init__.py  RedunBackendDb.record_value, _get_value_data,
    _get_value, _deserialize_value, get_value, Value.in_value_store;
    redun/backends/value_store.py ValueStore.put/get/has/get_value_path;
    redun/value.py ProxyValue.get_hash/serialize, Value.deserialize, FileCache.serialize/deserialize,
    TypeRegistry.deserialize.

    No proofs in this file.  The code shape that the translator re-extracts is [vs_code]; the
    theorems are about [shipped].  The run-time configuration ([backend] section of redun.ini)
    is [conf].  Python exceptions are result constructors. *)
From Coq Require Import List ZArith Bool Ascii.
From RV Require Import Base.Decimal Base.Lit.
Import ListNotations.
Open Scope list_scope.

(* ------------------------------------------------------------------ code shape *)
Inductive measure := MLen | MGetsizeof.            (* len(data) | sys.getsizeof(data) *)
Inductive cmp := CGt | CGe | CLt | CLe | CEq | CNe.

Record vs_code := {
  (* record_value: `if len(data) > self._max_value_size: raise RedunDatabaseError` *)
  max_measure : measure; max_cmp : cmp;
  (* record_value: `if self.value_store and sys.getsizeof(data) >= self.value_store_min_size:` *)
  off_measure : measure; off_cmp : cmp;
  (* ... `self.value_store.put(value_hash, data); data = b""` : what the row keeps instead *)
  placeholder : bytes;
  (* Value.in_value_store: `len(self.value) == 0` *)
  in_store_cmp : cmp; in_store_len : Z;
  (* ValueStore.put: `if self.has(value_hash): return` *)
  put_skips_existing : bool;
  (* ValueStore.get: `except FileNotFoundError: return b"", False` and
     _get_value: `if not has_value: return None, False` *)
  missing_is_absent : bool;
  (* record_value: `if value_row: return value_hash` (an existing row is left alone) *)
  existing_row_kept : bool;
  (* CPython: sys.getsizeof(b) - len(b) for bytes objects *)
  bytes_overhead : Z
}.

Definition shipped : vs_code := {|
  max_measure := MLen; max_cmp := CGt;
  off_measure := MGetsizeof; off_cmp := CGe;
  placeholder := [];
  in_store_cmp := CEq; in_store_len := 0%Z;
  put_skips_existing := true;
  missing_is_absent := true;
  existing_row_kept := true;
  bytes_overhead := 33%Z
|}.

(* [backend] configuration: value_store_path set?, value_store_min_size, max_value_size *)
Record conf := { has_store : bool; min_size : Z; max_size : Z }.

Definition blen (d : bytes) : Z := Z.of_nat (length d).
Definition meas (cd : vs_code) (m : measure) (d : bytes) : Z :=
  match m with MLen => blen d | MGetsizeof => (blen d + bytes_overhead cd)%Z end.
Definition cmpb (c : cmp) (a b : Z) : bool :=
  match c with
  | CGt => (a >? b)%Z | CGe => (a >=? b)%Z | CLt => (a <? b)%Z | CLe => (a <=? b)%Z
  | CEq => (a =? b)%Z | CNe => negb (a =? b)%Z
  end.

Definition too_large (cd : vs_code) (cf : conf) (d : bytes) : bool :=
  cmpb (max_cmp cd) (meas cd (max_measure cd) d) (max_size cf).
Definition offload (cd : vs_code) (cf : conf) (d : bytes) : bool :=
  has_store cf && cmpb (off_cmp cd) (meas cd (off_measure cd) d) (min_size cf).

(* ------------------------------------------------------------------ finite maps (assoc lists) *)
Fixpoint lookup {A} (k : bytes) (m : list (bytes * A)) : option A :=
  match m with
  | [] => None
  | (k', a) :: r => if bytes_eq k k' then Some a else lookup k r
  end.
(* replace the first binding of k, or append a new one *)
Fixpoint set_kv {A} (k : bytes) (a : A) (m : list (bytes * A)) : list (bytes * A) :=
  match m with
  | [] => [(k, a)]
  | (k', a') :: r => if bytes_eq k k' then (k', a) :: r else (k', a') :: set_kv k a r
  end.
Fixpoint remove_k {A} (k : bytes) (m : list (bytes * A)) : list (bytes * A) :=
  match m with
  | [] => []
  | (k', a') :: r => if bytes_eq k k' then remove_k k r else (k', a') :: remove_k k r
  end.

(* ------------------------------------------------------------------ values *)
(* How a value is hashed / serialized:
   KPlain      : ProxyValue default   — data = pickle, hash = hash_tag_bytes("Value", data)
   KOwn h      : a Value class (or Set) whose get_hash ignores `data` — data = pickle, hash = h
   KFileCache b: FileCache subclass with base_path b — pickle goes to the file
                 os.path.join(b, hash_bytes(pickle)); data = that file name; hash as KPlain *)
Inductive kind := KPlain | KOwn (h : bytes) | KFileCache (base : bytes).
(* which deserialize the row's type name dispatches to *)
Inductive tag := TPickle | TFileCache.
Definition tag_eqb (a b : tag) : bool :=
  match a, b with TPickle, TPickle | TFileCache, TFileCache => true | _, _ => false end.

Record row := { r_tag : tag; r_value : bytes }.
Record state := {
  rows : list (bytes * row);       (* table `value`: value_hash -> (type, value) *)
  store : list (bytes * bytes);    (* value store files: value_hash -> bytes *)
  files : list (bytes * bytes)     (* FileCache files: path -> bytes *)
}.
Definition init : state := {| rows := []; store := []; files := [] |}.

Definition slash : ascii := ascii_of_N 47.
(* os.path.join(base, name) for a relative, non-empty-or-empty [name] (posix) *)
Definition join_path (base name : bytes) : bytes :=
  match name with
  | c :: _ => if Ascii.eqb c slash then name else
      match base with
      | [] => name
      | _ => if Ascii.eqb (last base slash) slash then base ++ name else base ++ slash :: name
      end
  | [] => match base with
          | [] => []
          | _ => if Ascii.eqb (last base slash) slash then base else base ++ [slash]
          end
  end.

Inductive result (V : Type) :=
| RHash (h : bytes)         (* record_value returned value_hash *)
| RTooLarge                 (* RedunDatabaseError *)
| RValue (v : V)            (* get_value -> (v, True) *)
| RAbsent                   (* get_value -> (None, False) *)
| RAssert                   (* AssertionError("ValueStore is not defined.") *)
| RUnpickleError            (* pickle_loads raised *)
| RUnit.
Arguments RHash {V}. Arguments RTooLarge {V}. Arguments RValue {V}. Arguments RAbsent {V}.
Arguments RAssert {V}. Arguments RUnpickleError {V}. Arguments RUnit {V}.

Inductive event (V : Type) :=
| ERecord (v : V)             (* backend.record_value(v) *)
| EGet (h : bytes)            (* backend.get_value(h) *)
| ELoseStored (h : bytes)     (* the value store file of h disappears *)
| ELoseFile (p : bytes).      (* a FileCache file disappears *)
Arguments ERecord {V}. Arguments EGet {V}. Arguments ELoseStored {V}. Arguments ELoseFile {V}.

Section Model.
  Variable V : Type.
  Variable pickle : V -> bytes.              (* pickle_dumps *)
  Variable unpickle : bytes -> option V.     (* pickle_loads; None = raises *)
  Variable kind_of : V -> kind.
  Variable H : bytes -> bytes.               (* hash_tag_bytes("Value", .) *)
  Variable Hb : bytes -> bytes.              (* hash_bytes(.) (hex text) *)

  Definition fc_path (base : bytes) (v : V) : bytes := join_path base (Hb (pickle v)).

  (* value_interface.serialize(): returned bytes ... *)
  Definition ser_data (v : V) : bytes :=
    match kind_of v with KFileCache b => fc_path b v | _ => pickle v end.
  (* ... and its side effect (FileCache.serialize writes the file, overwriting) *)
  Definition ser_files (v : V) (fs : list (bytes * bytes)) : list (bytes * bytes) :=
    match kind_of v with KFileCache b => set_kv (fc_path b v) (pickle v) fs | _ => fs end.
  (* value_interface.get_hash(data=data) *)
  Definition rhash (v : V) : bytes :=
    match kind_of v with KOwn h => h | _ => H (ser_data v) end.
  Definition tag_of (v : V) : tag :=
    match kind_of v with KFileCache _ => TFileCache | _ => TPickle end.

  Definition store_put (cd : vs_code) (h d : bytes) (st : list (bytes * bytes)) :=
    if put_skips_existing cd then
      match lookup h st with Some _ => st | None => set_kv h d st end
    else set_kv h d st.

  Definition in_value_store (cd : vs_code) (r : row) : bool :=
    cmpb (in_store_cmp cd) (blen (r_value r)) (in_store_len cd).

  (* RedunBackendDb.record_value(value) (data=None) *)
  Definition record (cd : vs_code) (cf : conf) (s : state) (v : V) : state * result V :=
    let data := ser_data v in
    let fs := ser_files v (files s) in
    if too_large cd cf data then ({| rows := rows s; store := store s; files := fs |}, RTooLarge)
    else
      let h := rhash v in
      let offl := offload cd cf data in
      let st := if offl then store_put cd h data (store s) else store s in
      let rowdata := if offl then placeholder cd else data in
      let new := {| r_tag := tag_of v; r_value := rowdata |} in
      let rws := match lookup h (rows s) with
                 | Some _ => if existing_row_kept cd then rows s else set_kv h new (rows s)
                 | None => set_kv h new (rows s)
                 end in
      ({| rows := rws; store := st; files := fs |}, RHash h).

  (* type_registry.deserialize(type_name, data) via _deserialize_value *)
  Definition deserialize (t : tag) (d : bytes) (fs : list (bytes * bytes)) : result V :=
    match t with
    | TPickle => match unpickle d with Some v => RValue v | None => RUnpickleError end
    | TFileCache =>
        match lookup d fs with
        | None => RAbsent                       (* InvalidValueError -> (None, False) *)
        | Some c => match unpickle c with Some v => RValue v | None => RUnpickleError end
        end
    end.

  (* RedunBackendDb.get_value(value_hash) *)
  Definition get (cd : vs_code) (cf : conf) (s : state) (h : bytes) : result V :=
    match lookup h (rows s) with
    | None => RAbsent
    | Some r =>
        if in_value_store cd r then
          if has_store cf then
            match lookup h (store s) with
            | Some d => deserialize (r_tag r) d (files s)
            | None => if missing_is_absent cd then RAbsent else deserialize (r_tag r) [] (files s)
            end
          else RAssert
        else deserialize (r_tag r) (r_value r) (files s)
    end.

  Definition step (cd : vs_code) (cf : conf) (s : state) (e : event V) : state * result V :=
    match e with
    | ERecord v => record cd cf s v
    | EGet h => (s, get cd cf s h)
    | ELoseStored h => ({| rows := rows s; store := remove_k h (store s); files := files s |}, RUnit)
    | ELoseFile p => ({| rows := rows s; store := store s; files := remove_k p (files s) |}, RUnit)
    end.

  Fixpoint run (cd : vs_code) (cf : conf) (evs : list (event V)) (s : state) : state :=
    match evs with
    | [] => s
    | e :: r => run cd cf r (fst (step cd cf s e))
    end.

  (* the same, keeping every result (used by the correspondence run) *)
  Fixpoint trace (cd : vs_code) (cf : conf) (evs : list (event V)) (s : state) : state * list (result V) :=
    match evs with
    | [] => (s, [])
    | e :: r => let '(s1, x) := step cd cf s e in
                let '(s2, xs) := trace cd cf r s1 in (s2, x :: xs)
    end.
End Model.

(* ------------------------------------------------------------------ table instance
   Used by the correspondence run (and the examples): values are indices into a table of
   (kind, pickle bytes); the hash functions are finite tables computed by the real code. *)
Definition tbl_pickle (t : list (kind * bytes)) (i : nat) : bytes := snd (nth i t (KPlain, [])).
Definition tbl_kind (t : list (kind * bytes)) (i : nat) : kind := fst (nth i t (KPlain, [])).
Fixpoint tbl_find (d : bytes) (t : list (kind * bytes)) (i : nat) : option nat :=
  match t with
  | [] => None
  | (_, p) :: r => if bytes_eq d p then Some i else tbl_find d r (S i)
  end.
Definition tbl_unpickle (t : list (kind * bytes)) (d : bytes) : option nat := tbl_find d t 0.
Definition tbl_hash (ht : list (bytes * bytes)) (d : bytes) : bytes :=
  match lookup d ht with Some h => h | None => [] end.

Definition result_eqb (a b : result nat) : bool :=
  match a, b with
  | RHash x, RHash y => bytes_eq x y
  | RTooLarge, RTooLarge | RAbsent, RAbsent | RAssert, RAssert
  | RUnpickleError, RUnpickleError | RUnit, RUnit => true
  | RValue x, RValue y => Nat.eqb x y
  | _, _ => false
  end.
Definition row_eqb (a b : bytes * row) : bool :=
  bytes_eq (fst a) (fst b) && tag_eqb (r_tag (snd a)) (r_tag (snd b)) && bytes_eq (r_value (snd a)) (r_value (snd b)).
Definition kv_eqb (a b : bytes * bytes) : bool := bytes_eq (fst a) (fst b) && bytes_eq (snd a) (snd b).

(* is every binding of a also the binding of b, and conversely (maps are compared as sets of
   bindings; the real side lists rows / files in its own order) *)
Definition submap {A} (eqb : bytes * A -> bytes * A -> bool) (a b : list (bytes * A)) : bool :=
  forallb (fun x => existsb (eqb x) b) a.
Definition map_eqb {A} (eqb : bytes * A -> bytes * A -> bool) (a b : list (bytes * A)) : bool :=
  submap eqb a b && submap eqb b a && Nat.eqb (length a) (length b).

(* one correspondence case: history under one configuration, expected results and final state *)
Definition case_ok (cd : vs_code) (cf : conf) (t : list (kind * bytes)) (ht hbt : list (bytes * bytes))
    (evs : list (event nat)) (exp : list (result nat))
    (erows : list (bytes * row)) (estore efiles : list (bytes * bytes)) : bool :=
  let '(s, rs) := trace nat (tbl_pickle t) (tbl_unpickle t) (tbl_kind t) (tbl_hash ht) (tbl_hash hbt)
                        cd cf evs init in
  list_eq result_eqb rs exp && map_eqb row_eqb (rows s) erows && map_eqb kv_eqb (store s) estore
  && map_eqb kv_eqb (files s) efiles.
