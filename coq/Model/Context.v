(** Model of redun's context machinery (C26). Executable definitions only, no proofs.

    Sources modelled:
      redun/utils.py    merge_dicts            -> [merge_fuel] / [merge]
      redun/context.py  get_context_value      -> [get_context_value]
      redun/task.py     Task.update_context    -> [override]
      redun/scheduler.py Job.get_context       -> [job_context]
      redun/scheduler.py Scheduler.run (root)  -> [exec_context]

    Values: a context is a JSON-like nest of mappings with [str] keys.  Everything that is not
    a [dict] is an opaque atom for this code (lists are never merged or indexed).  A Python
    dict has no duplicate keys: [wfb].  Keys are the UTF-8 bytes of the [str] key ('.' is ASCII,
    so splitting the path commutes with encoding). *)
From Coq Require Import List ZArith Ascii Bool.
From RV Require Import Base.Decimal Base.Lit.
Import ListNotations.
Open Scope list_scope.

Definition key := bytes.
Definition keqb (a b : key) : bool := bytes_eq a b.

Inductive atom :=
| AInt (z : Z)
| AStr (s : bytes)
| ANone
| ABool (b : bool)
| AOther (repr : bytes).   (* any other non-dict value (list, float, ...), identified by its repr *)

Inductive value :=
| VAtom (a : atom)
| VDict (kvs : list (key * value)).   (* insertion order *)

Definition is_dict (v : value) : bool := match v with VDict _ => true | VAtom _ => false end.

Fixpoint lookup {A} (k : key) (l : list (key * A)) : option A :=
  match l with
  | [] => None
  | (k', v) :: r => if keqb k k' then Some v else lookup k r
  end.

Definition has_key {A} (k : key) (l : list (key * A)) : bool :=
  match lookup k l with Some _ => true | None => false end.

Fixpoint mem_key (k : key) (ks : list key) : bool :=
  match ks with [] => false | k' :: r => keqb k k' || mem_key k r end.

Fixpoint nodup_keys (ks : list key) : bool :=
  match ks with [] => true | k :: r => negb (mem_key k r) && nodup_keys r end.

(** Well-formed = what a Python dict can be: no duplicate keys, at any depth. *)
Fixpoint wfb (v : value) : bool :=
  match v with
  | VAtom _ => true
  | VDict kvs =>
      nodup_keys (map fst kvs) &&
      (fix go (l : list (key * value)) : bool :=
         match l with [] => true | (_, x) :: r => wfb x && go r end) kvs
  end.

Fixpoint depth (v : value) : nat :=
  match v with
  | VAtom _ => 0
  | VDict kvs =>
      S ((fix go (l : list (key * value)) : nat :=
            match l with [] => 0 | (_, x) :: r => Nat.max (depth x) (go r) end) kvs)
  end.

Definition depth_list (ds : list value) : nat := fold_right (fun d m => Nat.max (depth d) m) 0 ds.

(** * The documented meaning: right-biased deep merge  a (+) b
    both mappings: keys of [a] (in order) then the new keys of [b]; a key present in both gets
    the merge of the two values; otherwise the later value [b] wins outright. *)
Fixpoint dmerge (a b : value) {struct a} : value :=
  match a, b with
  | VDict la, VDict lb =>
      VDict ((fix go (l : list (key * value)) : list (key * value) :=
                match l with
                | [] => []
                | (k, x) :: r =>
                    (k, match lookup k lb with Some y => dmerge x y | None => x end) :: go r
                end) la
             ++ filter (fun kv => negb (has_key (fst kv) la)) lb)
  | _, _ => b
  end.

Definition empty_dict : value := VDict [].

(** d1 (+) d2 (+) ... (+) dn, left to right ({} (+) d = d) *)
Definition dmerge_all (ds : list value) : value := fold_left dmerge ds empty_dict.

(** * merge_dicts (redun/utils.py) *)
Inductive variant := AsShipped | Fixed.

(** key2values[key].append(value) *)
Fixpoint group_add (g : list (key * list value)) (k : key) (v : value) : list (key * list value) :=
  match g with
  | [] => [(k, [v])]
  | (k', vs) :: g' => if keqb k k' then (k', vs ++ [v]) :: g' else (k', vs) :: group_add g' k v
  end.

Definition group_dict (g : list (key * list value)) (d : value) : list (key * list value) :=
  match d with
  | VDict kvs => fold_left (fun g kv => group_add g (fst kv) (snd kv)) kvs g
  | VAtom _ => g
  end.

Definition group (ds : list value) : list (key * list value) := fold_left group_dict ds [].

(** the longest suffix that consists of dicts only (what follows the last non-dict) *)
Fixpoint after_last_nondict (ds : list value) : list value :=
  match ds with
  | [] => []
  | d :: r => if forallb is_dict ds then ds else after_last_nondict r
  end.

Fixpoint map_opt {A B} (f : A -> option B) (l : list A) : option (list B) :=
  match l with
  | [] => Some []
  | x :: r => match f x, map_opt f r with Some y, Some ys => Some (y :: ys) | _, _ => None end
  end.

(** [None] = out of fuel (never happens with fuel > nesting depth, see Proofs).
    AsShipped: if any value is not a dict, the last value wins outright.
    Fixed    : a non-dict value replaces what precedes it; the dicts after the last non-dict are
               still merged with each other. *)
Fixpoint merge_fuel (v : variant) (n : nat) (ds : list value) : option value :=
  match n with
  | O => None
  | S n' =>
      let grouped (l : list value) :=
        option_map VDict
          (map_opt (fun g => option_map (pair (fst g)) (merge_fuel v n' (snd g))) (group l)) in
      match ds with
      | [d] => Some d
      | _ =>
          if forallb is_dict ds then grouped ds
          else match v with
               | AsShipped => Some (last ds empty_dict)
               | Fixed =>
                   match after_last_nondict ds with
                   | [] => Some (last ds empty_dict)
                   | [d] => Some d
                   | tl => grouped tl
                   end
               end
      end
  end.

Definition merge (v : variant) (ds : list value) : option value :=
  merge_fuel v (S (depth_list ds)) ds.

(** * get_context_value (redun/context.py) *)
(** Python [s.split(sep)] for a one-character separator: never empty. *)
Fixpoint split_on (sep : ascii) (s : bytes) : list bytes :=
  match s with
  | [] => [[]]
  | c :: r =>
      if Ascii.eqb c sep then [] :: split_on sep r
      else match split_on sep r with
           | p :: ps => (c :: p) :: ps
           | [] => [[c]]
           end
  end.

Definition dot : ascii := ascii_of_N 46.

Fixpoint get_path (v : value) (parts : list key) (default : value) : value :=
  match parts with
  | [] => v
  | p :: r =>
      match v with
      | VDict kvs => match lookup p kvs with Some x => get_path x r default | None => default end
      | VAtom _ => default
      end
  end.

Definition get_context_value (ctx : value) (path : bytes) (default : value) : value :=
  get_path ctx (split_on dot path) default.

(** * Task.update_context, Job.get_context, Scheduler.run *)
Record uc_call := { uc_ctx : value; uc_kw : value }.   (* t.update_context(ctx, **kw) *)

(** how update_context combines (previous override, context, kwargs); extracted by the translator *)
Inductive uc_plan := UPrev | UCtx | UKw | UMerge (args : list uc_plan).

Fixpoint eval_plan (v : variant) (prev c k : value) (p : uc_plan) {struct p} : option value :=
  match p with
  | UPrev => Some prev
  | UCtx => Some c
  | UKw => Some k
  | UMerge args =>
      match (fix go (l : list uc_plan) : option (list value) :=
               match l with
               | [] => Some []
               | a :: r => match eval_plan v prev c k a, go r with
                           | Some x, Some xs => Some (x :: xs) | _, _ => None end
               end) args with
      | Some vals => merge v vals
      | None => None
      end
  end.

Record ctx_cfg := {
  merge_variant : variant;
  update_plan : uc_plan;           (* Task.update_context *)
  job_parent_first : bool;         (* Job.get_context: merge_dicts([parent_context, context_override]) *)
  run_config_first : bool;         (* Scheduler.run: merge_dicts([self._context, context]) *)
  clear_keeps_parent : bool        (* Job.clear() (resolve/reject) does not reset self.parent_job *)
}.

Definition shipped : ctx_cfg :=
  {| merge_variant := AsShipped; update_plan := UMerge [UPrev; UCtx; UKw];
     job_parent_first := true; run_config_first := true;
     clear_keeps_parent := true |}.
(** repair in merge_dicts *)
Definition fixed : ctx_cfg :=
  {| merge_variant := Fixed; update_plan := UMerge [UPrev; UCtx; UKw];
     job_parent_first := true; run_config_first := true;
     clear_keeps_parent := true |}.
(** alternative repair in Task.update_context: two binary merges *)
Definition fixed_uc : ctx_cfg :=
  {| merge_variant := AsShipped; update_plan := UMerge [UMerge [UPrev; UCtx]; UKw];
     job_parent_first := true; run_config_first := true;
     clear_keeps_parent := true |}.

Definition step_override (c : ctx_cfg) (prev : option value) (u : uc_call) : option value :=
  match prev with
  | None => None
  | Some p => eval_plan (merge_variant c) p (uc_ctx u) (uc_kw u) (update_plan c)
  end.

(** the `_context_override` option of a call  t.update_context(..)...update_context(..)(args);
    no update_context at all: the default {} *)
Definition override (c : ctx_cfg) (calls : list uc_call) : option value :=
  fold_left (step_override c) calls (Some empty_dict).

Definition pair_order (first_is_a : bool) (a b : value) : list value :=
  if first_is_a then [a; b] else [b; a].

Definition job_step (c : ctx_cfg) (parent : value) (calls : list uc_call) : option value :=
  match override c calls with
  | None => None
  | Some o => merge (merge_variant c) (pair_order (job_parent_first c) parent o)
  end.

(** context of the job reached from the execution context through the calls on [path]
    (outermost first) *)
Definition job_context (c : ctx_cfg) (root : value) (path : list (list uc_call)) : option value :=
  fold_left (fun acc calls => match acc with None => None | Some p => job_step c p calls end)
            path (Some root).

(** Contexts computed late.  Job.clear() (called when a job is resolved or rejected) drops the
    job's memoised context; Job.get_context() then recomputes it from [self.parent_job].  A job
    created under an already concluded parent (fork_thread, a parent rejected by another child
    while a cond/seq is still pending) therefore sees a recomputed parent context.
    [rev_path]: the job first, then its parent, grand-parent, ...; the flag of an ancestor says
    that it had concluded when the job below it asked for its context (so the ancestor's context
    is recomputed after clear(): if clear() dropped the parent link, from the execution context). *)
Fixpoint late_context (c : ctx_cfg) (root : value) (rev_path : list (bool * list uc_call)) : option value :=
  match rev_path with
  | [] => Some root
  | (concluded, calls) :: ancestors =>
      match (if concluded && negb (clear_keeps_parent c) then Some root
             else late_context c root ancestors) with
      | None => None
      | Some p => job_step c p calls
      end
  end.

Definition exec_context (c : ctx_cfg) (configured run_arg : value) : option value :=
  merge (merge_variant c) (pair_order (run_config_first c) configured run_arg).

(** A job tree: each job was called through [calls], evaluates [gets] (path, default) with
    get_context and calls [kids]. [run_tree] = all get_context results, preorder. *)
Inductive jtree := JNode (calls : list uc_call) (gets : list (bytes * value)) (kids : list jtree).

Fixpoint run_tree (c : ctx_cfg) (parent : value) (t : jtree) {struct t} : option (list value) :=
  match t with
  | JNode calls gets kids =>
      match job_step c parent calls with
      | None => None
      | Some ctx =>
          match (fix go (l : list jtree) : option (list value) :=
                   match l with
                   | [] => Some []
                   | k :: r => match run_tree c ctx k, go r with
                               | Some a, Some b => Some (a ++ b) | _, _ => None end
                   end) kids with
          | None => None
          | Some rest =>
              Some (map (fun g => get_context_value ctx (fst g) (snd g)) gets ++ rest)
          end
      end
  end.

Definition run_execution (c : ctx_cfg) (configured run_arg : value) (t : jtree) : option (list value) :=
  match exec_context c configured run_arg with
  | None => None
  | Some root => run_tree c root t
  end.

(** * Equality tests used by generated correspondence cases *)
Definition atom_eqb (a b : atom) : bool :=
  match a, b with
  | AInt x, AInt y => Z.eqb x y
  | AStr x, AStr y => bytes_eq x y
  | ANone, ANone => true
  | ABool x, ABool y => Bool.eqb x y
  | AOther x, AOther y => bytes_eq x y
  | _, _ => false
  end.

(** order-sensitive (insertion order is part of what the model predicts) *)
Fixpoint value_eqb (a b : value) {struct a} : bool :=
  match a, b with
  | VAtom x, VAtom y => atom_eqb x y
  | VDict la, VDict lb =>
      (fix go (l : list (key * value)) (m : list (key * value)) : bool :=
         match l, m with
         | [], [] => true
         | (k, x) :: r, (k', y) :: r' => keqb k k' && value_eqb x y && go r r'
         | _, _ => false
         end) la lb
  | _, _ => false
  end.
