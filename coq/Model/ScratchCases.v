(** C32 — instantiation of the protocol model used by the correspondence run (no proofs).
    Opaque Python values are interned by the harness as integers; the task body is the finite
    table of what the real function did on the argument sets of the case. *)
From Coq Require Import List ZArith NArith Ascii String Bool.
From RV Require Import Base.Decimal Base.Lit Model.Scratch.
Import ListNotations.
Open Scope list_scope.

Definition pb := option (obj Z).          (* None: bytes that do not unpickle *)
Definition dumpZ (o : obj Z) : pb := Some o.
Definition loadZ (b : pb) : option (obj Z) := b.

Definition perr_eqb (a b : perr) : bool :=
  match a, b with
  | EIndex, EIndex | ENoIndexVar, ENoIndexVar | EKeyEnv, EKeyEnv | ELoad, ELoad | EMissing, EMissing
  | EUnpack, EUnpack | EScratch, EScratch | ENotFound, ENotFound | EOutputGone, EOutputGone => true
  | _, _ => false
  end.

Fixpoint obj_eqb (a b : obj Z) : bool :=
  match a, b with
  | Leaf x, Leaf y => Z.eqb x y
  | Seq l, Seq m =>
      (fix go (l m : list (obj Z)) : bool :=
         match l, m with
         | [], [] => true
         | x :: l', y :: m' => obj_eqb x y && go l' m'
         | _, _ => false
         end) l m
  | PErr e, PErr e' => perr_eqb e e'
  | _, _ => false
  end.

Definition blob_eqb (a b : blob pb) : bool :=
  match a, b with
  | BPickle _ x, BPickle _ y => opt_eq obj_eqb x y
  | BJson _ l, BJson _ m => list_eq str_eqb l m
  | BText _ x, BText _ y => str_eqb x y
  | _, _ => false
  end.

Definition run_eqb (a b : run Z) : bool :=
  match a, b with
  | Returned _ x, Returned _ y => obj_eqb x y
  | Raised _ x, Raised _ y => obj_eqb x y
  | Unmodelled _, Unmodelled _ => true
  | _, _ => false
  end.

Definition presult_eqb (a b : presult Z) : bool :=
  match a, b with
  | PRes _ x, PRes _ y => obj_eqb x y
  | PAbsent _, PAbsent _ | PLoadRaises _, PLoadRaises _ => true
  | _, _ => false
  end.

Definition collected_eqb (a b : collected Z) : bool :=
  match a, b with
  | CDone _ x, CDone _ y => obj_eqb x y
  | CReject _ x, CReject _ y => obj_eqb x y
  | CRaises _, CRaises _ | CUnmodelled _, CUnmodelled _ => true
  | _, _ => false
  end.

Definition dict_eqb (a b : dict) : bool :=
  list_eq (fun x y => str_eqb (fst x) (fst y) && str_eqb (snd x) (snd y)) a b.
Definition gres_eqb (a b : gres) : bool :=
  match a, b with
  | GOk x, GOk y => dict_eqb x y
  | GRaise e, GRaise e' => perr_eqb e e'
  | GUnmodelled, GUnmodelled => true
  | _, _ => false
  end.

Definition idx_res_eqb (a b : idx_res) : bool :=
  match a, b with
  | IdxNone, IdxNone | IdxKeyError, IdxKeyError | IdxUnmodelled, IdxUnmodelled => true
  | IdxOk x, IdxOk y => N.eqb x y
  | _, _ => false
  end.

(** same files with the same contents *)
Definition fs_agree (fs expected : fs_t pb) : bool :=
  forallb (fun pb' => opt_eq blob_eqb (fs_read pb fs (fst pb')) (Some (snd pb'))) expected
  && forallb (fun qb => existsb (fun pb' => str_eqb (fst qb) (fst pb')) expected) fs.

Definition table := list (Z * Z * outcome Z).
Fixpoint table_get (t : table) (x y : Z) : outcome Z :=
  match t with
  | [] => Exc Z (Leaf (-1)%Z)
  | (a, b, o) :: r => if (Z.eqb a x && Z.eqb b y)%bool then o else table_get r x y
  end.
Definition f_of (t : table) (a k : obj Z) : outcome Z :=
  match a, k with Leaf x, Leaf y => table_get t x y | _, _ => Exc Z (Leaf (-2)%Z) end.
Definition valid_of (bad : list Z) (o : obj Z) : bool :=
  match o with Leaf x => negb (existsb (Z.eqb x) bad) | _ => true end.
Definition tbZ (_ : obj Z) : obj Z := Leaf 0%Z.

Definition oneshotZ (c : cfg) (t : table) (bad : list Z) := oneshot Z pb dumpZ loadZ (f_of t) (valid_of bad) tbZ c.
Definition oargs_eqb (a b : oargs) : bool :=
  Bool.eqb (a_array a) (a_array b) && opt_eq str_eqb (a_rank_env a) (a_rank_env b)
  && opt_eq str_eqb (a_input a) (a_input b) && opt_eq str_eqb (a_output a) (a_output b)
  && opt_eq str_eqb (a_error a) (a_error b) && Bool.eqb (a_no_cache a) (a_no_cache b).

(** one oneshot run: outcome, resulting files, and what the executor-side readers say afterwards *)
Definition oneshot_case (c : cfg) (t : table) (bad : list Z) (env : env_t) (a : oargs) (fs : fs_t pb)
    (exp_run : run Z) (exp_fs : fs_t pb) (prefix h : str)
    (exp_res : presult Z) (exp_res_valid : presult Z) (exp_err : obj Z) : bool :=
  let '(fs', r) := oneshotZ c t bad env a fs in
  run_eqb r exp_run && fs_agree fs' exp_fs
  && presult_eqb (parse_job_result Z pb loadZ c prefix h None fs') exp_res
  && presult_eqb (parse_job_result Z pb loadZ c prefix h (Some (valid_of bad)) fs') exp_res_valid
  && obj_eqb (parse_job_error Z pb loadZ c prefix h fs') exp_err.

Definition mkjob (h : str) (a k : Z) : job Z := {| j_hash := h; j_args := Leaf a; j_kwargs := Leaf k |}.
