(** Operation-level driver of the recording model, used by the correspondence runs: the harness
    performs the same backend calls on a real RedunBackendDb (with the same commit fates injected)
    and compares outcomes, table dumps and cache lookups.  No proofs. *)
From Coq Require Import List Arith Bool PeanoNat.
From RV Require Import Model.Recording.
Import ListNotations.
Open Scope list_scope.

Inductive bop :=
| OVal (v : nat) (pl : list fate)                       (* backend.record_value(v) *)
| ORcn (c : tree) (sub : list nat) (pl : list fate)     (* backend.record_value(result); backend.record_call_node(...) *)
| ONew                                                  (* a new process opens the database *)
| OImport (roots : list tree).                          (* put_records(get_records(iter_record_ids(roots))) *)

(** outcome of one operation: 0 returned, 1 the process died (exception other than a retried
    OperationalError, retries exhausted, or crash), 2 skipped because no process is alive *)
Definition resolve (g : cfg) (c : tree) (sub : list nat) (s : state) (pl : list fate) : res :=
  bind (record_value_top (c_retries g) (t_res c) s pl) (record_call_node (c_retries g) (c_rcn g) (mkp c sub)).

Definition fin (s : state) (r : res) : state * nat :=
  match r with
  | ROk s' _ => (s', 0)
  | RDied s' => (s', 1)
  | RRaise s' _ => (die s', 1)
  | RFuel => (s, 3)
  end.

Definition bstep (g : cfg) (s : state) (o : bop) : state * nat :=
  match o with
  | ONew => (mkst (com s) db0 0 [] [] true, 0)
  | OImport roots => (step_event g s (EImport roots), 0)
  | OVal v pl => if alive s then fin s (record_value_top (c_retries g) v s pl) else (s, 2)
  | ORcn c sub pl => if alive s then fin s (resolve g c sub s pl) else (s, 2)
  end.

Fixpoint brun (g : cfg) (s : state) (os : list bop) : state * list nat :=
  match os with
  | [] => (s, [])
  | o :: os' => let '(s1, x) := bstep g s o in let '(s2, xs) := brun g s1 os' in (s2, x :: xs)
  end.

(* ---- comparison helpers (sets as lists) *)
Definition pair_eqb {A B} (ea : A -> A -> bool) (eb : B -> B -> bool) (x y : A * B) : bool :=
  ea (fst x) (fst y) && eb (snd x) (snd y).
Definition mem {A} (e : A -> A -> bool) (x : A) (l : list A) : bool := existsb (e x) l.
Definition same_set {A} (e : A -> A -> bool) (a b : list A) : bool :=
  Nat.eqb (length a) (length b) && forallb (fun x => mem e x b) a && forallb (fun x => mem e x a) b.

Record dump := mkdump {
  d_vals : list nat; d_nodes : list tree; d_edges : list (tree * tree * nat);
  d_args : list (tree * nat * nat); d_subs : list (tree * nat) }.

(** [known]: the value hashes the harness knows about (the real database also holds rows the model
    does not have, e.g. the pickled Task objects' subvalues) *)
Definition dump_ok (d : db) (e : dump) : bool :=
  same_set Nat.eqb (vals d) (d_vals e) &&
  same_set tree_eqb (nodes d) (d_nodes e) &&
  same_set (pair_eqb (pair_eqb tree_eqb tree_eqb) Nat.eqb) (edges d) (d_edges e) &&
  same_set (pair_eqb (pair_eqb tree_eqb Nat.eqb) Nat.eqb) (argrows d) (d_args e) &&
  same_set (pair_eqb tree_eqb Nat.eqb) (subs d) (d_subs e).

(** a lookup agrees if the implementation returned nothing and the model has no current node, or the
    implementation returned one of the model's current nodes *)
Definition query_ok (own : bool) (d : db) (q : nat * list nat * list nat) (got : option tree) : bool :=
  let '(t, a, rg) := q in
  match got with
  | None => match current_nodes own d t a rg with [] => true | _ => false end
  | Some c => memt c (current_nodes own d t a rg)
  end.

Definition case_ok (g : cfg) (os : list bop) (outs : list nat) (e : dump)
                   (qs : list (nat * list nat * list nat * option tree)) : bool :=
  let '(s, xs) := brun g st0 os in
  nats_eqb xs outs && dump_ok (com s) e && forallb (fun q => query_ok (c_own g) (com s) (fst q) (snd q)) qs.

(* ---- scheduler-level traces: the harness observes a real Scheduler run and replays it as events;
   the model must predict every job's subtree_tasks and the final CallSubtreeTask table *)
Definition trace_ok (g : cfg) (es : list event) (job_subs : list (list nat)) (e_subs : list (tree * nat)) : bool :=
  let s := run g es in
  Nat.eqb (length (jobs s)) (length job_subs) &&
  forallb (fun p => same_set Nat.eqb (dedup (snd (fst p))) (snd p)) (combine (jobs s) job_subs) &&
  same_set (pair_eqb tree_eqb Nat.eqb) (subs (com s)) e_subs.
