(** Executable model of redun/job_array.py [JobArrayer]: one adder thread (the scheduler
    thread calling [add_job] for a stream of jobs) and the array-monitor thread
    ([_monitor_stale_jobs] -> [get_stale_descrs] / [submit_pending_jobs]).

    Granularity: ONE model step per access to shared state, exactly the events the harness
    records on the real class (lock acquire / blocked acquire / release, every access to
    [pending], [pending_timestamps], [num_pending], every [time.time()], every dict-iterator
    step, every callback invocation, [Event.wait], [Thread.is_alive], thread exit).  Statements
    that touch only thread-local values (slicing, [len], comparisons) are folded into the
    successor program counter.  A schedule is a list of [(thread, clock reading)]; the clock
    reading is used only by the steps that call [time.time()], and nothing is assumed about it
    (not even monotonicity).

    [layout] says which of the two historically unlocked sites run under [self._lock]; it is
    extracted from the source by translate/tr_jobarray.py.  No proofs in this file. *)
From Coq Require Import List ZArith Bool Arith.
Import ListNotations.
Open Scope list_scope.

Record job := mkjob { jid : nat; jd : nat; jscript : bool }.
(* [jd] : the JobDescription (task fullname + sorted options) as an opaque key *)

Record layout := mklayout {
  stale_locked : bool;   (* the comprehension of get_stale_descrs is inside `with self._lock` *)
  cnt_locked : bool      (* `self.num_pending -= len(jobs)` is inside `with self._lock` *)
}.
Definition shipped := mklayout false false.
Definition fixed := mklayout true true.

Record params := mkparams { pmin : nat; pmax : nat; pstale : Z }.

(** JobArrayer.__init__: max is clipped to MAX_ARRAY_SIZE, ValueError when max < min *)
Definition MAX_ARRAY_SIZE : nat := 100 * 100.
Definition init_params (mn mx : nat) (stale : Z) : option params :=
  let mx' := Nat.min mx MAX_ARRAY_SIZE in
  if mx' <? mn then None else Some (mkparams mn mx' stale).

Inductive tid := TA | TM.
Inductive err := ERuntime (* dictionary changed size during iteration *) | EKey (* KeyError *).
Inductive out :=
| OSubmit (t : tid) (batch : list job)     (* self._submit_jobs(batch), called by thread t *)
| OError (e : err).                        (* self._on_error(error) *)

(** adder thread: program counter inside add_job *)
Inductive apc_t :=
| AIdle                      (* next event: direct submit, or acquiring the lock *)
| AGet (j : job)             (* self.pending[descr].append(job)   (defaultdict) *)
| ATime (j : job)            (* time.time() *)
| ATs (j : job) (t : Z)      (* self.pending_timestamps[descr] = t *)
| ARd (j : job)              (* read self.num_pending *)
| AWr (j : job) (r : Z)      (* self.num_pending = r + 1 *)
| AUnlock (j : job)          (* leave `with self._lock` *)
| AStart.                    (* self.start(): self._monitor_thread.is_alive() *)

(** monitor thread *)
Inductive mpc_t :=
| MDead                                            (* no live monitor thread *)
| MWait                                            (* self._exit_flag.wait(timeout) *)
| MTime                                            (* currtime = time.time() *)
| MGLock (cur : Z)                                 (* stale_locked only: with self._lock *)
| MIter (cur : Z)                                  (* iter(self.pending) *)
| MNext (cur : Z) (n pos : nat) (acc : list nat)   (* next(it) *)
| MChk (cur : Z) (n pos : nat) (acc : list nat) (d : nat)   (* self.pending_timestamps[descr] *)
| MGUnlock (stales : list nat)                     (* stale_locked only *)
| SLock (d : nat) (rest : list nat)                (* submit_pending_jobs: with self._lock *)
| SPop1 (d : nat) (rest : list nat)                (* jobs = self.pending.pop(descr) *)
| SPop2 (d : nat) (rest : list nat) (js : list job)         (* self.pending_timestamps.pop *)
| SUnlock (d : nat) (rest : list nat) (js : list job) (t : Z)
| SSubBig (d : nat) (rest : list nat) (sub rem : list job) (t : Z)   (* _submit_jobs(jobs[:max]) *)
| SLock2 (d : nat) (rest : list nat) (cnt : nat) (rem : list job) (t : Z)
| SExt (d : nat) (rest : list nat) (cnt : nat) (rem : list job) (t : Z)  (* pending[descr].extend *)
| STs (d : nat) (rest : list nat) (cnt : nat) (t : Z)       (* pending_timestamps[descr] = timestamp *)
| SUnlock2 (rest : list nat) (cnt : nat)
| SSingle (rest : list nat) (j : job) (more : list job) (cnt : nat)  (* _submit_jobs([job]) *)
| SSubMid (rest : list nat) (js : list job)                 (* _submit_jobs(jobs) *)
| SCLock (rest : list nat) (cnt : nat)                      (* cnt_locked only *)
| SCRd (rest : list nat) (cnt : nat)                        (* read self.num_pending *)
| SCWr (rest : list nat) (cnt : nat) (r : Z)                (* self.num_pending = r - len(jobs) *)
| SCUnlock (rest : list nat)                                (* cnt_locked only *)
| MFailUnlock (e : err)                                     (* `with` exits on the exception *)
| MFail (e : err)                                           (* self._on_error(error) *)
| MExit.                                                    (* thread function returns *)

Record st := mkst {
  pend : list (nat * list job);    (* self.pending, insertion ordered *)
  stamps : list (nat * Z);         (* self.pending_timestamps *)
  npend : Z;                       (* self.num_pending *)
  lock : option tid;               (* self._lock *)
  todo : list job;                 (* jobs the adder has still to pass to add_job *)
  apc : apc_t;
  mpc : mpc_t;
  outs : list out                  (* callback invocations, most recent first *)
}.

Definition init (jobs : list job) : st := mkst [] [] 0%Z None jobs AIdle MDead [].

(** ---- insertion-ordered dict operations ---- *)
Definition keys {V} (l : list (nat * V)) : list nat := map fst l.

Fixpoint lookup {V} (d : nat) (l : list (nat * V)) : option V :=
  match l with
  | [] => None
  | (k, v) :: r => if k =? d then Some v else lookup d r
  end.

(** [self.pending[d]] on a defaultdict(list) followed by append/extend *)
Fixpoint app_at (d : nat) (js : list job) (l : list (nat * list job)) : list (nat * list job) :=
  match l with
  | [] => [(d, js)]
  | (k, v) :: r => if k =? d then (k, v ++ js) :: r else (k, v) :: app_at d js r
  end.

Fixpoint set_at {V} (d : nat) (x : V) (l : list (nat * V)) : list (nat * V) :=
  match l with
  | [] => [(d, x)]
  | (k, v) :: r => if k =? d then (k, x) :: r else (k, v) :: set_at d x r
  end.

Fixpoint pop {V} (d : nat) (l : list (nat * V)) : option (V * list (nat * V)) :=
  match l with
  | [] => None
  | (k, v) :: r =>
      if k =? d then Some (v, r)
      else match pop d r with
           | Some (x, r') => Some (x, (k, v) :: r')
           | None => None
           end
  end.

Definition flat (l : list (nat * list job)) : list job := concat (map snd l).

(** ---- state updates ---- *)
Definition set_apc (s : st) (a : apc_t) : st :=
  mkst (pend s) (stamps s) (npend s) (lock s) (todo s) a (mpc s) (outs s).
Definition set_mpc (s : st) (m : mpc_t) : st :=
  mkst (pend s) (stamps s) (npend s) (lock s) (todo s) (apc s) m (outs s).
Definition set_lock (s : st) (l : option tid) : st :=
  mkst (pend s) (stamps s) (npend s) l (todo s) (apc s) (mpc s) (outs s).
Definition set_pend (s : st) (p : list (nat * list job)) : st :=
  mkst p (stamps s) (npend s) (lock s) (todo s) (apc s) (mpc s) (outs s).
Definition set_stamps (s : st) (p : list (nat * Z)) : st :=
  mkst (pend s) p (npend s) (lock s) (todo s) (apc s) (mpc s) (outs s).
Definition set_npend (s : st) (n : Z) : st :=
  mkst (pend s) (stamps s) n (lock s) (todo s) (apc s) (mpc s) (outs s).
Definition set_todo (s : st) (t : list job) : st :=
  mkst (pend s) (stamps s) (npend s) (lock s) t (apc s) (mpc s) (outs s).
Definition emit (s : st) (o : out) : st :=
  mkst (pend s) (stamps s) (npend s) (lock s) (todo s) (apc s) (mpc s) (o :: outs s).

Definition lock_free (s : st) : bool := match lock s with None => true | Some _ => false end.

(** ---- successor program counters (thread-local control flow) ---- *)
Definition loop_pc (stales : list nat) : mpc_t :=
  match stales with [] => MWait | d :: rest => SLock d rest end.

Definition cnt_pc (L : layout) (rest : list nat) (cnt : nat) : mpc_t :=
  if cnt_locked L then SCLock rest cnt else SCRd rest cnt.

Definition singles_pc (L : layout) (rest : list nat) (js : list job) (cnt : nat) : mpc_t :=
  match js with [] => cnt_pc L rest cnt | j :: more => SSingle rest j more cnt end.

Definition branch_pc (L : layout) (P : params) (d : nat) (rest : list nat) (js : list job) (t : Z) : mpc_t :=
  if pmax P <? length js then SSubBig d rest (firstn (pmax P) js) (skipn (pmax P) js) t
  else if length js <? pmin P then singles_pc L rest js (length js)
  else SSubMid rest js.

Definition after_iter (L : layout) (acc : list nat) : mpc_t :=
  if stale_locked L then MGUnlock acc else loop_pc acc.

(** an exception raised at a site that is inside `with self._lock` (by thread TM) *)
Definition fail_at (locked : bool) (e : err) : mpc_t :=
  if locked then MFailUnlock e else MFail e.

(** ---- the two threads ---- *)
Definition step_adder (P : params) (s : st) (now : Z) : st :=
  match apc s with
  | AIdle =>
      match todo s with
      | [] => s
      | j :: r =>
          if jscript j || (pmin P =? 0) then emit (set_todo s r) (OSubmit TA [j])
          else if lock_free s then set_apc (set_lock (set_todo s r) (Some TA)) (AGet j)
          else s                                           (* blocked on the lock *)
      end
  | AGet j => set_apc (set_pend s (app_at (jd j) [j] (pend s))) (ATime j)
  | ATime j => set_apc s (ATs j now)
  | ATs j t => set_apc (set_stamps s (set_at (jd j) t (stamps s))) (ARd j)
  | ARd j => set_apc s (AWr j (npend s))
  | AWr j r => set_apc (set_npend s (r + 1)%Z) (AUnlock j)
  | AUnlock j => set_apc (set_lock s None) AStart
  | AStart =>
      set_apc (match mpc s with MDead => set_mpc s MWait | _ => s end) AIdle
  end.

Definition acquire (s : st) (next : mpc_t) : st :=
  if lock_free s then set_mpc (set_lock s (Some TM)) next else s.

Definition step_monitor (L : layout) (P : params) (s : st) (now : Z) : st :=
  match mpc s with
  | MDead => s
  | MWait => set_mpc s MTime
  | MTime => set_mpc s (if stale_locked L then MGLock now else MIter now)
  | MGLock cur => acquire s (MIter cur)
  | MIter cur => set_mpc s (MNext cur (length (pend s)) 0 [])
  | MNext cur n pos acc =>
      if negb (length (pend s) =? n) then set_mpc s (fail_at (stale_locked L) ERuntime)
      else match nth_error (keys (pend s)) pos with
           | Some d => set_mpc s (MChk cur n pos acc d)
           | None => set_mpc s (after_iter L acc)
           end
  | MChk cur n pos acc d =>
      match lookup d (stamps s) with
      | None => set_mpc s (fail_at (stale_locked L) EKey)
      | Some t => set_mpc s (MNext cur n (S pos) (if (pstale P <? cur - t)%Z then acc ++ [d] else acc))
      end
  | MGUnlock stales => set_mpc (set_lock s None) (loop_pc stales)
  | SLock d rest => acquire s (SPop1 d rest)
  | SPop1 d rest =>
      match pop d (pend s) with
      | None => set_mpc s (MFailUnlock EKey)
      | Some (js, p') => set_mpc (set_pend s p') (SPop2 d rest js)
      end
  | SPop2 d rest js =>
      match pop d (stamps s) with
      | None => set_mpc s (MFailUnlock EKey)
      | Some (t, p') => set_mpc (set_stamps s p') (SUnlock d rest js t)
      end
  | SUnlock d rest js t => set_mpc (set_lock s None) (branch_pc L P d rest js t)
  | SSubBig d rest sub rem t => set_mpc (emit s (OSubmit TM sub)) (SLock2 d rest (length sub) rem t)
  | SLock2 d rest cnt rem t => acquire s (SExt d rest cnt rem t)
  | SExt d rest cnt rem t => set_mpc (set_pend s (app_at d rem (pend s))) (STs d rest cnt t)
  | STs d rest cnt t => set_mpc (set_stamps s (set_at d t (stamps s))) (SUnlock2 rest cnt)
  | SUnlock2 rest cnt => set_mpc (set_lock s None) (cnt_pc L rest cnt)
  | SSingle rest j more cnt => set_mpc (emit s (OSubmit TM [j])) (singles_pc L rest more cnt)
  | SSubMid rest js => set_mpc (emit s (OSubmit TM js)) (cnt_pc L rest (length js))
  | SCLock rest cnt => acquire s (SCRd rest cnt)
  | SCRd rest cnt => set_mpc s (SCWr rest cnt (npend s))
  | SCWr rest cnt r =>
      set_mpc (set_npend s (r - Z.of_nat cnt)%Z) (if cnt_locked L then SCUnlock rest else loop_pc rest)
  | SCUnlock rest => set_mpc (set_lock s None) (loop_pc rest)
  | MFailUnlock e => set_mpc (set_lock s None) (MFail e)
  | MFail e => set_mpc (emit s (OError e)) MExit
  | MExit => set_mpc s MDead
  end.

Definition op := (tid * Z)%type.

Definition step (L : layout) (P : params) (s : st) (o : op) : st :=
  match fst o with
  | TA => step_adder P s (snd o)
  | TM => step_monitor L P s (snd o)
  end.

Definition run (L : layout) (P : params) (s : st) (sched : list op) : st := fold_left (step L P) sched s.

(** ---- observations ---- *)
Definition submitted (s : st) : list job :=
  concat (map (fun o => match o with OSubmit _ b => b | OError _ => [] end) (outs s)).
Definition errors (s : st) : list err :=
  concat (map (fun o => match o with OError e => [e] | _ => [] end) (outs s)).
Definition batches (s : st) : list (list job) :=
  concat (map (fun o => match o with OSubmit _ b => [b] | OError _ => [] end) (outs s)).

(** activity has stopped: the adder has returned from its last add_job and the monitor sleeps
    in [wait] (or there is no monitor thread) *)
Definition quiescent (s : st) : bool :=
  match todo s, apc s, mpc s with
  | [], AIdle, (MWait | MDead) => true
  | _, _, _ => false
  end.

Definition batch_ok (P : params) (b : list job) : bool :=
  match b with
  | [] => false
  | j :: r =>
      forallb (fun x => jd x =? jd j) r
      && (if pmin P =? 0 then length b =? 1
          else (length b <=? pmax P) && ((length b =? 1) || (pmin P <=? length b)))
  end.

(** ---- labels of the next step of a thread (what the harness records on the real class) ---- *)
Definition label_adder (P : params) (s : st) : nat :=
  match apc s with
  | AIdle => match todo s with
             | [] => 0
             | j :: _ => if jscript j || (pmin P =? 0) then 10 else if lock_free s then 1 else 2
             end
  | AGet _ => 3 | ATime _ => 4 | ATs _ _ => 5 | ARd _ => 6 | AWr _ _ => 7 | AUnlock _ => 8 | AStart => 9
  end.
Definition acq_label (s : st) : nat := if lock_free s then 1 else 2.
Definition label_monitor (s : st) : nat :=
  match mpc s with
  | MDead => 0 | MWait => 11 | MTime => 4 | MGLock _ => acq_label s | MIter _ => 12
  | MNext _ _ _ _ => 13 | MChk _ _ _ _ _ => 14 | MGUnlock _ => 8 | SLock _ _ => acq_label s
  | SPop1 _ _ => 15 | SPop2 _ _ _ => 16 | SUnlock _ _ _ _ => 8 | SSubBig _ _ _ _ _ => 10
  | SLock2 _ _ _ _ _ => acq_label s | SExt _ _ _ _ _ => 3 | STs _ _ _ _ => 5 | SUnlock2 _ _ => 8
  | SSingle _ _ _ _ => 10 | SSubMid _ _ => 10 | SCLock _ _ => acq_label s | SCRd _ _ => 6
  | SCWr _ _ _ => 7 | SCUnlock _ => 8 | MFailUnlock _ => 8 | MFail _ => 17 | MExit => 18
  end.
Definition label (P : params) (s : st) (t : tid) : nat :=
  match t with TA => label_adder P s | TM => label_monitor s end.

Fixpoint run_labels (L : layout) (P : params) (s : st) (sched : list op) : list nat * st :=
  match sched with
  | [] => ([], s)
  | o :: r => let (ls, s') := run_labels L P (step L P s o) r in (label P s (fst o) :: ls, s')
  end.

(** ---- comparison with what the harness observed on the real class ---- *)
Fixpoint nats_eq (a b : list nat) : bool :=
  match a, b with
  | [], [] => true
  | x :: a', y :: b' => (x =? y) && nats_eq a' b'
  | _, _ => false
  end.
Fixpoint natss_eq (a b : list (list nat)) : bool :=
  match a, b with
  | [], [] => true
  | x :: a', y :: b' => nats_eq x y && natss_eq a' b'
  | _, _ => false
  end.
Fixpoint stamps_eq (a b : list (nat * Z)) : bool :=
  match a, b with
  | [], [] => true
  | (k, x) :: a', (k', y) :: b' => (k =? k') && (x =? y)%Z && stamps_eq a' b'
  | _, _ => false
  end.
Definition enc_out (o : out) : list nat :=
  match o with
  | OSubmit TA b => 0 :: map jid b
  | OSubmit TM b => 1 :: map jid b
  | OError ERuntime => [2]
  | OError EKey => [3]
  end.
Definition enc_pend (p : list (nat * list job)) : list (list nat) :=
  map (fun kv => fst kv :: map jid (snd kv)) p.
Definition alive (s : st) : bool := match mpc s with MDead => false | _ => true end.

(** run [sched] from [init jobs]; compare step labels, callback log (oldest first), pending,
    pending_timestamps, num_pending and monitor liveness with the observed values *)
Definition check_case (L : layout) (P : params) (jobs : list job) (sched : list op)
           (labels : list nat) (outs_ : list (list nat)) (pend_ : list (list nat))
           (stamps_ : list (nat * Z)) (npend_ : Z) (alive_ : bool) : bool :=
  let (ls, s) := run_labels L P (init jobs) sched in
  nats_eq ls labels && natss_eq (map enc_out (rev (outs s))) outs_ && natss_eq (enc_pend (pend s)) pend_
  && stamps_eq (stamps s) stamps_ && (npend s =? npend_)%Z && Bool.eqb (alive s) alive_.

(** ---- probes: the access sequence (label, lock held by the thread) of one thread running alone;
    compared by Gen/C11Gen.v with the sequence the translator reads off the source ---- *)
Definition held_by (s : st) (t : tid) : bool :=
  match lock s, t with Some TA, TA => true | Some TM, TM => true | _, _ => false end.

Fixpoint probe (L : layout) (P : params) (t : tid) (fuel : nat) (stop : st -> bool) (s : st)
  : list (nat * bool) :=
  match fuel with
  | 0 => []
  | S f => if stop s then []
           else (label P s t, held_by s t) :: probe L P t f stop (step L P s (t, 0%Z))
  end.

Definition adder_done (s : st) : bool :=
  match todo s, apc s with [], AIdle => true | _, _ => false end.
Definition mon_asleep (s : st) : bool := match mpc s with MWait => true | _ => false end.

(** one add_job call (script job or not), adder alone *)
Definition probe_add (L : layout) (script : bool) : list (nat * bool) :=
  probe L (mkparams 2 3 (-1)) TA 100 adder_done (init [mkjob 0 0 script]).

Fixpoint same_jobs (k : nat) : list job :=
  match k with 0 => [] | S k' => same_jobs k' ++ [mkjob k' 0 false] end.

(** one monitor pass over one stale group of [k] jobs *)
Definition probe_pass (L : layout) (k mn mx : nat) : list (nat * bool) :=
  let P := mkparams mn mx (-1) in
  let s := run L P (init (same_jobs k)) (repeat (TA, 0%Z) (8 * k)) in
  (label P s TM, held_by s TM) :: probe L P TM 200 mon_asleep (step L P s (TM, 0%Z)).
