(** Model of redun's task-option machinery (C27). Executable definitions only, no proofs.

    Sources modelled:
      redun/task.py       task() decorator (export_options=), Task.__init__/_validate (legacy
                          `cache` option, automatic export of `prov`), Task.options,
                          Task.export_options, Task.__call__            -> [td_base] [td_exports] [chain_run]
      redun/scheduler.py  Job.__init__ (export_options accumulation), Job.get_raw_options,
                          Job.get_export_options, Job.recording_provenance,
                          Scheduler._evaluate_apply (scheduler-imposed options, option evaluation),
                          needs_root_task / Scheduler.run (root job)     -> [mk_job] [walk] [run_execution]

    Dicts.  A Python dict is modelled as an association list read with first-match [lookup];
    `{**a, **b}` is [update a b = b ++ a] (the entries of [b] shadow those of [a]); popping a key
    removes every entry for it.  Only the mapping is meaningful (never the order or the shadowed
    entries): results are compared with [dict_eqb] (equal lookups on every key of either side).

    Option names are numbers ([k_cache], [k_cache_scope], [k_prov] are the three names the code
    itself treats specially; every other name is an ordinary option).  Option values are atoms;
    an unevaluated option value is [OExpr e] (a lazy expression with identity [e]); evaluation is
    the parameter [ev] (the scheduler's `evaluate`). *)
From Coq Require Import List ZArith NArith Bool.
Import ListNotations.
Open Scope list_scope.

Definition key := N.
Definition k_cache : key := 0%N.
Definition k_cache_scope : key := 1%N.
Definition k_prov : key := 2%N.

Inductive scope := SNone | SCse | SBackend.          (* redun.task.CacheScope *)

Inductive atom :=
| AInt (z : Z)
| ABool (b : bool)
| ANull
| AScope (s : scope).

(** Python truthiness of an evaluated option value (enum members are truthy). *)
Definition truthy (a : atom) : bool :=
  match a with
  | AInt z => negb (Z.eqb z 0)
  | ABool b => b
  | ANull => false
  | AScope _ => true
  end.

Inductive oval :=
| OLit (a : atom)
| OExpr (e : N).          (* a lazy expression; [e] identifies it (and the job that evaluates it) *)

Inductive error :=
| ECoerceBool             (* TypeError: Expressions cannot be coerced to bool  (cache=<expression>) *)
| EBadScope               (* ValueError: ... is not a valid CacheScope *)
| ERootExpr               (* an option expression of the root job is evaluated without a parent job:
                             KeyError in record_job_start / AttributeError in get_context *)
| ENoSuchJob.             (* the path does not name a job of the tree (not a Python error) *)

Inductive res (A : Type) :=
| Ok (a : A)
| Err (e : error).
Arguments Ok {A} a.
Arguments Err {A} e.

Definition bind {A B} (r : res A) (f : A -> res B) : res B :=
  match r with Ok a => f a | Err e => Err e end.

(** ** dicts *)
Definition dict (V : Type) := list (key * V).

Fixpoint lookup {V} (k : key) (d : dict V) : option V :=
  match d with
  | [] => None
  | (k', v) :: r => if N.eqb k k' then Some v else lookup k r
  end.

Definition has_key {V} (k : key) (d : dict V) : bool :=
  match lookup k d with Some _ => true | None => false end.

Fixpoint mem (k : key) (ks : list key) : bool :=
  match ks with [] => false | k' :: r => N.eqb k k' || mem k r end.

Definition keys {V} (d : dict V) : list key := map fst d.

(** `{**a, **b}` *)
Definition update {V} (a b : dict V) : dict V := b ++ a.

(** `d[k] = v` *)
Definition setk {V} (k : key) (v : V) (d : dict V) : dict V := (k, v) :: d.

(** `d.pop(k)` (the mapping without [k]) *)
Definition removek {V} (k : key) (d : dict V) : dict V :=
  filter (fun kv => negb (N.eqb k (fst kv))) d.

(** `{key: value for key, value in d.items() if key in ks}` *)
Definition restrict {V} (ks : list key) (d : dict V) : dict V :=
  filter (fun kv => mem (fst kv) ks) d.

Definition map_vals {V W} (f : V -> W) (d : dict V) : dict W :=
  map (fun kv => (fst kv, f (snd kv))) d.

(** ** configuration extracted from the source (translate/tr_options.py) *)
Inductive layer := LDef | LInh | LCall | LImp.

Record opt_cfg := {
  (* the `**` items of the dict display returned by Job.get_raw_options, in order *)
  merge_order : list layer;
  (* Task.options() passes the export set on to the new Task (as shipped: it does not) *)
  keeps_exports : bool;
  (* task(export_options={"cache": ..}) also exports `cache_scope` (as shipped: only
     Task.export_options() knows the synonym) *)
  deco_synonym : bool;
  (* needs_root_task also looks for expressions among the options (as shipped: only among the
     arguments) *)
  root_checks_options : bool
}.

Definition std_order : list layer := [LDef; LInh; LCall; LImp].

Definition shipped : opt_cfg :=
  {| merge_order := std_order; keeps_exports := false; deco_synonym := false; root_checks_options := false |}.

Definition fixed : opt_cfg :=
  {| merge_order := std_order; keeps_exports := true; deco_synonym := true; root_checks_options := true |}.

(** ** Task construction (redun/task.py) *)

(** Task._validate, for one of the two option dicts: the legacy `cache` option is replaced by
    `cache_scope`, and `cache_scope` must be a CacheScope. *)
Definition norm (d : dict oval) : res (dict oval) :=
  bind
    (match lookup k_cache d with
     | None => Ok d
     | Some (OLit a) =>
         Ok (setk k_cache_scope (OLit (AScope (if truthy a then SBackend else SCse))) (removek k_cache d))
     | Some (OExpr _) => Err ECoerceBool
     end)
    (fun d1 =>
       match lookup k_cache_scope d1 with
       | None => Ok d1
       | Some (OLit (AScope _)) => Ok d1
       | Some _ => Err EBadScope
       end).

(** "Handle option synonyms" of Task.export_options *)
Definition syn (ks : list key) : list key :=
  if mem k_cache ks then k_cache_scope :: ks else ks.

(** "Automatically export provenance recording option" of Task._validate *)
Definition auto_prov (base over : dict oval) (ks : list key) : list key :=
  if has_key k_prov base || has_key k_prov over then k_prov :: ks else ks.

(** `@task(export_options=td_export, **td_opts)` *)
Record taskdef := { td_opts : dict oval; td_export : dict oval }.

(** task_options_base after `task_options_base.update(export_options)` and Task._validate *)
Definition td_base (td : taskdef) : res (dict oval) := norm (update (td_opts td) (td_export td)).

(** the registered task's _export_options *)
Definition td_exports (c : opt_cfg) (td : taskdef) (base : dict oval) : list key :=
  auto_prov base [] (if deco_synonym c then syn (keys (td_export td)) else keys (td_export td)).

(** `.options(k=v, ...)` / `.export_options(k=v, ...)` applied to a task, left to right *)
Inductive chain_op :=
| COpt (kvs : dict oval)
| CExport (kvs : dict oval).

(** state of a derived Task: (_task_options_override, _export_options) *)
Definition chain_step (c : opt_cfg) (base : dict oval) (st : dict oval * list key) (op : chain_op)
  : res (dict oval * list key) :=
  let '(over, ex) := st in
  match op with
  | COpt kvs =>
      bind (norm (update over kvs))
           (fun o' => Ok (o', auto_prov base o' (if keeps_exports c then ex else [])))
  | CExport kvs =>
      bind (norm (update over kvs))
           (fun o' => Ok (o', auto_prov base o' (syn (ex ++ keys kvs))))
  end.

Fixpoint chain_run (c : opt_cfg) (base : dict oval) (st : dict oval * list key) (ops : list chain_op)
  : res (dict oval * list key) :=
  match ops with
  | [] => Ok st
  | op :: r => bind (chain_step c base st op) (fun st' => chain_run c base st' r)
  end.

(** ** Jobs (redun/scheduler.py) *)

(** what a job runs with: evaluated options (Job.eval_options) and exported names (Job.export_options) *)
Record jstate := { js_opts : dict atom; js_export : list key }.

(** Job.recording_provenance: `self.get_options().get("prov", True)`, used as a truth value *)
Definition recording (o : dict atom) : bool :=
  match lookup k_prov o with Some a => truthy a | None => true end.

(** a call: the task's definition and the chain applied at the call site *)
Record node := { nd_def : taskdef; nd_chain : list chain_op }.

Definition empty_node : node := {| nd_def := {| td_opts := []; td_export := [] |}; nd_chain := [] |}.

(** the options the scheduler imposes (`job_options` in _evaluate_apply) *)
Definition imposed (nocache : bool) (parent : option jstate) : dict oval :=
  (match parent with
   | Some p => if recording (js_opts p) then [] else [(k_prov, OLit (ABool false))]
   | None => []
   end)
  ++ (if nocache then [(k_cache_scope, OLit (AScope SCse))] else []).

(** Job.get_export_options of the parent *)
Definition inherited (parent : option jstate) : dict atom :=
  match parent with
  | Some p => restrict (js_export p) (js_opts p)
  | None => []
  end.

Definition layer_dict (def inh call imp : dict oval) (l : layer) : dict oval :=
  match l with LDef => def | LInh => inh | LCall => call | LImp => imp end.

(** Job.get_raw_options: `{**l1, **l2, ...}` in the order found in the source *)
Definition raw_options (c : opt_cfg) (def inh call imp : dict oval) : dict oval :=
  fold_left (fun acc l => update acc (layer_dict def inh call imp l)) (merge_order c) [].

(** expressions among the visible entries of a dict (those `evaluate` meets) *)
Fixpoint visible_exprs (seen : list key) (d : dict oval) : list N :=
  match d with
  | [] => []
  | (k, v) :: r =>
      if mem k seen then visible_exprs seen r
      else (match v with OExpr e => [e] | OLit _ => [] end) ++ visible_exprs (k :: seen) r
  end.

(** ** job trees *)
Inductive jtree := JNode (uid : N) (n : node) (kids : list jtree).

(** observation of one job: identity, options it runs with, exported names *)
Definition obs := (N * dict atom * list key)%type.

Definition has_expr (d : dict oval) : bool :=
  match visible_exprs [] d with [] => false | _ :: _ => true end.

Section Eval.
  (** the scheduler's `evaluate` on an option value *)
  Variable ev : N -> atom.

  Definition evv (v : oval) : atom := match v with OLit a => a | OExpr e => ev e end.

  (** one TaskExpression evaluated under [parent]: the job's state and the option expressions
      that were evaluated for it (each by a job of its own under [parent]) *)
  Definition mk_job (c : opt_cfg) (nocache : bool) (parent : option jstate) (n : node)
    : res (jstate * list N) :=
    bind (td_base (nd_def n)) (fun base =>
    let dex := td_exports c (nd_def n) base in
    bind (chain_run c base ([], dex) (nd_chain n)) (fun st =>
    let '(call, cex) := st in
    let raw := raw_options c base (map_vals OLit (inherited parent)) call (imposed nocache parent) in
    let evd := map_vals evv raw in
    let final := if recording evd then evd else setk k_cache_scope (AScope SNone) evd in
    Ok ({| js_opts := final;
           js_export := dex ++ cex ++ match parent with Some p => js_export p | None => [] end |},
        visible_exprs [] raw))).

  (** the jobs that evaluate option expressions [es] under [parent] (a task without options) *)
  Fixpoint expr_jobs (c : opt_cfg) (nocache : bool) (parent : option jstate) (es : list N) : res (list obs) :=
    match es with
    | [] => Ok []
    | e :: r =>
        bind (mk_job c nocache parent empty_node) (fun je =>
        bind (expr_jobs c nocache parent r) (fun rest =>
        Ok ((e, js_opts (fst je), js_export (fst je)) :: rest)))
    end.

  (** the job at path [p] (child indices from the root of [t]), created under [parent] *)
  Fixpoint walk (c : opt_cfg) (nocache : bool) (parent : option jstate) (t : jtree) (p : list nat)
    : res (N * jstate * list N * option jstate) :=
    match t with
    | JNode uid n kids =>
        bind (mk_job c nocache parent n) (fun je =>
        match p with
        | [] => Ok (uid, fst je, snd je, parent)
        | i :: p' =>
            match nth_error kids i with
            | Some k => walk c nocache (Some (fst je)) k p'
            | None => Err ENoSuchJob
            end
        end)
    end.

  Fixpoint paths (t : jtree) : list (list nat) :=
    match t with
    | JNode _ _ kids =>
        [] :: (fix go (i : nat) (ks : list jtree) : list (list nat) :=
                 match ks with
                 | [] => []
                 | k :: r => map (cons i) (paths k) ++ go (S i) r
                 end) 0%nat kids
    end.

  (** all observations below [parent]: every job of the tree, each followed by the jobs that
      evaluated its option expressions *)
  Fixpoint collect (c : opt_cfg) (nocache : bool) (parent : option jstate) (t : jtree) (ps : list (list nat))
    : res (list obs) :=
    match ps with
    | [] => Ok []
    | p :: r =>
        bind (walk c nocache parent t p) (fun w =>
        let '(uid, st, es, par) := w in
        bind (expr_jobs c nocache par es) (fun ej =>
        bind (collect c nocache parent t r) (fun rest =>
        Ok ((uid, js_opts st, js_export st) :: ej ++ rest))))
    end.

  Definition root_node (t : jtree) : node := match t with JNode _ n _ => n end.

  (** Scheduler.run(expr, cache=not nocache).  [wrap]: the caller passed something that
      needs_root_task wraps anyway (e.g. a list holding the call).  The redun.root_task job itself
      (no options of its own) is the parent of the tree's root then; it is not reported. *)
  Definition run_execution (c : opt_cfg) (nocache wrap : bool) (t : jtree) : res (list obs) :=
    bind (td_base (nd_def (root_node t))) (fun base =>
    bind (chain_run c base ([], td_exports c (nd_def (root_node t)) base) (nd_chain (root_node t))) (fun st =>
    let wrapped := wrap || (root_checks_options c && (has_expr base || has_expr (fst st))) in
    if wrapped then
      bind (mk_job c nocache None empty_node) (fun rt => collect c nocache (Some (fst rt)) t (paths t))
    else
      (* not wrapped: the root job and the jobs evaluating its option expressions all have no
         parent job; the second of them to record its start finds the execution already claimed
         (backend.record_job_start: KeyError).  A job records its start iff it records
         provenance; the expression jobs always do. *)
      bind (mk_job c nocache None (root_node t)) (fun je =>
      if Nat.leb 2 (length (snd je) + (if recording (js_opts (fst je)) then 1 else 0))
      then Err ERootExpr
      else collect c nocache None t (paths t)))).
End Eval.

(** ** comparing with what the implementation did *)
Definition scope_eqb (a b : scope) : bool :=
  match a, b with SNone, SNone | SCse, SCse | SBackend, SBackend => true | _, _ => false end.

Definition atom_eqb (a b : atom) : bool :=
  match a, b with
  | AInt x, AInt y => Z.eqb x y
  | ABool x, ABool y => Bool.eqb x y
  | ANull, ANull => true
  | AScope x, AScope y => scope_eqb x y
  | _, _ => false
  end.

Definition oatom_eqb (a b : option atom) : bool :=
  match a, b with
  | Some x, Some y => atom_eqb x y
  | None, None => true
  | _, _ => false
  end.

Definition dict_eqb (a b : dict atom) : bool :=
  forallb (fun k => oatom_eqb (lookup k a) (lookup k b)) (keys a ++ keys b).

Definition set_eqb (a b : list key) : bool :=
  forallb (fun k => mem k b) a && forallb (fun k => mem k a) b.

Fixpoint find_obs (uid : N) (l : list obs) : option obs :=
  match l with
  | [] => None
  | (u, o, e) :: r => if N.eqb uid u then Some (u, o, e) else find_obs uid r
  end.

(** same jobs (by identity), same options, same exported names *)
Definition obs_match (model real : list obs) : bool :=
  Nat.eqb (length model) (length real) &&
  forallb (fun x => match x with (u, o, e) =>
             match find_obs u model with
             | Some (_, o', e') => dict_eqb o o' && set_eqb e e'
             | None => false
             end end) real.

Definition res_obs_match (model : res (list obs)) (real : res (list obs)) : bool :=
  match model, real with
  | Ok m, Ok r => obs_match m r
  | Err ERootExpr, Err ERootExpr => true
  | _, _ => false
  end.

(** expression table used by the correspondence cases: `val(e, a)` evaluates to [a] *)
Definition ev_table (tbl : list (N * atom)) (e : N) : atom :=
  match lookup e tbl with Some a => a | None => ANull end.

(** a single chain on a task definition: (override, exported names) or the error *)
Definition chain_of (c : opt_cfg) (td : taskdef) (ops : list chain_op) : res (dict oval * list key) :=
  bind (td_base td) (fun base => chain_run c base ([], td_exports c td base) ops).
