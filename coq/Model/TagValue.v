(** Executable model of redun/tags.py: str2literal, parse_tag_value, format_tag_value
    — no proofs here.

    Python strings are lists of code points ([ustr]).  CPython's [int()], [float()],
    [json.loads] and [json.dumps] are *parameters* (record [ext]); what the theorems need
    from them is stated as Section hypotheses in Proofs/TagValueFacts.v.  Everything that
    redun itself decides is concrete and driven by the configuration [tag_cfg] that the
    translator regenerates from tags.py: the first-character routing to JSON, the order
    of the type-inference attempts, the literal table, the regex test and the guard of
    [format_tag_value]. *)
From Coq Require Import List NArith ZArith Ascii String Bool Permutation.
From RV Require Import Base.Decimal.
Import ListNotations.
Open Scope list_scope.

(** * Strings *)
Definition ustr := list N.

Definition u (s : string) : ustr := map N_of_ascii (list_ascii_of_string s).

Fixpoint ustr_eqb (a b : ustr) : bool :=
  match a, b with
  | [], [] => true
  | x :: a', y :: b' => N.eqb x y && ustr_eqb a' b'
  | _, _ => false
  end.

Definition mem (c : N) (l : list N) : bool := existsb (N.eqb c) l.

(** [str(z)] / [json.dumps(z)] for an int: canonical decimal. *)
Definition dec_u (z : Z) : ustr := map N_of_ascii (dec_of_Z z).

(** * JSON-compatible values; [F] is the carrier of (non-NaN) floats. *)
Inductive jv (F : Type) :=
| JNull
| JBool (b : bool)
| JInt (z : Z)
| JFloat (f : F)
| JStr (s : ustr)
| JList (l : list (jv F))
| JDict (kvs : list (ustr * jv F)).
Arguments JNull {F}.
Arguments JBool {F} b.
Arguments JInt {F} z.
Arguments JFloat {F} f.
Arguments JStr {F} s.
Arguments JList {F} l.
Arguments JDict {F} kvs.

(** JSON-compatible: mapping keys are strings (by type) and unique, at every depth. *)
Fixpoint wf {F} (v : jv F) : Prop :=
  match v with
  | JList l => (fix all (l : list (jv F)) : Prop :=
                  match l with [] => True | x :: r => wf x /\ all r end) l
  | JDict kvs => NoDup (map fst kvs) /\
                 (fix all (l : list (ustr * jv F)) : Prop :=
                    match l with [] => True | kv :: r => wf (snd kv) /\ all r end) kvs
  | _ => True
  end.

(** Equality of Python values with types kept apart (1, 1.0 and True are different)
    and dict order ignored — "the original value". *)
Inductive jeq {F} : jv F -> jv F -> Prop :=
| jeq_null : jeq JNull JNull
| jeq_bool b : jeq (JBool b) (JBool b)
| jeq_int z : jeq (JInt z) (JInt z)
| jeq_float f : jeq (JFloat f) (JFloat f)
| jeq_str s : jeq (JStr s) (JStr s)
| jeq_list l l' : Forall2 jeq l l' -> jeq (JList l) (JList l')
| jeq_dict kvs p kvs' :
    Permutation kvs p ->
    Forall2 (fun a b => fst a = fst b /\ jeq (snd a) (snd b)) p kvs' ->
    jeq (JDict kvs) (JDict kvs').

Definition is_str {F} (v : jv F) : bool := match v with JStr _ => true | _ => false end.
(** the values whose display text is routed back through [json.loads] *)
Definition json_routed {F} (v : jv F) : bool :=
  match v with JStr _ | JList _ | JDict _ => true | _ => false end.

(** * CPython functions used by tags.py *)
Record ext (F : Type) := {
  py_int : ustr -> option Z;              (* int(s); None = ValueError *)
  py_float : ustr -> option F;            (* float(s); None = ValueError *)
  json_loads : ustr -> option (jv F);     (* json.loads(s); None = json.JSONDecodeError *)
  json_dumps : bool -> jv F -> ustr       (* json.dumps(v, sort_keys=b) *)
}.
Arguments py_int {F} e s.
Arguments py_float {F} e s.
Arguments json_loads {F} e s.
Arguments json_dumps {F} e b v.

(** * What the translator extracts from tags.py *)
Inductive infer_step := TryInt | TryFloat | TryLiteral.
Inductive lit := LTrue | LFalse | LNone.
(** conjuncts of format_tag_value's test after [isinstance(value, str)] *)
Inductive guard :=
| GNoSep (cls : list N)      (* not re.match(".*[cls].*", value) *)
| GNotFirstIn (cs : list N)  (* value[:1] not in (c1, c2, ...) *)
| GParsesToStr.              (* isinstance(parse_tag_value(value), str) *)

Record tag_cfg := {
  json_first : list N;               (* first characters sent to json.loads *)
  infer : list infer_step;           (* try ... except ValueError: pass, in order *)
  literals : list (ustr * lit);      (* str2literal's lookup *)
  str_guards : list guard;
  sort_keys : bool                   (* json.dumps(value, sort_keys=...) *)
}.

(* the translator emits character sets and the literal table in sorted order: membership
   and lookup (unique keys, checked) do not depend on the order written in tags.py *)
Definition lits3 : list (ustr * lit) :=
  [(u "false", LFalse); (u "null", LNone); (u "true", LTrue)].

(** tags.py as shipped *)
Definition shipped : tag_cfg := {|
  json_first := [34; 91; 123]%N;       (* double-quote, [ and { (the translator sorts) *)
  infer := [TryInt; TryFloat; TryLiteral];
  literals := lits3;
  str_guards := [GNoSep [32; 44]%N; GParsesToStr];
  sort_keys := true
|}.

(** tags.py with the repair: a string that parse_tag_value would hand to json.loads is
    never displayed bare. *)
Definition fixed : tag_cfg := {|
  json_first := [34; 91; 123]%N;
  infer := [TryInt; TryFloat; TryLiteral];
  literals := lits3;
  str_guards := [GNoSep [32; 44]%N; GNotFirstIn [34; 91; 123]%N; GParsesToStr];
  sort_keys := true
|}.

(** * str2literal *)
Fixpoint lookup_lit (tbl : list (ustr * lit)) (s : ustr) : option lit :=
  match tbl with
  | [] => None                                       (* raise ValueError *)
  | (k, l) :: r => if ustr_eqb s k then Some l else lookup_lit r s
  end.
(* a dict display keeps the *last* value of a repeated key; the translator rejects
   repeated keys, so first-match lookup is the same function *)

Definition lit_val {F} (l : lit) : jv F :=
  match l with LTrue => JBool true | LFalse => JBool false | LNone => JNull end.

(** * parse_tag_value *)
Inductive pres (F : Type) := POk (v : jv F) | PValueError.
Arguments POk {F} v.
Arguments PValueError {F}.

Section Model.
Context {F : Type}.
Variable cfg : tag_cfg.
Variable E : ext F.

Fixpoint infer_steps (steps : list infer_step) (s : ustr) : jv F :=
  match steps with
  | [] => JStr s                                     (* "Assume string." *)
  | TryInt :: r =>
      match py_int E s with Some z => JInt z | None => infer_steps r s end
  | TryFloat :: r =>
      match py_float E s with Some f => JFloat f | None => infer_steps r s end
  | TryLiteral :: r =>
      match lookup_lit (literals cfg) s with Some l => lit_val l | None => infer_steps r s end
  end.

Definition first_in (cs : list N) (s : ustr) : bool :=
  match s with [] => false | c :: _ => mem c cs end.

Definition parse_tag_value (s : ustr) : pres F :=
  match s with
  | [] => POk JNull                                  (* "Empty string is short for None." *)
  | _ :: _ =>
      if first_in (json_first cfg) s then
        match json_loads E s with
        | Some v => POk v
        | None => PValueError                        (* JSONDecodeError -> ValueError *)
        end
      else POk (infer_steps (infer cfg) s)
  end.

(** * format_tag_value *)
(** [re.match(".*[cls].*", s) is not None] without flags: [.] stops at "\n". *)
Fixpoint has_sep (cls : list N) (s : ustr) : bool :=
  match s with
  | [] => false
  | c :: r => if mem c cls then true else if N.eqb c 10 then false else has_sep cls r
  end.

Inductive gres := GTrue | GFalse | GRaise.
Definition of_bool (b : bool) : gres := if b then GTrue else GFalse.

Definition eval_guard (g : guard) (s : ustr) : gres :=
  match g with
  | GNoSep cls => of_bool (negb (has_sep cls s))
  | GNotFirstIn cs => of_bool (negb (first_in cs s))
  | GParsesToStr =>
      match parse_tag_value s with
      | POk v => of_bool (is_str v)
      | PValueError => GRaise
      end
  end.

(** Python's short-circuit [and] *)
Fixpoint eval_guards (gs : list guard) (s : ustr) : gres :=
  match gs with
  | [] => GTrue
  | g :: r => match eval_guard g s with GTrue => eval_guards r s | x => x end
  end.

Inductive fres := FOk (t : ustr) | FValueError.

Definition format_tag_value (v : jv F) : fres :=
  match v with
  | JStr s =>
      match eval_guards (str_guards cfg) s with
      | GTrue => FOk s                                   (* displayed without quotes *)
      | GFalse => FOk (json_dumps E (sort_keys cfg) v)
      | GRaise => FValueError
      end
  | _ => FOk (json_dumps E (sort_keys cfg) v)
  end.

(** display, then read back as a command-line value *)
Definition roundtrip (v : jv F) : option (pres F) :=
  match format_tag_value v with
  | FOk t => Some (parse_tag_value t)
  | FValueError => None
  end.

End Model.

(** * A finite, table-driven [ext] for running the model next to the implementation.
    Floats are their IEEE-754 bit patterns.  A question that is not in the tables gets an
    answer no Python run can produce, so a model that asks CPython something else than
    the code does is visible in the comparison. *)
Definition F64 := N.

Fixpoint jv_eqb (a b : jv F64) {struct a} : bool :=
  match a, b with
  | JNull, JNull => true
  | JBool x, JBool y => Bool.eqb x y
  | JInt x, JInt y => Z.eqb x y
  | JFloat x, JFloat y => N.eqb x y
  | JStr x, JStr y => ustr_eqb x y
  | JList x, JList y =>
      (fix go (x y : list (jv F64)) : bool :=
         match x, y with
         | [], [] => true
         | a :: x', b :: y' => jv_eqb a b && go x' y'
         | _, _ => false
         end) x y
  | JDict x, JDict y =>
      (fix go (x y : list (ustr * jv F64)) : bool :=
         match x, y with
         | [], [] => true
         | (k, a) :: x', (k', b) :: y' => ustr_eqb k k' && jv_eqb a b && go x' y'
         | _, _ => false
         end) x y
  | _, _ => false
  end.

Definition no_such_char : N := 1114112.   (* 0x110000: not a code point *)
Definition int_sentinel : Z := (-918273645546372819)%Z.
Definition float_sentinel : F64 := (2 ^ 64)%N.

Fixpoint tlookup {A} (tbl : list (ustr * A)) (s : ustr) (d : A) : A :=
  match tbl with
  | [] => d
  | (k, a) :: r => if ustr_eqb s k then a else tlookup r s d
  end.

Fixpoint dlookup (tbl : list (jv F64 * ustr)) (v : jv F64) : ustr :=
  match tbl with
  | [] => [no_such_char]
  | (k, a) :: r => if jv_eqb v k then a else dlookup r v
  end.

Definition tbl_ext (ti : list (ustr * option Z)) (tf : list (ustr * option F64))
           (tl : list (ustr * option (jv F64))) (td : list (jv F64 * ustr)) : ext F64 := {|
  py_int := fun s => tlookup ti s (Some int_sentinel);
  py_float := fun s => tlookup tf s (Some float_sentinel);
  json_loads := fun s => tlookup tl s (Some (JStr [no_such_char]));
  json_dumps := fun b v => if b then dlookup td v else [no_such_char]
|}.

Definition pres_eqb (a b : pres F64) : bool :=
  match a, b with
  | POk x, POk y => jv_eqb x y
  | PValueError, PValueError => true
  | _, _ => false
  end.

Definition fres_eqb (a b : fres) : bool :=
  match a, b with
  | FOk x, FOk y => ustr_eqb x y
  | FValueError, FValueError => true
  | _, _ => false
  end.
