(** Executable model of redun/bcoding.py (encoder, decoder) — no proofs here. *)
From Coq Require Import List ZArith Ascii Bool.
From RV Require Import Base.Decimal.
Import ListNotations.
Open Scope list_scope.
Open Scope char_scope.

(** * Abstract bencode data *)
Inductive data :=
| BInt (z : Z)
| BStr (s : bytes)
| BList (l : list data)
| BDict (kvs : list (bytes * data)).

(** Source-level configuration: what the translator extracts from bcoding.py. *)
Inductive pyclass := CIntNotBool | CStrOrBytes | CMapping | CIterable.
Inductive action := AInt | ABuffer | AMapping | AIterable.
Record bencode_cfg := {
  ty_int : ascii; ty_list : ascii; ty_dict : ascii; ty_end : ascii; ty_sep : ascii;
  dispatch : list (pyclass * action);
  mapping_sorted : bool;           (* _encode_mapping iterates sorted(mapping.items()) *)
  int_layout : list nat;           (* 0 = type byte, 1 = decimal, 2 = end byte *)
  buffer_layout : list nat;        (* 0 = decimal length, 1 = separator, 2 = payload *)
  decode_table : list (ascii * nat) (* first byte -> decoder: 0 int, 1 list, 2 dict, 3 end(None), 4 buffer *)
}.

Definition digits_table : list (ascii * nat) :=
  map (fun c => (c, 4%nat)) ["0";"1";"2";"3";"4";"5";"6";"7";"8";"9"].

Definition shipped : bencode_cfg := {|
  ty_int := "i"; ty_list := "l"; ty_dict := "d"; ty_end := "e"; ty_sep := ":";
  dispatch := [(CIntNotBool, AInt); (CStrOrBytes, ABuffer); (CMapping, AMapping); (CIterable, AIterable)];
  mapping_sorted := true;
  int_layout := [0;1;2]%nat;
  buffer_layout := [0;1;2]%nat;
  decode_table := [("i",0%nat); ("l",1%nat); ("d",2%nat); ("e",3%nat)] ++ digits_table
|}.

(** * Encoder on abstract data (keys of dicts are emitted in list order). *)
Definition enc_str (s : bytes) : bytes := dec_of_nat (length s) ++ ":" :: s.

Fixpoint enc (d : data) : bytes :=
  match d with
  | BInt z => "i" :: dec_of_Z z ++ ["e"]
  | BStr s => enc_str s
  | BList l => "l" :: flat_map enc l ++ ["e"]
  | BDict kvs =>
      "d" :: (fix go (kvs : list (bytes * data)) : bytes :=
                match kvs with
                | [] => []
                | (k, v) :: r => enc_str k ++ enc v ++ go r
                end) kvs ++ ["e"]
  end.

Fixpoint enc_items (kvs : list (bytes * data)) : bytes :=
  match kvs with
  | [] => []
  | (k, v) :: r => enc_str k ++ enc v ++ enc_items r
  end.

(** * Byte-string order (what [sorted] uses on bytes; equals code-point order on
    str through UTF-8). *)
Fixpoint bytes_ltb (a b : bytes) : bool :=
  match a, b with
  | [], [] => false
  | [], _ :: _ => true
  | _ :: _, [] => false
  | x :: a', y :: b' =>
      if Nat.ltb (nat_of_ascii x) (nat_of_ascii y) then true
      else if Nat.ltb (nat_of_ascii y) (nat_of_ascii x) then false
      else bytes_ltb a' b'
  end.

Fixpoint bytes_eqb (a b : bytes) : bool :=
  match a, b with
  | [], [] => true
  | x :: a', y :: b' => Ascii.eqb x y && bytes_eqb a' b'
  | _, _ => false
  end.

Fixpoint insert_kv {A} (k : bytes) (v : A) (l : list (bytes * A)) : list (bytes * A) :=
  match l with
  | [] => [(k, v)]
  | (k', v') :: r => if bytes_ltb k' k then (k', v') :: insert_kv k v r else (k, v) :: l
  end.

Fixpoint sort_kvs {A} (l : list (bytes * A)) : list (bytes * A) :=
  match l with
  | [] => []
  | (k, v) :: r => insert_kv k v (sort_kvs r)
  end.

Fixpoint keys_sorted {A} (l : list (bytes * A)) : bool :=
  match l with
  | [] => true
  | (k, _) :: r =>
      match r with
      | [] => true
      | (k', _) :: _ => bytes_ltb k k' && keys_sorted r
      end
  end.

Fixpoint canonical (d : data) : bool :=
  match d with
  | BInt _ | BStr _ => true
  | BList l => forallb canonical l
  | BDict kvs =>
      keys_sorted kvs &&
      (fix go (kvs : list (bytes * data)) : bool :=
         match kvs with [] => true | (_, v) :: r => canonical v && go r end) kvs
  end.

(** * Python-level values handed to [bencode] *)
Inductive pykey := KStr (utf8 : bytes) | KBytes (b : bytes).
Inductive pyval :=
| PInt (z : Z) | PBool (b : bool) | PNone | PFloat
| PStr (utf8 : bytes) | PBytes (b : bytes)
| PList (l : list pyval) | PTuple (l : list pyval)
| PDict (kvs : list (pykey * pyval)).

Definition key_bytes (k : pykey) : bytes := match k with KStr b | KBytes b => b end.
Definition key_is_str (k : pykey) : bool := match k with KStr _ => true | KBytes _ => false end.

(** [sorted] over items raises TypeError when str and bytes keys are mixed
    (and at least two items are compared). *)
Definition keys_homogeneous {A} (kvs : list (pykey * A)) : bool :=
  match kvs with
  | [] => true
  | (k, _) :: r => forallb (fun kv => Bool.eqb (key_is_str (fst kv)) (key_is_str k)) r
  end.

Fixpoint all_some {A} (l : list (option A)) : option (list A) :=
  match l with
  | [] => Some []
  | None :: _ => None
  | Some x :: r => option_map (cons x) (all_some r)
  end.

(** The identification the property allows: str = its UTF-8 bytes, tuple = list,
    dict = the key-sorted association list. [None] = rejected (TypeError). *)
Fixpoint abstract (v : pyval) : option data :=
  match v with
  | PInt z => Some (BInt z)
  | PBool _ | PNone | PFloat => None
  | PStr b | PBytes b => Some (BStr b)
  | PList l | PTuple l => option_map BList (all_some (map abstract l))
  | PDict kvs =>
      if keys_homogeneous kvs then
        option_map (fun l => BDict (sort_kvs l))
          (all_some (map (fun kv : pykey * pyval =>
                            let (k, v) := kv in option_map (pair (key_bytes k)) (abstract v)) kvs))
      else None
  end.

(** [bencode] as the Python code computes it. *)
Definition enc_py (v : pyval) : option bytes := option_map enc (abstract v).

(** * Decoder (bdecode on bytes). Fuel bounds recursion depth + items. *)
Inductive dres :=
| DOk (d : data) (rest : bytes)
| DEnd (rest : bytes)            (* saw the end byte: Python returns None *)
| DErr                           (* ValueError / TypeError / AssertionError *)
| DOom                           (* input outside what this model covers (never an encoder output) *)
| DFuel.

Fixpoint read_until (e : ascii) (s : bytes) : option (bytes * bytes) :=
  match s with
  | [] => None
  | c :: r => if Ascii.eqb c e then Some ([], r)
              else match read_until e r with
                   | Some (a, b) => Some (c :: a, b)
                   | None => None
                   end
  end.

Definition lookup_table (c : ascii) (t : list (ascii * nat)) : option nat :=
  option_map snd (find (fun p => Ascii.eqb (fst p) c) t).

Definition dec_int (r : bytes) : dres :=
  match read_until "e" r with
  | Some (digs, rest) =>
      match parse_dec digs with Some z => DOk (BInt z) rest | None => DErr end
  | None => DErr
  end.

Definition dec_buffer (s : bytes) : dres :=
  match read_until ":" s with
  | Some (digs, rest) =>
      match parse_dec digs with
      | Some z =>
          if Z.ltb z 0 then DErr  (* f.read(negative) reads everything, then the length test fails *)
          else let n := Z.to_nat z in
               if Nat.leb n (length rest) then DOk (BStr (firstn n rest)) (skipn n rest)
               else DErr
      | None => DErr
      end
  | None => DErr
  end.

Fixpoint list_items (f : bytes -> dres) (n : nat) (s : bytes) (acc : list data) : dres :=
  match n with
  | O => DFuel
  | S n =>
      match f s with
      | DOk d rest => list_items f n rest (d :: acc)
      | DEnd rest => DOk (BList (rev acc)) rest
      | r => r
      end
  end.

Fixpoint dict_items (f : bytes -> dres) (n : nat) (s : bytes) (acc : list (bytes * data)) : dres :=
  match n with
  | O => DFuel
  | S n =>
      match f s with
      | DOk (BStr k) rest =>
          match f rest with
          | DOk v rest' => dict_items f n rest' ((k, v) :: acc)
          | DEnd _ => DOom     (* ret[key] = None: not an encoder output *)
          | r => r
          end
      | DOk _ _ => DErr        (* assert isinstance(key, (str, bytes)) *)
      | DEnd rest => DOk (BDict (rev acc)) rest
      | r => r
      end
  end.

Fixpoint dec (fuel : nat) (s : bytes) {struct fuel} : dres :=
  match fuel with
  | O => DFuel
  | S fuel =>
    match s with
    | [] => DOom   (* at end of input bdecode seeks back one byte and re-reads the previous byte as
                      an end marker: truncated input is outside this model (never an encoder output) *)
    | c :: r =>
      match lookup_table c (decode_table shipped) with
      | Some 0%nat => dec_int r
      | Some 1%nat => list_items (dec fuel) fuel r []
      | Some 2%nat => dict_items (dec fuel) fuel r []
      | Some 3%nat => DEnd r
      | Some 4%nat => dec_buffer s
      | _ => DErr
      end
    end
  end.

Fixpoint size (d : data) : nat :=
  match d with
  | BInt _ | BStr _ => 1
  | BList l => S (fold_right (fun x a => size x + a) 0 l)
  | BDict kvs => S (fold_right (fun kv a => S (size (snd kv)) + a) 0 kvs)
  end.

(** [bdecode(bencode(x))] *)
Definition bdecode (s : bytes) : dres := dec (S (length s)) s.

(** * Glue for the correspondence run (not used by the theorems) *)
Fixpoint data_eqb (a b : data) {struct a} : bool :=
  match a, b with
  | BInt x, BInt y => Z.eqb x y
  | BStr x, BStr y => bytes_eqb x y
  | BList x, BList y =>
      (fix go (x y : list data) : bool :=
         match x, y with
         | [], [] => true
         | a :: x', b :: y' => data_eqb a b && go x' y'
         | _, _ => false
         end) x y
  | BDict x, BDict y =>
      (fix go (x y : list (bytes * data)) : bool :=
         match x, y with
         | [], [] => true
         | (k, a) :: x', (k', b) :: y' => bytes_eqb k k' && data_eqb a b && go x' y'
         | _, _ => false
         end) x y
  | _, _ => false
  end.

(** A Python dict keeps the first position and the last value of a repeated key. *)
Fixpoint assoc_set (k : bytes) (v : data) (l : list (bytes * data)) : list (bytes * data) :=
  match l with
  | [] => [(k, v)]
  | (k', v') :: r => if bytes_eqb k k' then (k, v) :: r else (k', v') :: assoc_set k v r
  end.

Fixpoint py_dict_norm (d : data) : data :=
  match d with
  | BInt _ | BStr _ => d
  | BList l => BList (map py_dict_norm l)
  | BDict kvs =>
      BDict ((fix go (kvs acc : list (bytes * data)) : list (bytes * data) :=
                match kvs with
                | [] => acc
                | (k, v) :: r => go r (assoc_set k (py_dict_norm v) acc)
                end) kvs [])
  end.

(** expected: Some d = decoded value, None = raised. DEnd (top-level None) is encoded as [BList [BInt 0; BInt 0]] never produced... kept separate. *)
Inductive pyres := RVal (d : data) | RNone | RErr.
Definition dec_agrees (s : bytes) (r : pyres) : bool :=
  match bdecode s, r with
  | DOk d _, RVal d' => data_eqb (py_dict_norm d) d'
  | DEnd _, RNone => true
  | DErr, RErr => true
  | DOom, _ => true
  | _, _ => false
  end.
Definition dec_is_oom (s : bytes) : bool := match bdecode s with DOom => true | _ => false end.
