(** Executable model of redun/utils.py: iter_nested_value_children, iter_nested_value,
    map_nested_value (and the two-pass use in Scheduler.evaluate) -- no proofs here.

    A nested value is a tree whose inner nodes are the container types the code
    recognises and whose leaves are arbitrary Python objects (type [A]).  Python
    exceptions are result constructors.  The type dispatch of both functions is
    *interpreted* from a configuration record ([cfg]) that the translator
    regenerates from the source (coq/Gen/C19Gen.v). *)
From Coq Require Import List ZArith Bool.
Import ListNotations.
Open Scope list_scope.

(** * Classes *)
Inductive hashmode :=
| HNone     (* __hash__ is None: plain @dataclass (eq=True, not frozen) *)
| HFields   (* hash/eq by the tuple of fields: frozen=True / unsafe_hash=True *)
| HIdent.   (* eq=False: identity hash and identity equality *)

Record dcls := { dc_id : Z; dc_frozen : bool; dc_slots : bool; dc_hash : hashmode }.
Record field := { f_name : Z; f_init : bool }.

(** * Source-level configuration (what the translator extracts) *)
Inductive kind := KList | KTuple | KNamed | KSet | KDict | KData | KOther.

(** Recognised type tests. [TIs k]: [value_type is <k>] / [value_type in (.., <k>, ..)] for the
    builtin exact types; [TNamedT]: [isinstance(value, tuple) and hasattr(value, "_fields")];
    [TDataT]: [dataclasses.is_dataclass(value_type)]. *)
Inductive ttest := TIs (k : kind) | TNamedT | TDataT.

Inductive dpart := DKeys | DValues.
(** children rules of iter_nested_value_children *)
Inductive crule :=
| CIter                       (* for item in value: yield False, item *)
| CDictParts (ps : list dpart) (* for key in value.keys() ... ; for val in value.values() ... *)
| CFields.                    (* for field in dataclasses.fields(value): yield False, getattr(..) *)
(** rebuild rules of map_nested_value *)
Inductive mrule :=
| MList                       (* [m(item) for item in value] *)
| MTuple                      (* tuple([m(item) for item in value]) *)
| MNamed                      (* value_type( *[m(item) for item in value]) *)
| MSet                        (* {m(item) for item in value} *)
| MDict (mapk mapv : bool)    (* {m(key): m(val) for key, val in value.items()} *)
| MData.                      (* __init__(init fields); set non-init fields; copy extra __dict__ *)
Inductive setter := SetAttr | ObjSetAttr.       (* how non-init fields are assigned *)
Inductive dictcopy := Unguarded | Guarded.      (* value.__dict__ touched unconditionally / only if present *)

Definition kind_eqb (a b : kind) : bool :=
  match a, b with
  | KList, KList | KTuple, KTuple | KNamed, KNamed | KSet, KSet | KDict, KDict | KData, KData
  | KOther, KOther => true
  | _, _ => false
  end.

Definition test_matches (t : ttest) (k : kind) : bool :=
  match t with
  | TIs k' => match k' with KList | KTuple | KSet | KDict => kind_eqb k' k | _ => false end
  | TNamedT => kind_eqb k KNamed
  | TDataT => kind_eqb k KData
  end.

(** first matching branch of an if/elif chain whose tests are disjunctions *)
Definition first_rule {R} (cases : list (list ttest * R)) (k : kind) : option R :=
  match find (fun c => existsb (fun t => test_matches t k) (fst c)) cases with
  | Some c => Some (snd c)
  | None => None
  end.

(** Normal form of the two dispatch chains: the rule each kind of value gets
    ([None] = falls through to the final else = treated as a leaf). *)
Record table (R : Type) := { r_list : option R; r_tuple : option R; r_named : option R;
                             r_set : option R; r_dict : option R; r_data : option R }.
Arguments r_list {R}. Arguments r_tuple {R}. Arguments r_named {R}.
Arguments r_set {R}. Arguments r_dict {R}. Arguments r_data {R}.

Definition normalize {R} (cases : list (list ttest * R)) : table R :=
  {| r_list := first_rule cases KList; r_tuple := first_rule cases KTuple;
     r_named := first_rule cases KNamed; r_set := first_rule cases KSet;
     r_dict := first_rule cases KDict; r_data := first_rule cases KData |}.

Definition lookup {R} (t : table R) (k : kind) : option R :=
  match k with
  | KList => r_list t | KTuple => r_tuple t | KNamed => r_named t | KSet => r_set t
  | KDict => r_dict t | KData => r_data t | KOther => None
  end.

Record cfg := { iter_tab : table crule; map_tab : table mrule;
                dc_setter : setter; dc_dictcopy : dictcopy }.

(** The if/elif chains as they are written in the shipped utils.py. *)
Definition shipped_iter_cases : list (list ttest * crule) :=
  [ ([TIs KList; TIs KTuple; TIs KSet; TNamedT], CIter);
    ([TIs KDict], CDictParts [DKeys; DValues]);
    ([TDataT], CFields) ].
Definition shipped_map_cases : list (list ttest * mrule) :=
  [ ([TIs KList], MList); ([TIs KTuple], MTuple); ([TNamedT], MNamed); ([TIs KSet], MSet);
    ([TIs KDict], MDict true true); ([TDataT], MData) ].

Definition cfg_of (s : setter) (d : dictcopy) : cfg :=
  {| iter_tab := normalize shipped_iter_cases; map_tab := normalize shipped_map_cases;
     dc_setter := s; dc_dictcopy := d |}.
Definition shipped : cfg := cfg_of SetAttr Unguarded.
Definition fixed : cfg := cfg_of ObjSetAttr Guarded.

(** * Results *)
Inductive err :=
| EUnhashable   (* TypeError: unhashable type, raised by the set / dict comprehension *)
| EFrozen       (* dataclasses.FrozenInstanceError from setattr on a frozen instance *)
| ENoDict       (* AttributeError: object has no attribute '__dict__' (slots=True) *)
| EBadRule.     (* the configuration applies a rule to a value it cannot handle (never for [shipped]) *)
Inductive res (X : Type) := Ok (x : X) | Err (e : err).
Arguments Ok {X}. Arguments Err {X}.

Section Model.
Variable A : Type.                (* leaves *)
Variable leq : A -> A -> bool.    (* Python == between (hashable) leaves *)
Variable lhash : A -> bool.       (* hash(leaf) does not raise *)

Inductive val :=
| Leaf (a : A)
| VList (l : list val)
| VTuple (l : list val)
| VNamed (c : Z) (l : list val)              (* namedtuple class id, items *)
| VSet (l : list val)                        (* elements in iteration order *)
| VDict (kvs : list (val * val))             (* items in insertion order *)
| VData (c : dcls) (fs : list (field * val)) (ex : list Z).
   (* dataclass instance: fields in declaration order; [ex]: other keys of __dict__ *)

Definition kind_of (v : val) : kind :=
  match v with
  | Leaf _ => KOther | VList _ => KList | VTuple _ => KTuple | VNamed _ _ => KNamed
  | VSet _ => KSet | VDict _ => KDict | VData _ _ _ => KData
  end.

(** ** Python hashability and equality of values (used by set / dict construction) *)
Fixpoint hashable (v : val) : bool :=
  match v with
  | Leaf a => lhash a
  | VTuple l | VNamed _ l => forallb hashable l
  | VData c fs _ =>
      match dc_hash c with
      | HNone => false
      | HIdent => true
      | HFields => forallb (fun p => let '(_, x) := p in hashable x) fs
      end
  | VList _ | VSet _ | VDict _ => false
  end.

Definition list_eqb {X Y} (e : X -> Y -> bool) : list X -> list Y -> bool :=
  fix go l l' :=
    match l, l' with
    | [], [] => true
    | x :: r, y :: r' => e x y && go r r'
    | _, _ => false
    end.

Fixpoint py_eq (v w : val) {struct v} : bool :=
  match v, w with
  | Leaf a, Leaf b => leq a b
  | VTuple l, VTuple l' | VTuple l, VNamed _ l' | VNamed _ l, VTuple l' | VNamed _ l, VNamed _ l' =>
      list_eqb py_eq l l'       (* tuple.__eq__ ignores the subclass *)
  | VData c fs _, VData c' fs' _ =>
      match dc_hash c with
      | HFields => Z.eqb (dc_id c) (dc_id c')
                   && list_eqb (fun p q => let '(_, x) := p in py_eq x (snd q)) fs fs'
      | _ => false              (* HIdent: distinct objects are never equal *)
      end
  | _, _ => false
  end.

(** set.add / dict.__setitem__ as done by the comprehensions: an equal element already
    present is kept (dict: old key object kept, value replaced). *)
Definition set_put (acc : list val) (y : val) : list val :=
  if existsb (fun x => py_eq x y) acc then acc else acc ++ [y].
Fixpoint dict_put (acc : list (val * val)) (k x : val) : list (val * val) :=
  match acc with
  | [] => [(k, x)]
  | (k0, x0) :: r => if py_eq k0 k then (k0, x) :: r else (k0, x0) :: dict_put r k x
  end.

(** ** iter_nested_value_children *)
Definition flag (v : val) : bool * val := (false, v).
Definition children (c : cfg) (v : val) : option (list (bool * val)) :=
  match lookup (iter_tab c) (kind_of v), v with
  | None, Leaf a => Some [(true, Leaf a)]
  | None, _ => Some [(true, v)]           (* a container no test matches is yielded as a leaf *)
  | Some CIter, (VList l | VTuple l | VNamed _ l | VSet l) => Some (map flag l)
  | Some CIter, VDict kvs => Some (map (fun kv => flag (fst kv)) kvs)   (* iterating a dict: keys *)
  | Some (CDictParts ps), VDict kvs =>
      Some (flat_map (fun p => match p with
                               | DKeys => map (fun kv => flag (fst kv)) kvs
                               | DValues => map (fun kv => flag (snd kv)) kvs
                               end) ps)
  | Some CFields, VData _ fs _ => Some (map (fun p => flag (snd p)) fs)
  | Some _, _ => None                     (* TypeError / AttributeError in Python *)
  end.

(** ** iter_nested_value: the explicit-stack loop.  The Python list used as a stack is
    modelled with its top at the head, so [stack.extend(children)] pushes the reversed
    children.  One unit of fuel per [stack.pop()]. *)
Inductive ires := IDone (out : list A) | IErr | IOutOfFuel.

Fixpoint iter_loop (c : cfg) (fuel : nat) (stack : list (bool * val)) (out : list A) : ires :=
  match stack with
  | [] => IDone (rev out)
  | (is_leaf, v) :: s =>
      match fuel with
      | O => IOutOfFuel
      | S n =>
          if is_leaf then
            match v with
            | Leaf a => iter_loop c n s (a :: out)
            | _ => IErr                    (* a container yielded as a leaf: outside [list A] *)
            end
          else
            match children c v with
            | Some ch => iter_loop c n (rev ch ++ s) out
            | None => IErr
            end
      end
  end.

Definition iter_nested (c : cfg) (fuel : nat) (v : val) : ires := iter_loop c fuel [(false, v)] [].

(** ** map_nested_value.  [M X]: the leaves [func] was called on so far (in call order)
    and the result or the exception. *)
Definition M (X : Type) : Type := (list A * res X)%type.
Definition ret {X} (x : X) : M X := ([], Ok x).
Definition raise {X} (e : err) : M X := ([], Err e).
Definition bind {X Y} (m : M X) (k : X -> M Y) : M Y :=
  match m with
  | (l, Ok x) => let '(l', r) := k x in (l ++ l', r)
  | (l, Err e) => (l, Err e)
  end.

Definition mapM {X Y} (g : X -> M Y) : list X -> M (list Y) :=
  fix go l :=
    match l with
    | [] => ret []
    | x :: r => bind (g x) (fun y => bind (go r) (fun ys => ret (y :: ys)))
    end.

(** set comprehension: map an element, hash it, add it *)
Definition set_build (g : val -> M val) : list val -> list val -> M (list val) :=
  fix go l acc :=
    match l with
    | [] => ret acc
    | x :: r => bind (g x) (fun y => if hashable y then go r (set_put acc y) else raise EUnhashable)
    end.

(** dict comprehension: key expression, value expression, then the insertion hashes the key *)
Definition dict_build (gk gx : val -> M val) : list (val * val) -> list (val * val) -> M (list (val * val)) :=
  fix go l acc :=
    match l with
    | [] => ret acc
    | (k, x) :: r =>
        bind (gk k) (fun k' => bind (gx x) (fun x' =>
          if hashable k' then go r (dict_put acc k' x') else raise EUnhashable))
    end.

(** the fields selected by [keep], mapped in order; [after] runs after each one *)
Definition fields_build (keep : field -> bool) (g : val -> M val) (after : M unit)
  : list (field * val) -> M (list val) :=
  fix go fs :=
    match fs with
    | [] => ret []
    | (fd, x) :: r =>
        if keep fd then
          bind (g x) (fun y => bind after (fun _ => bind (go r) (fun ys => ret (y :: ys))))
        else go r
    end.

(** put the separately computed init / non-init values back in declaration order *)
Fixpoint merge_fields (fs : list (field * val)) (inits nons : list val) : list (field * val) :=
  match fs with
  | [] => []
  | (fd, _) :: r =>
      if f_init fd then
        match inits with y :: i' => (fd, y) :: merge_fields r i' nons | [] => [] end
      else
        match nons with y :: n' => (fd, y) :: merge_fields r inits n' | [] => [] end
  end.

Section Map.
Variable c : cfg.
Variable f : A -> val.            (* func: whatever it returns is placed at the leaf's position *)

Definition setattr_step (dc : dcls) : M unit :=
  match dc_setter c with
  | SetAttr => if dc_frozen dc then raise EFrozen else ret tt
  | ObjSetAttr => ret tt
  end.
Definition dictcopy_step (dc : dcls) : M unit :=
  match dc_dictcopy c with
  | Unguarded => if dc_slots dc then raise ENoDict else ret tt
  | Guarded => ret tt
  end.

Fixpoint map_v (v : val) : M val :=
  match lookup (map_tab c) (kind_of v), v with
  | _, Leaf a => ([a], Ok (f a))
  | None, _ => raise EBadRule              (* func(container): outside the model *)
  | Some MList, (VList l | VTuple l | VNamed _ l | VSet l) =>
      bind (mapM map_v l) (fun ys => ret (VList ys))
  | Some MTuple, (VList l | VTuple l | VNamed _ l | VSet l) =>
      bind (mapM map_v l) (fun ys => ret (VTuple ys))
  | Some MNamed, VNamed cl l => bind (mapM map_v l) (fun ys => ret (VNamed cl ys))
  | Some MSet, (VList l | VTuple l | VNamed _ l | VSet l) =>
      bind (set_build map_v l []) (fun ys => ret (VSet ys))
  | Some (MDict mk mv), VDict kvs =>
      bind (dict_build (if mk then map_v else ret) (if mv then map_v else ret) kvs [])
           (fun ys => ret (VDict ys))
  | Some MData, VData dc fs ex =>
      bind (fields_build f_init map_v (ret tt) fs) (fun inits =>
      bind (fields_build (fun fd => negb (f_init fd)) map_v (setattr_step dc) fs) (fun nons =>
      bind (dictcopy_step dc) (fun _ =>
      ret (VData dc (merge_fields fs inits nons) ex))))
  | Some _, _ => raise EBadRule
  end.
End Map.

(** ** Scheduler.evaluate: map eval_term, wait for the promises, map resolve_term. *)
Definition evaluate (c : cfg) (eval_term resolve_term : A -> val) (v : val) : M val :=
  bind (map_v c eval_term v) (fun pending => map_v c resolve_term pending).

(** ** Comparison used by the correspondence run: structural, sets up to order. *)
Variable aeq : A -> A -> bool.
Definition dcls_eqb (a b : dcls) : bool :=
  Z.eqb (dc_id a) (dc_id b) && Bool.eqb (dc_frozen a) (dc_frozen b) && Bool.eqb (dc_slots a) (dc_slots b).
Fixpoint val_sim (v w : val) {struct v} : bool :=
  match v, w with
  | Leaf a, Leaf b => aeq a b
  | VList l, VList l' | VTuple l, VTuple l' => list_eqb val_sim l l'
  | VNamed c l, VNamed c' l' => Z.eqb c c' && list_eqb val_sim l l'
  | VSet l, VSet l' =>
      Nat.eqb (length l) (length l') && forallb (fun x => existsb (fun y => val_sim x y) l') l
  | VDict kvs, VDict kvs' =>
      list_eqb (fun p q => let '(k, x) := p in val_sim k (fst q) && val_sim x (snd q)) kvs kvs'
  | VData c fs ex, VData c' fs' ex' =>
      dcls_eqb c c'
      && list_eqb (fun p q => let '(fd, x) := p in
                              Z.eqb (f_name fd) (f_name (fst q)) && Bool.eqb (f_init fd) (f_init (fst q))
                              && val_sim x (snd q)) fs fs'
      && list_eqb Z.eqb ex ex'
  | _, _ => false
  end.

End Model.

Arguments Leaf {A}. Arguments VList {A}. Arguments VTuple {A}. Arguments VNamed {A}.
Arguments VSet {A}. Arguments VDict {A}. Arguments VData {A}.
Arguments IDone {A}. Arguments IErr {A}. Arguments IOutOfFuel {A}.
