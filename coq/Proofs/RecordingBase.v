(** Basic facts about the recording model: decidable equalities, membership, rows. *)
From Coq Require Import List Arith Bool PeanoNat Lia.
From RV Require Import Model.Recording.
Import ListNotations.
Open Scope list_scope.

Section tree_ind2.
  Variable P : tree -> Prop.
  Hypothesis H : forall t a r ks, Forall P ks -> P (Node t a r ks).
  Fixpoint tree_ind2 (c : tree) : P c :=
    match c with
    | Node t a r ks =>
        H t a r ks ((fix go (l : list tree) : Forall P l :=
                       match l with
                       | [] => Forall_nil P
                       | u :: l1 => Forall_cons u (tree_ind2 u) (go l1)
                       end) ks)
    end.
End tree_ind2.

Lemma nats_eqb_spec : forall a b, nats_eqb a b = true <-> a = b.
Proof.
  induction a as [|x a IH]; destruct b as [|y b]; simpl; split; try congruence; try discriminate.
  - rewrite andb_true_iff, Nat.eqb_eq, IH. intros [-> ->]. reflexivity.
  - intros [= -> ->]. rewrite Nat.eqb_refl. simpl. apply IH. reflexivity.
Qed.

Fixpoint trees_eqb (l l' : list tree) : bool :=
  match l, l' with
  | [], [] => true
  | u :: l1, w :: l1' => tree_eqb u w && trees_eqb l1 l1'
  | _, _ => false
  end.

Lemma tree_eqb_unfold : forall t a r ks t' a' r' ks',
  tree_eqb (Node t a r ks) (Node t' a' r' ks') =
  Nat.eqb t t' && nats_eqb a a' && Nat.eqb r r' && trees_eqb ks ks'.
Proof.
  intros. reflexivity.
Qed.

Lemma tree_eqb_spec : forall x y, tree_eqb x y = true <-> x = y.
Proof.
  induction x as [t a r ks IH] using tree_ind2. destruct y as [t' a' r' ks'].
  rewrite tree_eqb_unfold, !andb_true_iff, !Nat.eqb_eq, nats_eqb_spec.
  assert (Hk : trees_eqb ks ks' = true <-> ks = ks').
  { revert ks'. induction IH as [|u ks Hu _ IHk]; destruct ks' as [|w ks']; simpl; split; try congruence; try discriminate.
    - rewrite andb_true_iff, Hu, IHk. intros [-> ->]. reflexivity.
    - intros [= -> ->]. rewrite andb_true_iff. split; [apply Hu|apply IHk]; reflexivity. }
  rewrite Hk. split.
  - intros [[[-> ->] ->] ->]. reflexivity.
  - intros [= -> -> -> ->]. auto.
Qed.

Lemma tree_eqb_refl : forall x, tree_eqb x x = true.
Proof. intros. apply tree_eqb_spec. reflexivity. Qed.

Lemma tree_eqb_false : forall x y, tree_eqb x y = false <-> x <> y.
Proof.
  intros. split.
  - intros H E. apply tree_eqb_spec in E. congruence.
  - intros H. destruct (tree_eqb x y) eqn:E; [apply tree_eqb_spec in E; contradiction|reflexivity].
Qed.

Lemma tree_eq_dec : forall x y : tree, {x = y} + {x <> y}.
Proof.
  intros. destruct (tree_eqb x y) eqn:E; [left; apply tree_eqb_spec; exact E|right; apply tree_eqb_false; exact E].
Qed.

Lemma tasks_of_unfold : forall t a r ks, tasks_of (Node t a r ks) = t :: flat_map tasks_of ks.
Proof. intros. reflexivity. Qed.

Lemma subtrees_unfold : forall t a r ks, subtrees (Node t a r ks) = Node t a r ks :: flat_map subtrees ks.
Proof. intros. reflexivity. Qed.

Lemma own_task_in : forall c, In (t_task c) (tasks_of c).
Proof. destruct c. rewrite tasks_of_unfold. simpl. auto. Qed.

Lemma memn_In : forall x l, memn x l = true <-> In x l.
Proof.
  intros. unfold memn. rewrite existsb_exists. split.
  - intros [y [Hy E]]. apply Nat.eqb_eq in E. subst. exact Hy.
  - intros H. exists x. split; [exact H|apply Nat.eqb_refl].
Qed.
Lemma memn_false : forall x l, memn x l = false <-> ~ In x l.
Proof.
  intros. split.
  - intros H E. apply memn_In in E. congruence.
  - intros H. destruct (memn x l) eqn:E; [apply memn_In in E; contradiction|reflexivity].
Qed.
Lemma memt_In : forall x l, memt x l = true <-> In x l.
Proof.
  intros. unfold memt. rewrite existsb_exists. split.
  - intros [y [Hy E]]. apply tree_eqb_spec in E. subst. exact Hy.
  - intros H. exists x. split; [exact H|apply tree_eqb_refl].
Qed.
Lemma memt_false : forall x l, memt x l = false <-> ~ In x l.
Proof.
  intros. split.
  - intros H E. apply memt_In in E. congruence.
  - intros H. destruct (memt x l) eqn:E; [apply memt_In in E; contradiction|reflexivity].
Qed.
Lemma subset_incl : forall a b, subset a b = true <-> incl a b.
Proof.
  intros. unfold subset. rewrite forallb_forall. split.
  - intros H x Hx. apply memn_In. apply H. exact Hx.
  - intros H x Hx. apply memn_In. apply H. exact Hx.
Qed.

Lemma dedup_In : forall x l, In x (dedup l) <-> In x l.
Proof.
  induction l as [|y l IH]; simpl; [tauto|].
  destruct (memn y l) eqn:E.
  - rewrite IH. split; [auto|]. intros [->|H]; [apply memn_In; exact E|exact H].
  - simpl. rewrite IH. tauto.
Qed.
Lemma dedup_NoDup : forall l, NoDup (dedup l).
Proof.
  induction l as [|y l IH]; simpl; [constructor|].
  destruct (memn y l) eqn:E; [exact IH|].
  constructor; [|exact IH]. rewrite dedup_In. apply memn_false. exact E.
Qed.
Lemma dedupt_In : forall x l, In x (dedupt l) <-> In x l.
Proof.
  induction l as [|y l IH]; simpl; [tauto|].
  destruct (memt y l) eqn:E.
  - rewrite IH. split; [auto|]. intros [->|H]; [apply memt_In; exact E|exact H].
  - simpl. rewrite IH. tauto.
Qed.
Lemma dedupt_NoDup : forall l, NoDup (dedupt l).
Proof.
  induction l as [|y l IH]; simpl; [constructor|].
  destruct (memt y l) eqn:E; [exact IH|].
  constructor; [|exact IH]. rewrite dedupt_In. apply memt_false. exact E.
Qed.

(* ------------------------------------------------------------------ rows *)
Lemma rows_In : forall d c t, In t (rows d c) <-> In (c, t) (subs d).
Proof.
  intros. unfold rows. rewrite in_map_iff. split.
  - intros [[c' t'] [E H]]. simpl in E. subst. apply filter_In in H. destruct H as [H E]. simpl in E.
    apply tree_eqb_spec in E. subst. exact H.
  - intros H. exists (c, t). split; [reflexivity|]. apply filter_In. split; [exact H|]. simpl. apply tree_eqb_refl.
Qed.

Lemma rows_app : forall a b c, rows (db_app a b) c = rows a c ++ rows b c.
Proof. intros. unfold rows, db_app. simpl. rewrite filter_app, map_app. reflexivity. Qed.

Lemma rows_subs_eq : forall d d' c, subs d = subs d' -> rows d c = rows d' c.
Proof. intros. unfold rows. rewrite H. reflexivity. Qed.

Lemma rows_mono : forall d d' c, incl (subs d) (subs d') -> incl (rows d c) (rows d' c).
Proof. intros d d' c H t Ht. apply rows_In. apply H. apply rows_In. exact Ht. Qed.

Lemma rows_new_same : forall c ts l,
  map snd (filter (fun p : tree * nat => tree_eqb (fst p) c) (map (fun t => (c, t)) ts ++ l)) =
  ts ++ map snd (filter (fun p : tree * nat => tree_eqb (fst p) c) l).
Proof.
  intros. rewrite filter_app, map_app. f_equal.
  induction ts as [|t ts IH]; simpl; [reflexivity|]. rewrite tree_eqb_refl. simpl. rewrite IH. reflexivity.
Qed.
Lemma rows_new_other : forall c c' ts l, c <> c' ->
  map snd (filter (fun p : tree * nat => tree_eqb (fst p) c') (map (fun t => (c, t)) ts ++ l)) =
  map snd (filter (fun p : tree * nat => tree_eqb (fst p) c') l).
Proof.
  intros. rewrite filter_app, map_app.
  replace (filter (fun p : tree * nat => tree_eqb (fst p) c') (map (fun t => (c, t)) ts)) with (@nil (tree * nat)); [reflexivity|].
  induction ts as [|t ts IH]; simpl; [reflexivity|].
  destruct (tree_eqb c c') eqn:E; [apply tree_eqb_spec in E; contradiction|exact IH].
Qed.

Lemma db_app_db0_l : forall d, db_app db0 d = d.
Proof. destruct d. reflexivity. Qed.

Lemma vis_clean : forall s, pen s = db0 -> vis s = com s.
Proof. intros s H. unfold vis. rewrite H. apply db_app_db0_l. Qed.

Lemma vis_add_subs_rows_same : forall c ts s, rows (vis (add_subs c ts s)) c = ts ++ rows (vis s) c.
Proof.
  intros. unfold rows, vis, add_subs, db_app. simpl. rewrite <- app_assoc. apply rows_new_same.
Qed.
Lemma vis_add_subs_rows_other : forall c c' ts s, c <> c' -> rows (vis (add_subs c ts s)) c' = rows (vis s) c'.
Proof.
  intros. unfold rows, vis, add_subs, db_app. simpl. rewrite <- app_assoc. apply rows_new_other. exact H.
Qed.

Lemma bind_ok : forall r k s pl, bind r k = ROk s pl -> exists s1 pl1, r = ROk s1 pl1 /\ k s1 pl1 = ROk s pl.
Proof. intros [s1 pl1|s1 pl1|s1|] k s pl H; simpl in H; try discriminate. eauto. Qed.

Lemma lookup_jobs_In : forall js ks r, lookup_jobs js ks = Some r -> forall x, In x r -> In x js.
Proof.
  induction ks as [|k ks IH]; simpl; intros r H x Hx.
  - injection H as <-. destruct Hx.
  - destruct (nth_error js k) eqn:E; [|discriminate]. destruct (lookup_jobs js ks) eqn:E2; [|discriminate].
    injection H as <-. destruct Hx as [<-|Hx]; [eapply nth_error_In; exact E|eapply IH; [reflexivity|exact Hx]].
Qed.
