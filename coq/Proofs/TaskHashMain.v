(** C17: what a task hash depends on. *)
From Coq Require Import String List ZArith Ascii Bool Permutation.
From RV Require Import Base.Decimal Model.Bencode Proofs.BencodeFacts Proofs.BencodeSort Base.HashSpec
  Model.TaskHash Proofs.TaskHashSort Proofs.TaskHashTrim.
Import ListNotations.
Open Scope list_scope.

Lemma map_BStr_inj l l' : map BStr l = map BStr l' -> l = l'.
Proof.
  revert l'. induction l as [|x l IH]; intros [|y l'] E; try discriminate; auto.
  simpl in E. injection E as -> E. f_equal. auto.
Qed.

Lemma app_eq_len {A} (a a' c c' : list A) :
  length a = length a' -> a ++ c = a' ++ c' -> a = a' /\ c = c'.
Proof.
  revert a'. induction a as [|x a IH]; intros [|y a'] L E; try discriminate; auto.
  simpl in *. injection E as -> E. injection L as L. destruct (IH _ L E) as [-> ->]. auto.
Qed.

Section Main.
  Variable H : bytes -> bytes.
  Hypothesis H_inj : forall x y, H x = H y -> x = y.
  Variable value : Type.
  Variable vhash : value -> bytes.
  Variable ohash : opts value -> bytes.
  Variable sanitize : opts value -> opts value.
  Variable vt : variant.

  Notation task := (task value).
  Notation thash := (task_hash H vhash ohash vt).
  Notation calc := (task_calc_with H vhash ohash vt).
  Notation incs := (includes_hashes vhash).
  Notation ohs := (options_hashes ohash).
  Notation effsrc := (eff_source vt).
  Implicit Types t inner : TaskHash.task value.
  Implicit Types o upd : opts value.
  Implicit Types p : ptask value.
  Implicit Types i : option (list (item value)).

  Definition incl_list (t : task) : list (item value) :=
    match t_includes t with None => [] | Some l => l end.

  Lemma incs_sort t : incs t = sort_b (map (item_hash vhash) (incl_list t)).
  Proof. unfold includes_hashes, incl_list. destruct (t_includes t); reflexivity. Qed.

  (** Identity part of the pre-image: full name, and source or version. *)
  Definition same_identity (t t' : task) : Prop :=
    fullname t = fullname t' /\
    match t_version t, t_version t' with
    | None, None => effsrc t = effsrc t'
    | Some v, Some v' => v = v'
    | _, _ => False
    end.

  Lemma identity_fields_len t : length (identity_fields vt t) = 3.
  Proof. unfold identity_fields. destruct (t_version t); reflexivity. Qed.

  Lemma identity_fields_eq t t' : identity_fields vt t = identity_fields vt t' <-> same_identity t t'.
  Proof.
    unfold identity_fields, same_identity. split.
    - intros E. injection E as E1 E2. split; auto.
      destruct (t_version t), (t_version t'); try (injection E2; intros; subst; auto; fail);
        cbv in E2; discriminate.
    - intros [E1 E2]. rewrite E1. destruct (t_version t), (t_version t'); try contradiction; congruence.
  Qed.

  (** Exact characterisation of equal hashes (no [compat] pin). *)
  Theorem calc_eq_iff t t' o o' : t_compat t = [] -> t_compat t' = [] ->
    (calc t o = calc t' o' <-> same_identity t t' /\ incs t ++ ohs o = incs t' ++ ohs o').
  Proof.
    intros C C'. unfold task_calc_with. rewrite C, C'. split.
    - intros E. apply H_inj in E. unfold task_pre_with in E. apply layout_inj in E. destruct E as [_ E].
      unfold task_fields in E. apply app_eq_len in E; [|now rewrite !identity_fields_len].
      destruct E as [E1 E2]. rewrite <- !map_app in E2. apply map_BStr_inj in E2.
      split; auto. now apply identity_fields_eq.
    - intros [E1 E2]. apply identity_fields_eq in E1. unfold task_pre_with, task_fields.
      rewrite E1. rewrite <- !map_app. now rewrite E2.
  Qed.

  Corollary hash_eq_iff t t' : t_compat t = [] -> t_compat t' = [] ->
    (thash t = thash t' <->
     same_identity t t' /\ incs t ++ ohs (t_override t) = incs t' ++ ohs (t_override t')).
  Proof. intros. unfold task_hash. now apply calc_eq_iff. Qed.

  (** ** "changes whenever ..." *)
  Theorem name_changes t t' : t_compat t = [] -> t_compat t' = [] ->
    fullname t <> fullname t' -> thash t <> thash t'.
  Proof. intros C C' N E. apply hash_eq_iff in E; auto. destruct E as [[E _] _]. auto. Qed.

  Theorem source_changes t t' : t_compat t = [] -> t_compat t' = [] ->
    t_version t = None -> t_version t' = None -> effsrc t <> effsrc t' -> thash t <> thash t'.
  Proof.
    intros C C' V V' N E. apply hash_eq_iff in E; auto. destruct E as [[_ E] _].
    rewrite V, V' in E. auto.
  Qed.

  Theorem version_changes t t' : t_compat t = [] -> t_compat t' = [] ->
    t_version t <> t_version t' -> thash t <> thash t'.
  Proof.
    intros C C' N E. apply hash_eq_iff in E; auto. destruct E as [[_ E] _].
    destruct (t_version t), (t_version t'); try contradiction; subst; auto.
  Qed.

  Theorem includes_change t t' : t_compat t = [] -> t_compat t' = [] ->
    ohs (t_override t) = ohs (t_override t') ->
    ~ Permutation (map (item_hash vhash) (incl_list t)) (map (item_hash vhash) (incl_list t')) ->
    thash t <> thash t'.
  Proof.
    intros C C' O N E. apply hash_eq_iff in E; auto. destruct E as [_ E].
    rewrite O in E. apply app_inv_tail in E. rewrite !incs_sort in E. apply sort_b_perm_iff in E. auto.
  Qed.

  Theorem options_change t t' : t_compat t = [] -> t_compat t' = [] ->
    Permutation (map (item_hash vhash) (incl_list t)) (map (item_hash vhash) (incl_list t')) ->
    ohs (t_override t) <> ohs (t_override t') -> thash t <> thash t'.
  Proof.
    intros C C' P N E. apply hash_eq_iff in E; auto. destruct E as [_ E].
    apply sort_b_perm_iff in P. rewrite !incs_sort, P in E. apply app_inv_head in E. auto.
  Qed.

  (** with a collision-free option-dict hash: any change of the override dict *)
  Lemma ohs_inj : (forall o o', ohash o = ohash o' -> o = o') -> forall o o', ohs o = ohs o' -> o = o'.
  Proof.
    intros Hinj o o'. unfold options_hashes. destruct o, o'; try discriminate; auto.
    intros [= E]. now apply Hinj.
  Qed.

  (** ** "unaffected by ..." *)
  Definition with_definition_time (t : task) (base : opts value) (export : list bytes) (script : bool) : task :=
    {| t_func := t_func t; t_name := t_name t; t_namespace := t_namespace t; t_source := t_source t;
       t_version := t_version t; t_compat := t_compat t; t_script := script; t_base := base;
       t_override := t_override t; t_export := export; t_includes := t_includes t |}.

  Theorem ignores_definition_time t base export script :
    thash (with_definition_time t base export script) = thash t.
  Proof. reflexivity. Qed.

  Definition with_includes (t : task) (i : option (list (item value))) : task :=
    {| t_func := t_func t; t_name := t_name t; t_namespace := t_namespace t; t_source := t_source t;
       t_version := t_version t; t_compat := t_compat t; t_script := t_script t; t_base := t_base t;
       t_override := t_override t; t_export := t_export t; t_includes := i |}.

  Lemma calc_includes_ext t i i' o :
    incs (with_includes t i) = incs (with_includes t i') ->
    calc (with_includes t i) o = calc (with_includes t i') o.
  Proof.
    intros E. unfold task_calc_with, task_pre_with, task_fields. cbn [t_compat with_includes].
    destruct (t_compat t); auto. now rewrite E.
  Qed.

  Theorem includes_order t l l' : Permutation l l' ->
    thash (with_includes t (Some l)) = thash (with_includes t (Some l')).
  Proof.
    intros P. unfold task_hash. cbn [t_override with_includes]. apply calc_includes_ext.
    unfold includes_hashes. cbn [t_includes with_includes]. apply sort_b_perm_iff.
    now apply Permutation_map.
  Qed.

  Theorem includes_none_empty t : thash (with_includes t None) = thash (with_includes t (Some [])).
  Proof. unfold task_hash. cbn [t_override with_includes]. now apply calc_includes_ext. Qed.

  (** versioned tasks do not look at the source *)
  Definition with_source (t : task) (f : pyfunc) (s : bytes) : task :=
    {| t_func := f; t_name := t_name t; t_namespace := t_namespace t; t_source := s;
       t_version := t_version t; t_compat := t_compat t; t_script := t_script t; t_base := t_base t;
       t_override := t_override t; t_export := t_export t; t_includes := t_includes t |}.

  Theorem versioned_ignores_source t f s v : t_version t = Some v -> thash (with_source t f s) = thash t.
  Proof.
    intros V. unfold task_hash, task_calc_with, task_pre_with, task_fields, identity_fields.
    cbn [t_compat t_version t_override with_source]. rewrite V. reflexivity.
  Qed.

  Theorem source_only_through_effective t f s : effsrc (with_source t f s) = effsrc t ->
    thash (with_source t f s) = thash t.
  Proof.
    intros E. unfold task_hash, task_calc_with, task_pre_with, task_fields, identity_fields.
    cbn [t_compat t_version t_override with_source]. rewrite E. reflexivity.
  Qed.

  (** ** decorator lines *)
  Definition func_of (name ns : bytes) (src_lines : list bytes) : pyfunc :=
    {| f_name := name; f_namespace := ns; f_getsource := join_nl src_lines |}.

  Theorem decorator_lines_ignored fname fns decos decos' defl body
          name namespace version compat script base override export includes :
    Forall no_nl (decos ++ defl :: body) -> Forall no_nl decos' ->
    Forall (fun l => is_def_line vt l = false) decos ->
    Forall (fun l => is_def_line vt l = false) decos' ->
    is_def_line vt defl = true ->
    thash (mk_task vt (func_of fname fns (decos ++ defl :: body)) name namespace version compat script
                   base override export includes None)
    = thash (mk_task vt (func_of fname fns (decos' ++ defl :: body)) name namespace version compat script
                     base override export includes None).
  Proof.
    intros Hn Hn' Hd Hd' Hdef.
    assert (Hn2 : Forall no_nl (decos' ++ defl :: body)).
    { apply Forall_app in Hn. destruct Hn as [_ Hn]. apply Forall_app. auto. }
    unfold task_hash, task_calc_with, task_pre_with, task_fields, identity_fields, eff_source, fullname,
      includes_hashes, mk_task, get_func_source, func_of.
    cbn [t_compat t_version t_override t_source t_func t_name t_namespace t_includes f_getsource f_name f_namespace].
    rewrite (trim_drops_decorators vt decos defl body Hn Hd Hdef).
    rewrite (trim_drops_decorators vt decos' defl body Hn2 Hd' Hdef). reflexivity.
  Qed.

  (** ** clone constructors *)
  Notation options_ := (options sanitize vt).

  Definition with_override (t : task) (o : opts value) : task :=
    {| t_func := t_func t; t_name := t_name t; t_namespace := t_namespace t; t_source := t_source t;
       t_version := t_version t; t_compat := t_compat t; t_script := t_script t; t_base := t_base t;
       t_override := o; t_export := t_export t; t_includes := t_includes t |}.

  (** repaired: the clone is the same task with the merged override dict (name non-empty, as
      [_validate] enforces) *)
  Theorem options_fixed_is_override t upd : t_name t <> [] ->
    thash (options_ Fixed t upd) = calc t (new_override sanitize t upd).
  Proof.
    intros N. unfold options, derive, fwd_options, task_hash, task_calc_with, task_pre_with, task_fields,
      identity_fields, eff_source, fullname, includes_hashes, mk_task.
    cbn. destruct (t_name t) eqn:E; [congruence|]. reflexivity.
  Qed.

  (** as shipped: the clone has lost [hash_includes] *)
  Theorem options_shipped_drops_includes t upd : t_name t <> [] ->
    thash (options_ AsShipped t upd) = calc (with_includes t None) (new_override sanitize t upd).
  Proof.
    intros N. unfold options, derive, fwd_options, task_hash, task_calc_with, task_pre_with, task_fields,
      identity_fields, eff_source, fullname, includes_hashes, mk_task.
    cbn. destruct (t_name t) eqn:E; [congruence|]. reflexivity.
  Qed.

  Theorem export_options_fixed_is_override t upd : t_name t <> [] ->
    thash (export_options sanitize vt Fixed t upd) = calc t (new_override sanitize t upd).
  Proof.
    intros N. unfold export_options, derive, fwd_export, task_hash, task_calc_with, task_pre_with, task_fields,
      identity_fields, eff_source, fullname, includes_hashes, mk_task.
    cbn. destruct (t_name t) eqn:E; [congruence|]. reflexivity.
  Qed.

  Theorem export_options_shipped_drops_includes t upd : t_name t <> [] ->
    thash (export_options sanitize vt AsShipped t upd) = calc (with_includes t None) (new_override sanitize t upd).
  Proof.
    intros N. unfold export_options, derive, fwd_export, task_hash, task_calc_with, task_pre_with, task_fields,
      identity_fields, eff_source, fullname, includes_hashes, mk_task.
    cbn. destruct (t_name t) eqn:E; [congruence|]. reflexivity.
  Qed.

  (** two tasks that differ only in their includes: as shipped their clones collide *)
  Theorem options_shipped_collide t i i' upd : t_name t <> [] ->
    thash (options_ AsShipped (with_includes t i) upd) = thash (options_ AsShipped (with_includes t i') upd).
  Proof.
    intros N. rewrite !options_shipped_drops_includes by exact N. reflexivity.
  Qed.

  (** ... repaired, the clones differ exactly when the originals' include multisets differ *)
  Theorem options_fixed_tracks_includes t (l l' : list (item value)) upd : t_name t <> [] -> t_compat t = [] ->
    ~ Permutation (map (item_hash vhash) l) (map (item_hash vhash) l') ->
    thash (options_ Fixed (with_includes t (Some l)) upd) <> thash (options_ Fixed (with_includes t (Some l')) upd).
  Proof.
    intros N C NP E. rewrite !options_fixed_is_override in E by exact N.
    apply calc_eq_iff in E; auto. destruct E as [_ E].
    change (new_override sanitize (with_includes t (Some l)) upd) with (new_override sanitize t upd) in E.
    change (new_override sanitize (with_includes t (Some l')) upd) with (new_override sanitize t upd) in E.
    apply app_inv_tail in E. unfold includes_hashes in E. cbn [t_includes with_includes] in E.
    apply sort_b_perm_iff in E. auto.
  Qed.

  (** ** wrapped tasks *)
  Notation wrap_ := (wrap H vhash ohash vt).

  Lemma perm_snoc_inv {A} (l : list A) x y : Permutation (l ++ [x]) (l ++ [y]) -> x = y.
  Proof. intros P. apply Permutation_app_inv_l in P. now apply Permutation_length_1. Qed.

  Theorem wrapped_tracks_inner wf wi wb inner inner' :
    thash (wrap_ wf wi wb inner) = thash (wrap_ wf wi wb inner') -> thash inner = thash inner'.
  Proof.
    intros E. apply hash_eq_iff in E; try reflexivity. destruct E as [_ E].
    cbn [wrap mk_task t_override orelse options_hashes] in E. rewrite !app_nil_r in E.
    unfold includes_hashes in E. cbn [wrap mk_task t_includes] in E.
    apply sort_b_perm_iff in E. rewrite !map_app in E. cbn [map item_hash] in E.
    now apply perm_snoc_inv in E.
  Qed.

  Theorem wrapped_options_fixed_tracks_inner wf wi wb inner inner' upd :
    t_name inner <> [] -> t_name inner' <> [] ->
    thash (options_ Fixed (wrap_ wf wi wb inner) upd) = thash (options_ Fixed (wrap_ wf wi wb inner') upd) ->
    thash inner = thash inner'.
  Proof.
    intros N N' E. rewrite !options_fixed_is_override in E.
    2,3: cbn [wrap mk_task t_name]; match goal with |- context [match ?n with _ => _ end] => destruct n eqn:?; congruence end.
    apply calc_eq_iff in E; try reflexivity. destruct E as [_ E].
    change (new_override sanitize (wrap_ wf wi wb inner) upd) with (dict_update (sanitize []) upd) in E.
    change (new_override sanitize (wrap_ wf wi wb inner') upd) with (dict_update (sanitize []) upd) in E.
    apply app_inv_tail in E. unfold includes_hashes in E. cbn [wrap mk_task t_includes] in E.
    apply sort_b_perm_iff in E. rewrite !map_app in E. cbn [map item_hash] in E.
    now apply perm_snoc_inv in E.
  Qed.

  (** as shipped: the clone of a wrapper does not see the wrapped task at all *)
  Theorem wrapped_options_shipped_blind wf wi wb inner inner' upd :
    t_name inner = t_name inner' -> t_namespace inner = t_namespace inner' -> t_name inner <> [] ->
    thash (options_ AsShipped (wrap_ wf wi wb inner) upd) = thash (options_ AsShipped (wrap_ wf wi wb inner') upd).
  Proof.
    intros E1 E2 N. rewrite !options_shipped_drops_includes.
    2,3: cbn [wrap mk_task t_name]; rewrite <- ?E1; destruct (t_name inner) eqn:?; congruence.
    unfold task_calc_with, task_pre_with, task_fields, identity_fields, eff_source, fullname, includes_hashes,
      new_override.
    cbn [wrap mk_task with_includes t_compat t_version t_source t_func t_name t_namespace t_includes t_override orelse].
    rewrite <- E1, <- E2. reflexivity.
  Qed.

  (** ** arguments and partial tasks *)
  Notation ahash := (args_hash H vhash).

  Theorem args_hash_inj a k a' k' : ahash a k = ahash a' k' ->
    map vhash a = map vhash a' /\ Permutation (hashed_kwargs vhash k) (hashed_kwargs vhash k').
  Proof.
    unfold args_hash, args_pre. intros E. apply H_inj, layout_inj in E. destruct E as [_ E].
    injection E as E1 E2. split.
    - revert a' E1. induction a as [|x a IH]; intros [|y a'] E1; try discriminate; auto.
      simpl in E1. injection E1 as E0 E1. simpl. f_equal; auto.
    - eapply perm_trans; [apply Permutation_sym, sort_perm|]. rewrite E2. apply sort_perm.
  Qed.

  Theorem args_hash_perm a k k' : NoDup (map fst k) -> Permutation k k' -> ahash a k = ahash a k'.
  Proof.
    intros ND P. unfold args_hash, args_pre. do 6 f_equal.
    apply sort_perm_invariant.
    - unfold hashed_kwargs. rewrite map_map. exact ND.
    - now apply Permutation_map.
  Qed.

  Notation phash := (partial_hash H vhash ohash sanitize vt).

  Theorem partial_hash_inj p p' : phash p = phash p' ->
    task_calc_now H vhash ohash sanitize vt (p_task p) = task_calc_now H vhash ohash sanitize vt (p_task p') /\
    map vhash (p_args p) = map vhash (p_args p') /\
    Permutation (hashed_kwargs vhash (p_kwargs p)) (hashed_kwargs vhash (p_kwargs p')).
  Proof.
    unfold partial_hash, partial_pre. intros E. apply H_inj, layout_inj in E. destruct E as [_ E].
    injection E as E1 E2. split; auto. now apply args_hash_inj.
  Qed.

  Theorem partial_args_change t a a' k : map vhash a <> map vhash a' ->
    phash (partial t a k) <> phash (partial t a' k).
  Proof. intros N E. apply partial_hash_inj in E. destruct E as [_ [E _]]. auto. Qed.

  Theorem partial_more_appends p a k :
    p_args (partial_more p a k) = p_args p ++ a /\ p_task (partial_more p a k) = p_task p.
  Proof. split; reflexivity. Qed.

  (** ** the flat layout: includes and options are not separated *)
  Theorem joint_collision t o : o <> [] ->
    thash (with_override (with_includes t (Some [ITask (ohash o)])) [])
    = thash (with_override (with_includes t None) o).
  Proof.
    intros N. unfold task_hash, task_calc_with, task_pre_with, task_fields, includes_hashes.
    cbn [t_compat t_override t_includes with_override with_includes].
    destruct o; [congruence|]. reflexivity.
  Qed.

  (** ** compat pins the hash *)
  Theorem compat_pins t c r : t_compat t = c :: r -> thash t = c.
  Proof. intros C. unfold task_hash, task_calc_with. now rewrite C. Qed.
End Main.

(** * Full names *)
Lemma no_dot_split (a a' n n' : bytes) (d : ascii) :
  ~ In d n -> ~ In d n' -> a ++ d :: n = a' ++ d :: n' -> a = a' /\ n = n'.
Proof.
  intros Hn Hn' E.
  assert (E2 : rev n ++ d :: rev a = rev n' ++ d :: rev a').
  { apply (f_equal (@rev _)) in E. rewrite !rev_app_distr in E. simpl in E.
    rewrite <- !app_assoc in E. exact E. }
  clear E. revert n' Hn' E2. induction n as [|c n IH] using rev_ind; intros n' Hn' E2.
  - simpl in E2. destruct n' as [|c' n'] using rev_ind.
    + simpl in E2. injection E2 as E2. split; auto. rewrite <- (rev_involutive a), E2. apply rev_involutive.
    + exfalso. rewrite rev_app_distr in E2. simpl in E2. injection E2 as E2 _.
      apply Hn'. subst. apply in_or_app. right. now left.
  - rewrite rev_app_distr in E2. simpl in E2.
    destruct n' as [|c' n' _] using rev_ind.
    + exfalso. simpl in E2. injection E2 as E2 _. apply Hn. subst. apply in_or_app. right. now left.
    + rewrite rev_app_distr in E2. simpl in E2. injection E2 as E0 E2. subst c'.
      destruct (IH (fun Hi => Hn (in_or_app _ _ _ (or_introl Hi))) n'
                   (fun Hi => Hn' (in_or_app _ _ _ (or_introl Hi))) E2) as [-> ->].
      auto.
Qed.

Definition dot : ascii := "."%char.

(** Names cannot contain a dot ([_validate]); then the full name determines namespace and name. *)
Theorem fullname_inj ns n ns' n' : ~ In dot n -> ~ In dot n' ->
  format_fullname ns n = format_fullname ns' n' -> ns = ns' /\ n = n'.
Proof.
  intros Hn Hn'. unfold format_fullname. destruct ns as [|c ns], ns' as [|c' ns'].
  - auto.
  - intros E. exfalso. apply Hn. rewrite E. apply in_or_app. right. apply in_or_app. left. now left.
  - intros E. exfalso. apply Hn'. rewrite <- E. apply in_or_app. right. apply in_or_app. left. now left.
  - intros E. change (b ".") with [dot] in E. simpl in E.
    change ((c :: ns) ++ dot :: n = (c' :: ns') ++ dot :: n') in E.
    now apply no_dot_split in E.
Qed.

(** Everything from the def line on is hashed: a change there changes the hash of an unversioned
    task that takes its source from the function. *)
Section Body.
  Variable H : bytes -> bytes.
  Hypothesis H_inj : forall x y, H x = H y -> x = y.
  Variable value : Type.
  Variable vhash : value -> bytes.
  Variable ohash : opts value -> bytes.
  Variable vt : variant.

  Theorem body_change_changes_hash fname fns decos decos' defl defl' body body'
          name namespace script base override export (includes : option (list (item value))) :
    Forall no_nl (decos ++ defl :: body) -> Forall no_nl (decos' ++ defl' :: body') ->
    Forall (fun l => is_def_line vt l = false) decos ->
    Forall (fun l => is_def_line vt l = false) decos' ->
    is_def_line vt defl = true -> is_def_line vt defl' = true ->
    defl :: body <> defl' :: body' ->
    task_hash H vhash ohash vt
      (mk_task vt (func_of fname fns (decos ++ defl :: body)) name namespace None None script
               base override export includes None)
    <> task_hash H vhash ohash vt
      (mk_task vt (func_of fname fns (decos' ++ defl' :: body')) name namespace None None script
               base override export includes None).
  Proof.
    intros Hn Hn' Hd Hd' Hdef Hdef' NE.
    apply source_changes; auto.
    unfold eff_source, mk_task, get_func_source, func_of.
    cbn [t_source t_func f_getsource].
    rewrite (trim_drops_decorators vt decos defl body Hn Hd Hdef).
    rewrite (trim_drops_decorators vt decos' defl' body' Hn' Hd' Hdef').
    assert (J : join_nl (defl :: body) <> join_nl (defl' :: body')).
    { intros E. apply NE. apply join_nl_inj in E; auto; try discriminate.
      - apply Forall_app in Hn. tauto.
      - apply Forall_app in Hn'. tauto. }
    destruct (join_nl (defl :: body)) eqn:E1, (join_nl (defl' :: body')) eqn:E2; congruence.
  Qed.
End Body.
