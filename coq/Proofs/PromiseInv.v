(** The heap invariant of the Promise machine: every registration on a promise is, at any
    moment, in exactly one of three places -- still in the promise's lists, waiting in a
    [_notify] loop on the stack, or already called -- and (Drain mode) these three appear in
    registration order. *)
From Coq Require Import List ZArith Bool Arith Lia Permutation.
From RV Require Import Model.Promise Proofs.PromiseBase.
Import ListNotations.
Open Scope list_scope.

Section Inv.
Variable c : cfg.
Hypothesis Hgood : good c.

Definition settled_clause (strict : bool) (stk : list frame) (lg : list event) (p : nat) (pr : prom) : Prop :=
  match mode c with
  | Swap => (if strict then ress pr = [] else True)
            /\ Permutation (regs_l p lg) (called_l p lg ++ inframes p stk ++ rids (ress pr))
  | Drain => regs_l p lg = called_l p lg ++ inframes p stk ++ rids (ress pr)
             /\ nframes p stk = (if busy pr then 1 else 0)
             /\ (busy pr = false -> if strict then ress pr = [] else inframes p stk = [])
  end.

Definition PInv (strict : bool) (stk : list frame) (lg : list event) (p : nat) (pr : prom) : Prop :=
  rids (ress pr) = rids (rejs pr) /\
  match st pr with
  | Pending => called_l p lg = [] /\ nframes p stk = 0 /\ busy pr = false /\ regs_l p lg = rids (ress pr)
  | _ => settled_clause strict stk lg p pr
  end /\
  (forall isres arg cbs, In (FNotify p isres arg cbs) stk -> st pr = mk_outcome isres arg) /\
  (forall r isres arg k, In (EvCall p r isres arg k) lg -> st pr = mk_outcome isres arg).

Definition strict_at (p0 : option nat) (p : nat) : bool :=
  match p0 with Some q => negb (q =? p) | None => true end.

Record Inv (p0 : option nat) (s : state) : Prop := {
  inv_p : forall p pr, nth_error (heap s) p = Some pr -> PInv (strict_at p0 p) (stack s) (log s) p pr;
  inv_out : forall p, length (heap s) <= p ->
              regs_l p (log s) = [] /\ called_l p (log s) = [] /\ nframes p (stack s) = 0;
  inv_fresh : forall p r, In r (regs_l p (log s)) -> r < next_rid s;
  inv_nodup : forall p, NoDup (regs_l p (log s)) }.

(* ------------------------------------------------------------------ weakening and extensionality *)
Lemma PInv_weaken : forall stk lg p pr, PInv true stk lg p pr -> PInv false stk lg p pr.
Proof.
  unfold PInv. intros stk lg p pr (H1 & H2 & H3 & H4). repeat split; auto.
  destruct (st pr); auto; unfold settled_clause in *; destruct (mode c).
  - destruct H2; split; auto.
  - destruct H2 as (A & B & C). repeat split; auto. intros Hb. rewrite Hb in B. apply nframes0_inframes; auto.
  - destruct H2; split; auto.
  - destruct H2 as (A & B & C). repeat split; auto. intros Hb. rewrite Hb in B. apply nframes0_inframes; auto.
Qed.

Lemma Inv_weaken : forall p0 s, Inv None s -> Inv p0 s.
Proof.
  intros p0 s [A B C D]. constructor; auto. intros p pr H. specialize (A p pr H). simpl in A.
  destruct (strict_at p0 p); auto. apply PInv_weaken; auto.
Qed.

Lemma PInv_stack_ext : forall b stk stk' lg p pr,
  inframes p stk' = inframes p stk -> nframes p stk' = nframes p stk ->
  (forall i a l, In (FNotify p i a l) stk' -> exists l', In (FNotify p i a l') stk) ->
  PInv b stk lg p pr -> PInv b stk' lg p pr.
Proof.
  unfold PInv, settled_clause. intros b stk stk' lg p pr E1 E2 E3 (H1 & H2 & H3 & H4).
  rewrite E1, E2. repeat split; auto.
  intros i a l HI. destruct (E3 i a l HI) as (l' & HI'). eapply H3; eauto.
Qed.

Lemma PInv_log_ext : forall b stk lg lg' p pr,
  regs_l p lg' = regs_l p lg -> called_l p lg' = called_l p lg ->
  (forall r i a k, In (EvCall p r i a k) lg' -> In (EvCall p r i a k) lg) ->
  PInv b stk lg p pr -> PInv b stk lg' p pr.
Proof.
  unfold PInv, settled_clause. intros b stk lg lg' p pr E1 E2 E3 (H1 & H2 & H3 & H4).
  rewrite E1, E2. repeat split; auto. intros; eapply H4; eauto.
Qed.

(* ------------------------------------------------------------------ primitives that touch no promise *)
Lemma inv_set_stack : forall p0 s stk',
  (forall p, inframes p stk' = inframes p (stack s) /\ nframes p stk' = nframes p (stack s) /\
             (forall i a l, In (FNotify p i a l) stk' -> exists l', In (FNotify p i a l') (stack s))) ->
  Inv p0 s -> Inv p0 (set_stack stk' s).
Proof.
  intros p0 s stk' E [A B C D]. constructor; simpl; auto.
  - intros p pr H. destruct (E p) as (E1 & E2 & E3). eapply PInv_stack_ext; eauto.
  - intros p H. destruct (B p H) as (B1 & B2 & B3). destruct (E p) as (E1 & E2 & E3). rewrite E2. auto.
Qed.

Lemma inv_push_other : forall p0 s f, is_notify f = false -> Inv p0 s -> Inv p0 (push f s).
Proof.
  intros. unfold push. apply inv_set_stack; auto. intros p.
  destruct f; try discriminate; simpl; repeat split; auto;
    intros ? ? ? [E|I]; try discriminate; eauto.
Qed.

Lemma inv_pop_other : forall p0 s f rest, stack s = f :: rest -> is_notify f = false -> Inv p0 s -> Inv p0 (set_stack rest s).
Proof.
  intros p0 s f rest E N I. apply inv_set_stack; auto. intros p. rewrite E.
  destruct f; try discriminate; simpl; repeat split; auto; intros; eauto.
Qed.

Lemma inv_emit_other : forall p0 s e,
  match e with EvReg _ _ _ _ | EvCall _ _ _ _ _ => False | _ => True end -> Inv p0 s -> Inv p0 (emit e s).
Proof.
  intros p0 s e He [A B C D]. constructor; simpl.
  - intros p pr H. eapply PInv_log_ext; [| | |apply A; auto]; destruct e; simpl; auto; try tauto;
      intros r i a k [X|X]; try discriminate; auto.
  - intros p H. destruct (B p H) as (B1 & B2 & B3). destruct e; simpl; auto; tauto.
  - intros p r. destruct e; simpl; auto; try tauto; apply C.
  - intros p. destruct e; simpl; auto; tauto.
Qed.

Lemma inv_set_alls : forall p0 s a, Inv p0 s -> Inv p0 (set_alls a s).
Proof. intros p0 s a [A B C D]. constructor; simpl; auto. Qed.
Lemma inv_set_waits : forall p0 s a, Inv p0 s -> Inv p0 (set_waits a s).
Proof. intros p0 s a [A B C D]. constructor; simpl; auto. Qed.
Lemma inv_set_rid : forall p0 s n, next_rid s <= n -> Inv p0 s -> Inv p0 (set_rid n s).
Proof. intros p0 s n L [A B C D]. constructor; simpl; auto. intros p r H. specialize (C p r H). lia. Qed.

Lemma inv_alloc : forall p0 s, Inv p0 s -> Inv p0 (alloc s).
Proof.
  intros p0 s [A B C D]. constructor; simpl; auto.
  - intros p pr H. destruct (Nat.lt_ge_cases p (length (heap s))) as [L|L].
    + rewrite nth_error_snoc_lt in H; auto.
    + assert (p = length (heap s)).
      { assert (p < length (heap s ++ [mkprom Pending [] [] false])) by (apply nth_error_Some; congruence).
        rewrite app_length in H0. simpl in H0. lia. }
      subst p. rewrite nth_error_snoc_eq in H. inversion H; subst pr. clear H.
      destruct (B _ L) as (B1 & B2 & B3). unfold PInv. simpl. repeat split; auto.
      * intros i a l HI. exfalso. eapply nframes0_notin; eauto.
      * intros r i a k HI. exfalso. assert (In r (called_l (length (heap s)) (log s))) by (apply called_l_in; eauto).
        rewrite B2 in H. destruct H.
  - intros p H. apply B. rewrite app_length in H. simpl in H. lia.
Qed.

(* ------------------------------------------------------------------ _notify *)
Lemma take_cbs_spec : forall pr i v l, take_cbs pr = Some (i, v, l) ->
  st pr = mk_outcome i v /\ rids l = (if i then rids (ress pr) else rids (rejs pr)).
Proof.
  unfold take_cbs. intros pr i v l H. destruct (st pr); inversion H; subst; simpl; auto.
Qed.

Lemma strict_same : forall p, strict_at (Some p) p = false.
Proof. intros. simpl. rewrite Nat.eqb_refl. reflexivity. Qed.

Lemma strict_other : forall p p', p <> p' -> strict_at (Some p) p' = true.
Proof. intros. simpl. apply Nat.eqb_neq in H. rewrite H. reflexivity. Qed.

(** Pushing a [_notify] loop of [p] does not concern any other promise. *)
Lemma PInv_push_notify_other : forall b stk lg p p' i v l pr,
  p <> p' -> PInv b stk lg p' pr -> PInv b (FNotify p i v l :: stk) lg p' pr.
Proof.
  intros. eapply PInv_stack_ext; [| | |exact H0]; simpl.
  - apply Nat.eqb_neq in H. rewrite H. auto.
  - apply Nat.eqb_neq in H. rewrite H. auto.
  - intros i0 a0 l0 [E|I]; [inversion E; congruence|eauto].
Qed.

Lemma inv_notify : forall p s, Inv (Some p) s -> Inv None (notify c p s).
Proof.
  intros p s I. unfold notify.
  destruct (nth_error (heap s) p) as [pr|] eqn:Hp.
  2:{ destruct I as [A B C D]. constructor; auto. intros p' pr' H. specialize (A p' pr' H).
      rewrite strict_other in A; auto. congruence. }
  assert (Hweak : st pr = Pending \/ (busy pr = true /\ mode c = Drain) -> Inv None s).
  { intros Hc. destruct I as [A B C D]. constructor; auto. intros p' pr' H. specialize (A p' pr' H).
    destruct (Nat.eq_dec p p') as [->|N]; [|rewrite strict_other in A; auto].
    simpl in *. rewrite Nat.eqb_refl in A. simpl in A. rewrite Hp in H. inversion H; subst pr'.
    unfold PInv in *. destruct A as (A1 & A2 & A3 & A4). repeat split; auto.
    destruct Hc as [Hc|(Hb & Hm)]; [rewrite Hc in *; auto|].
    destruct (st pr); auto; unfold settled_clause in *; rewrite Hm in *;
      destruct A2 as (X & Y & Z); repeat split; auto; congruence. }
  destruct (take_cbs pr) as [[[i v] l]|] eqn:Ht.
  2:{ apply Hweak. left. unfold take_cbs in Ht. destruct (st pr); auto; discriminate. }
  destruct (take_cbs_spec _ _ _ _ Ht) as (Hst & Hl).
  assert (Hgo : forall b, (mode c = Drain -> busy pr = false /\ b = true) ->
     Inv None (push (FNotify p i v l) (set_heap (upd p (clear_lists b) (heap s)) s))).
  { intros b Hb. destruct I as [A B C D]. constructor; simpl; auto.
    - intros p' pr' H. destruct (Nat.eq_dec p p') as [<-|N].
      + rewrite (nth_error_upd_same _ _ _ _ _ Hp) in H. inversion H; subst pr'. clear H.
        specialize (A p pr Hp). simpl in A. rewrite Nat.eqb_refl in A. simpl in A.
        destruct A as (A1 & A2 & A3 & A4). unfold PInv. simpl. repeat split; auto.
        * assert (Hl' : rids l = rids (ress pr)) by (destruct i; congruence).
          rewrite Hst in *. unfold settled_clause in *. simpl. rewrite ?Nat.eqb_refl.
          destruct i; simpl in *; destruct (mode c) eqn:Hm.
          -- destruct A2 as (_ & A2). split; auto. rewrite app_nil_r, Hl'.
             eapply Permutation_trans; [exact A2|]. apply Permutation_app_head. apply Permutation_app_comm.
          -- destruct (Hb eq_refl) as (Hb1 & ->). destruct A2 as (X & Y & Z). rewrite Hb1 in Y.
             rewrite (Z Hb1) in X. simpl in X. rewrite Y, app_nil_r, Hl'.
             rewrite (nframes0_inframes _ _ Y), app_nil_r. repeat split; auto.
          -- destruct A2 as (_ & A2). split; auto. rewrite app_nil_r, Hl'.
             eapply Permutation_trans; [exact A2|]. apply Permutation_app_head. apply Permutation_app_comm.
          -- destruct (Hb eq_refl) as (Hb1 & ->). destruct A2 as (X & Y & Z). rewrite Hb1 in Y.
             rewrite (Z Hb1) in X. simpl in X. rewrite Y, app_nil_r, Hl'.
             rewrite (nframes0_inframes _ _ Y), app_nil_r. repeat split; auto.
        * intros i0 a0 l0 [E|HI]; [inversion E; subst; auto|eauto].
      + rewrite nth_error_upd_other in H; auto. specialize (A p' pr' H). rewrite strict_other in A; auto.
        apply PInv_push_notify_other; auto.
    - intros p' H. rewrite length_upd in H. destruct (B p' H) as (B1 & B2 & B3). repeat split; auto.
      assert (p < length (heap s)) by (apply nth_error_Some; congruence).
      assert (E : (p =? p') = false) by (apply Nat.eqb_neq; lia). rewrite E. auto. }
  destruct (mode c) eqn:Hm.
  - apply Hgo. discriminate.
  - destruct (busy pr) eqn:Hb.
    + apply Hweak. right. auto.
    + apply Hgo. auto.
Qed.

(* ------------------------------------------------------------------ do_resolve / do_reject *)
Lemma inv_set_state : forall s t pr o, o <> Pending ->
  Inv None s -> nth_error (heap s) t = Some pr -> st pr = Pending ->
  Inv (Some t) (set_heap (upd t (fun pr => mkprom o (ress pr) (rejs pr) (busy pr)) (heap s)) s).
Proof.
  intros s t pr o Ho [A B C D] Hp Hst. constructor; cbn [heap stack log next_rid set_heap]; auto.
  - intros p' pr' H. destruct (Nat.eq_dec t p') as [<-|N].
    + rewrite (nth_error_upd_same _ _ _ _ _ Hp) in H. inversion H; subst pr'. clear H.
      rewrite strict_same. specialize (A t pr Hp). simpl in A.
      destruct A as (A1 & A2 & A3 & A4). rewrite Hst in A2. destruct A2 as (X1 & X2 & X3 & X4).
      unfold PInv. simpl. repeat split; auto.
      * assert (settled_clause false (stack s) (log s) t (mkprom o (ress pr) (rejs pr) (busy pr))).
        { unfold settled_clause. simpl. rewrite X1, X2, X3, X4, (nframes0_inframes _ _ X2). simpl.
          destruct (mode c); repeat split; auto. }
        destruct o; auto; congruence.
      * intros i a l HI. exfalso. eapply nframes0_notin; eauto.
      * intros r i a k HI. exfalso. assert (In r (called_l t (log s))) by (apply called_l_in; eauto).
        rewrite X1 in H. destruct H.
    + rewrite nth_error_upd_other in H; auto. rewrite strict_other; auto. apply (A p' pr' H).
  - intros p' H. rewrite length_upd in H. auto.
Qed.

Lemma inv_settle : forall t o s, o <> Pending -> Inv None s -> Inv None (settle c t o s).
Proof.
  intros t o s Ho I. unfold settle. destruct (nth_error (heap s) t) as [pr|] eqn:Hp.
  2:{ apply inv_emit_other; simpl; auto. }
  destruct Hgood as (Hg & _). rewrite Hg. simpl.
  destruct (is_pending (st pr)) eqn:Hpe; simpl.
  - apply inv_notify. apply (inv_set_state (emit (EvTry t o) s) t pr o); auto.
    + apply inv_emit_other; simpl; auto.
    + destruct (st pr); auto; discriminate.
  - apply inv_emit_other; simpl; auto.
Qed.

(* ------------------------------------------------------------------ then *)
Lemma inv_register : forall s q a b, Inv None s -> q < length (heap s) ->
  Inv None (register c q (next_rid s) a b (set_rid (S (next_rid s)) s)).
Proof.
  intros s q a b [A B C D] Hq. unfold register. destruct Hgood as (_ & Hn). rewrite Hn.
  apply inv_notify. set (r := next_rid s).
  assert (Hfr : forall p x, In x (regs_l p (log s)) -> x < r) by (intros; eapply C; eauto).
  constructor; cbn [heap stack log next_rid set_heap set_rid emit regs_l].
  - intros p' pr' H. destruct (Nat.eq_dec q p') as [<-|N].
    + destruct (nth_error (heap s) q) as [pr|] eqn:Hp; [|apply nth_error_None in Hp; lia].
      rewrite (nth_error_upd_same _ _ _ _ _ Hp) in H. inversion H; subst pr'. clear H.
      rewrite strict_same. specialize (A q pr Hp). simpl in A.
      destruct A as (A1 & A2 & A3 & A4). unfold PInv. simpl. rewrite Nat.eqb_refl. repeat split.
      * rewrite !rids_app. simpl. congruence.
      * destruct (st pr).
        -- destruct A2 as (X1 & X2 & X3 & X4). repeat split; auto. rewrite rids_app, X4. reflexivity.
        -- unfold settled_clause in *. simpl. rewrite ?Nat.eqb_refl, rids_app. simpl. destruct (mode c).
           ++ destruct A2 as (_ & A2). split; auto.
              replace (called_l q (log s) ++ inframes q (stack s) ++ rids (ress pr) ++ [r])
                with ((called_l q (log s) ++ inframes q (stack s) ++ rids (ress pr)) ++ [r])
                by (rewrite <- !app_assoc; reflexivity).
              apply Permutation_app_tail; auto.
           ++ destruct A2 as (X & Y & Z). repeat split; auto.
              ** rewrite X, <- !app_assoc. reflexivity.
              ** intros Hb. rewrite Hb in Y. apply nframes0_inframes; auto.
        -- unfold settled_clause in *. simpl. rewrite ?Nat.eqb_refl, rids_app. simpl. destruct (mode c).
           ++ destruct A2 as (_ & A2). split; auto.
              replace (called_l q (log s) ++ inframes q (stack s) ++ rids (ress pr) ++ [r])
                with ((called_l q (log s) ++ inframes q (stack s) ++ rids (ress pr)) ++ [r])
                by (rewrite <- !app_assoc; reflexivity).
              apply Permutation_app_tail; auto.
           ++ destruct A2 as (X & Y & Z). repeat split; auto.
              ** rewrite X, <- !app_assoc. reflexivity.
              ** intros Hb. rewrite Hb in Y. apply nframes0_inframes; auto.
      * auto.
      * intros r0 i a0 k [E|HI]; [discriminate|eauto].
    + rewrite nth_error_upd_other in H; auto. rewrite strict_other; auto.
      eapply PInv_log_ext; [| | |apply (A p' pr' H)]; simpl.
      * apply Nat.eqb_neq in N. rewrite N. auto.
      * auto.
      * intros r0 i a0 k [E|HI]; [discriminate|auto].
  - intros p' H. rewrite length_upd in H. destruct (B p' H) as (B1 & B2 & B3).
    assert (E : (q =? p') = false) by (apply Nat.eqb_neq; lia). rewrite E. auto.
  - intros p' x. destruct (q =? p').
    + rewrite in_app_iff. simpl. intros [H|[H|[]]]; [apply Hfr in H; lia|lia].
    + intros H. apply Hfr in H. lia.
  - intros p'. destruct (q =? p'); auto.
    apply (Permutation_NoDup (l := r :: regs_l p' (log s))); [apply Permutation_cons_append|].
    constructor; auto. intros H. apply Hfr in H. lia.
Qed.

Lemma inv_do_then : forall q mk s, Inv None s -> Inv None (do_then c q mk s).
Proof.
  intros q mk s I. unfold do_then. destruct (q <? length (heap s)) eqn:E.
  - apply Nat.ltb_lt in E. change (next_rid s) with (next_rid (alloc s)).
    apply inv_register; [apply inv_alloc; auto|]. simpl. rewrite app_length. lia.
  - apply inv_emit_other; simpl; auto.
Qed.

(* ------------------------------------------------------------------ the loop of _notify *)
Lemma inv_call : forall s p i v x cbs rest, stack s = FNotify p i v (x :: cbs) :: rest -> Inv None s ->
  Inv None (emit (EvCall p (rid x) i v (kind x)) (push (FNotify p i v cbs) (set_stack rest s))).
Proof.
  intros s p i v x cbs rest Hs [A B C D].
  constructor; cbn [heap stack log next_rid set_stack push emit strict_at]; rewrite Hs in *.
  - intros p' pr' H. specialize (A p' pr' H). cbn [strict_at] in A.
    destruct (Nat.eq_dec p p') as [<-|N].
    + destruct A as (A1 & A2 & A3 & A4).
      assert (Hst : st pr' = mk_outcome i v) by (eapply A3; left; reflexivity).
      unfold PInv. repeat split; auto.
      * rewrite Hst in *. assert (Hs' : settled_clause true (FNotify p i v cbs :: rest) (EvCall p (rid x) i v (kind x) :: log s) p pr').
        { assert (A2' : settled_clause true (FNotify p i v (x :: cbs) :: rest) (log s) p pr') by (destruct i; exact A2).
          unfold settled_clause in *. simpl in *. rewrite Nat.eqb_refl in *. simpl in *.
          rewrite <- ?app_assoc in *. simpl in *. exact A2'. }
        destruct i; exact Hs'.
      * intros i0 a0 l0 [E|HI]; [inversion E; subst; auto|eapply A3; right; eauto].
      * intros r i0 a0 k [E|HI]; [inversion E; subst; auto|eauto].
    + eapply PInv_stack_ext; [| | |eapply PInv_log_ext; [| | |exact A]]; simpl;
        try (apply Nat.eqb_neq in N; rewrite N; auto; fail); try reflexivity.
      * intros i0 a0 l0 [E|HI]; [inversion E; congruence|eauto].
      * intros r i0 a0 k [E|HI]; [inversion E; congruence|auto].
  - intros p' H. destruct (B p' H) as (B1 & B2 & B3). simpl in *.
    destruct (p =? p'); [discriminate|auto].
  - intros p' r. simpl. apply C.
  - intros p'. simpl. apply D.
Qed.

Lemma inv_pop_notify_swap : forall s p i v rest, mode c = Swap ->
  stack s = FNotify p i v [] :: rest -> Inv None s -> Inv None (set_stack rest s).
Proof.
  intros s p i v rest Hm Hs [A B C D]. constructor; cbn [heap stack log next_rid set_stack]; rewrite Hs in *; auto.
  - intros p' pr' H. specialize (A p' pr' H). cbn [strict_at] in *.
    destruct (Nat.eq_dec p p') as [<-|N].
    + destruct A as (A1 & A2 & A3 & A4).
      assert (Hst : st pr' = mk_outcome i v) by (eapply A3; left; reflexivity).
      unfold PInv. repeat split; auto.
      * rewrite Hst in *. unfold settled_clause in *. rewrite Hm in *. simpl in *. rewrite Nat.eqb_refl in *.
        simpl in *. destruct i; exact A2.
      * intros; eapply A3; right; eauto.
    + eapply PInv_stack_ext; [| | |exact A]; simpl; try (apply Nat.eqb_neq in N; rewrite N; auto; fail).
      intros; eauto.
  - intros p' H. destruct (B p' H) as (B1 & B2 & B3). simpl in *. destruct (p =? p'); [discriminate|auto].
Qed.

Lemma inv_pop_notify_drain : forall s p i v rest, mode c = Drain ->
  stack s = FNotify p i v [] :: rest -> Inv None s ->
  Inv None
    (match nth_error (heap s) p with
     | None => set_stack rest s
     | Some pr =>
         match (if i then ress pr else rejs pr) with
         | [] => set_heap (upd p (fun pr => mkprom (st pr) (ress pr) (rejs pr) false) (heap s)) (set_stack rest s)
         | l => push (FNotify p i v l) (set_heap (upd p (clear_lists true) (heap s)) (set_stack rest s))
         end
     end).
Proof.
  intros s p i v rest Hm Hs [A B C D].
  destruct (nth_error (heap s) p) as [pr|] eqn:Hp.
  2:{ exfalso. apply nth_error_None in Hp. destruct (B p Hp) as (_ & _ & B3). rewrite Hs in B3. simpl in B3.
      rewrite Nat.eqb_refl in B3. discriminate. }
  pose proof (A p pr Hp) as Ap. cbn [strict_at] in Ap. destruct Ap as (A1 & A2 & A3 & A4).
  assert (Hst : st pr = mk_outcome i v) by (eapply A3; rewrite Hs; left; reflexivity).
  assert (A2' : settled_clause true (stack s) (log s) p pr) by (rewrite Hst in A2; destruct i; exact A2).
  unfold settled_clause in A2'. rewrite Hm, Hs in A2'. simpl in A2'. rewrite Nat.eqb_refl in A2'. simpl in A2'.
  destruct A2' as (X & Y & Z). destruct (busy pr) eqn:Hb; [|discriminate]. inversion Y as [Y'].
  rewrite (nframes0_inframes _ _ Y') in X. simpl in X.
  assert (Hother : forall p' pr', p <> p' -> nth_error (heap s) p' = Some pr' -> PInv true rest (log s) p' pr').
  { intros p' pr' N H. specialize (A p' pr' H). cbn [strict_at] in A. rewrite Hs in A.
    eapply PInv_stack_ext; [| | |exact A]; simpl; try (apply Nat.eqb_neq in N; rewrite N; auto; fail). intros; eauto. }
  assert (Hout : forall p', length (heap s) <= p' -> regs_l p' (log s) = [] /\ called_l p' (log s) = [] /\ nframes p' rest = 0).
  { intros p' H. destruct (B p' H) as (B1 & B2 & B3). rewrite Hs in B3. simpl in B3. destruct (p =? p'); [discriminate|auto]. }
  assert (Hfr : forall i0 a0 l0, In (FNotify p i0 a0 l0) rest -> st pr = mk_outcome i0 a0).
  { intros. eapply A3. rewrite Hs. right. eauto. }
  assert (Hl : rids (if i then ress pr else rejs pr) = rids (ress pr)) by (destruct i; congruence).
  destruct (if i then ress pr else rejs pr) as [|y l] eqn:El.
  - (* nothing was registered meanwhile: leave the loop *)
    simpl in Hl. symmetry in Hl. apply rids_nil in Hl.
    assert (Hl2 : rejs pr = []) by (apply rids_nil; rewrite <- A1, Hl; reflexivity).
    constructor; cbn [heap stack log next_rid set_stack set_heap]; auto.
    + intros p' pr' H. cbn [strict_at]. destruct (Nat.eq_dec p p') as [<-|N].
      * rewrite (nth_error_upd_same _ _ _ _ _ Hp) in H. inversion H; subst pr'. clear H.
        unfold PInv. simpl. repeat split; auto.
        rewrite Hst. assert (settled_clause true rest (log s) p (mkprom (mk_outcome i v) (ress pr) (rejs pr) false)).
        { unfold settled_clause. rewrite Hm. simpl. rewrite Hl in *. simpl. rewrite (nframes0_inframes _ _ Y').
          simpl. rewrite app_nil_r in X. repeat split; auto. rewrite app_nil_r. auto. }
        destruct i; exact H.
      * rewrite nth_error_upd_other in H; auto.
    + intros p' H. rewrite length_upd in H. auto.
  - (* callbacks were registered during the loop: take them, in order *)
    constructor; cbn [heap stack log next_rid set_stack set_heap push]; auto.
    + intros p' pr' H. cbn [strict_at]. destruct (Nat.eq_dec p p') as [<-|N].
      * rewrite (nth_error_upd_same _ _ _ _ _ Hp) in H. inversion H; subst pr'. clear H.
        unfold PInv. simpl. repeat split; auto.
        -- rewrite Hst. assert (settled_clause true (FNotify p i v (y :: l) :: rest) (log s) p (mkprom (mk_outcome i v) [] [] true)).
           { unfold settled_clause. rewrite Hm. simpl. rewrite Nat.eqb_refl. rewrite (nframes0_inframes _ _ Y'), Y'.
             simpl. rewrite !app_nil_r. simpl in Hl. rewrite Hl. repeat split; auto. }
           destruct i; exact H.
        -- intros i0 a0 l0 [E|HI]; [inversion E; subst; auto|eauto].
      * rewrite nth_error_upd_other in H; auto. apply PInv_push_notify_other; auto.
    + intros p' H. rewrite length_upd in H. destruct (Hout p' H) as (B1 & B2 & B3). repeat split; auto.
      simpl. assert (p < length (heap s)) by (apply nth_error_Some; congruence).
      assert (E : (p =? p') = false) by (apply Nat.eqb_neq; lia). rewrite E. auto.
Qed.

(* ------------------------------------------------------------------ composite operations *)
Lemma fulfilled_not_pending : forall v, Fulfilled v <> Pending. Proof. discriminate. Qed.
Lemma rejected_not_pending : forall v, Rejected v <> Pending. Proof. discriminate. Qed.
Hint Resolve fulfilled_not_pending rejected_not_pending : prom.

Ltac inv_tac :=
  repeat first
    [ assumption
    | apply inv_settle; [auto with prom|]
    | apply inv_do_then
    | apply inv_alloc
    | apply inv_set_alls
    | apply inv_set_waits
    | apply inv_push_other; [reflexivity|]
    | apply inv_emit_other; [exact I|] ].

Ltac split_if := match goal with |- context [if ?b then _ else _] => destruct b end.

Lemma inv_invoke : forall k arg s, Inv None s -> Inv None (invoke c k arg s).
Proof.
  intros k arg s I. destruct k; unfold invoke; try (inv_tac; fail).
  - cbn [alls push set_stack]. destruct (nth_error (alls s) a); [|inv_tac]. split_if; inv_tac.
  - cbn [alls push set_stack]. destruct (nth_error (alls s) a); inv_tac.
  - cbn [waits push set_stack]. destruct (nth_error (waits s) w); [|inv_tac]. split_if; inv_tac.
Qed.

Lemma inv_finish : forall v t s, Inv None s -> Inv None (finish c v t s).
Proof.
  intros v t s I. destruct v; unfold finish; try (inv_tac; fail).
  destruct (adopt_returned c); [|inv_tac]. destruct (p <? length (heap s)); inv_tac.
Qed.

Lemma inv_exec_act : forall a arg s, Inv None s -> Inv None (exec_act c a arg s).
Proof. intros a arg s I. destruct a; unfold exec_act; inv_tac. Qed.

Lemma inv_step : forall s s', Inv None s -> step c s = Some s' -> Inv None s'.
Proof.
  intros s s' I H. unfold step in H. destruct (stack s) as [|fr rest] eqn:Hs; [discriminate|].
  inversion H; subst s'; clear H.
  destruct fr.
  - destruct cbs as [|x cbs].
    + destruct (mode c) eqn:Hm.
      * eapply inv_pop_notify_swap; eauto.
      * apply (inv_pop_notify_drain s p isres arg rest Hm Hs I).
    + apply inv_invoke. apply inv_call; auto.
  - assert (I0 : Inv None (set_stack rest s)) by (eapply inv_pop_other; eauto).
    destruct acts as [|a acts].
    + destruct k as [|[e|z] t]; inv_tac.
    + apply inv_exec_act. inv_tac.
  - assert (I0 : Inv None (set_stack rest s)) by (eapply inv_pop_other; eauto).
    apply inv_finish; auto.
  - assert (I0 : Inv None (set_stack rest s)) by (eapply inv_pop_other; eauto).
    destruct rest0 as [|q qs].
    + destruct (n =? 0); [|auto]. cbn [alls set_stack]. destruct (nth_error (alls s) a); inv_tac.
    + inv_tac.
  - assert (I0 : Inv None (set_stack rest s)) by (eapply inv_pop_other; eauto).
    destruct rest0 as [|q qs].
    + destruct (n =? 0); [|auto]. cbn [waits set_stack]. destruct (nth_error (waits s) w); inv_tac.
    + inv_tac.
Qed.

Lemma inv_init : forall prog, Inv None (init prog).
Proof.
  intros. constructor; simpl; auto.
  - intros p pr H. destruct p; discriminate.
  - intros p r [].
  - intros. constructor.
Qed.

Lemma inv_reach : forall prog s, reach c prog s -> Inv None s.
Proof. induction 1; [apply inv_init|eapply inv_step; eauto]. Qed.
End Inv.
