(** Consequences of the heap invariant, in the form used by Props/C13.v. *)
From Coq Require Import List ZArith Bool Arith Lia Permutation.
From RV Require Import Model.Promise Proofs.PromiseBase Proofs.PromiseInv.
Import ListNotations.
Open Scope list_scope.

Definition settled (x : pstate) := x <> Pending.

Lemma nodup_app_l : forall A (a b : list A), NoDup (a ++ b) -> NoDup a.
Proof.
  induction a; simpl; intros b H; [constructor|]. inversion H; subst. constructor; [|eapply IHa; eauto].
  intros X. apply H2. apply in_or_app. auto.
Qed.

Section Thms.
Variable c : cfg.
Hypothesis Hgood : good c.
Variable prog : list act.
Variable s : state.
Hypothesis R : reach c prog s.

Let I := inv_reach c Hgood prog s R.

Lemma in_heap_or_out : forall p, (exists pr, nth_error (heap s) p = Some pr) \/ length (heap s) <= p.
Proof.
  intros p. destruct (nth_error (heap s) p) eqn:E; [left; eauto|right; apply nth_error_None; auto].
Qed.

(** A callback only ever runs with the outcome of its (settled) promise. *)
Theorem called_with_outcome : forall p r i a k, In (EvCall p r i a k) (log s) -> state_of s p = mk_outcome i a.
Proof.
  intros p r i a k H. unfold state_of. destruct (in_heap_or_out p) as [(pr & Hp)|Ho].
  - rewrite Hp. destruct (inv_p _ _ _ I p pr Hp) as (_ & _ & _ & A4). eauto.
  - destruct (inv_out _ _ _ I p Ho) as (_ & B2 & _).
    assert (In r (called_l p (log s))) by (apply called_l_in; eauto). rewrite B2 in H0. destruct H0.
Qed.

Theorem not_called_while_pending : forall p, state_of s p = Pending -> called s p = [].
Proof.
  intros p H. unfold state_of in H. unfold called. destruct (in_heap_or_out p) as [(pr & Hp)|Ho].
  - rewrite Hp in H. destruct (inv_p _ _ _ I p pr Hp) as (_ & A2 & _). rewrite H in A2. tauto.
  - destruct (inv_out _ _ _ I p Ho) as (_ & B2 & _). auto.
Qed.

(** At any moment: registrations = called ++ waiting in a loop ++ still in the list, up to order
    (and exactly, in Drain mode). *)
Lemma partition_perm : forall p, exists rest, Permutation (regs s p) (called s p ++ rest).
Proof.
  intros p. unfold regs, called. destruct (in_heap_or_out p) as [(pr & Hp)|Ho].
  - destruct (inv_p _ _ _ I p pr Hp) as (_ & A2 & _). unfold settled_clause in A2.
    destruct (st pr).
    + destruct A2 as (X1 & _ & _ & X4). rewrite X1. simpl. eauto.
    + destruct (mode c); [destruct A2 as (_ & A2); eauto|destruct A2 as (A2 & _); rewrite A2; eauto].
    + destruct (mode c); [destruct A2 as (_ & A2); eauto|destruct A2 as (A2 & _); rewrite A2; eauto].
  - destruct (inv_out _ _ _ I p Ho) as (B1 & B2 & _). rewrite B1, B2. exists []. auto.
Qed.

Theorem called_was_registered : forall p r, In r (called s p) -> In r (regs s p).
Proof.
  intros p r H. destruct (partition_perm p) as (rest & P).
  eapply Permutation_in; [apply Permutation_sym; exact P|]. apply in_or_app. auto.
Qed.

Theorem called_at_most_once : forall p, NoDup (called s p).
Proof.
  intros p. destruct (partition_perm p) as (rest & P).
  eapply nodup_app_l. eapply Permutation_NoDup; [exact P|]. apply (inv_nodup _ _ _ I).
Qed.

Theorem registrations_distinct : forall p, NoDup (regs s p).
Proof. intros. apply (inv_nodup _ _ _ I). Qed.

(** Quiescent: nothing is left waiting, so every registration on a settled promise was called. *)
Theorem quiescent_all_called : forall p, quiescent s -> settled (state_of s p) -> Permutation (regs s p) (called s p).
Proof.
  unfold quiescent, settled, state_of, regs, called. intros p Q H.
  destruct (in_heap_or_out p) as [(pr & Hp)|Ho].
  - rewrite Hp in H. destruct (inv_p _ _ _ I p pr Hp) as (_ & A2 & _). unfold settled_clause in A2.
    rewrite Q in A2. simpl in A2.
    destruct (st pr); [congruence| |]; destruct (mode c).
    + destruct A2 as (E & A2). rewrite E in A2. simpl in A2. rewrite app_nil_r in A2. auto.
    + destruct A2 as (A2 & Y & Z). destruct (busy pr); [discriminate|]. rewrite (Z eq_refl) in A2.
      simpl in A2. rewrite app_nil_r in A2. rewrite A2. auto.
    + destruct A2 as (E & A2). rewrite E in A2. simpl in A2. rewrite app_nil_r in A2. auto.
    + destruct A2 as (A2 & Y & Z). destruct (busy pr); [discriminate|]. rewrite (Z eq_refl) in A2.
      simpl in A2. rewrite app_nil_r in A2. rewrite A2. auto.
  - destruct (inv_out _ _ _ I p Ho) as (B1 & B2 & _). rewrite B1, B2. auto.
Qed.

Theorem quiescent_exactly_once : forall p r, quiescent s -> settled (state_of s p) -> In r (regs s p) ->
  count_occ Nat.eq_dec (called s p) r = 1.
Proof.
  intros p r Q H Hin. pose proof (quiescent_all_called p Q H) as P.
  apply NoDup_count_occ'; [apply called_at_most_once|]. eapply Permutation_in; eauto.
Qed.

Theorem quiescent_lists_empty : forall p pr, quiescent s -> nth_error (heap s) p = Some pr -> settled (st pr) ->
  ress pr = [] /\ rejs pr = [].
Proof.
  unfold quiescent, settled. intros p pr Q Hp H.
  destruct (inv_p _ _ _ I p pr Hp) as (A1 & A2 & _). unfold settled_clause in A2. rewrite Q in A2. simpl in A2.
  assert (ress pr = []).
  { destruct (st pr); [congruence| |]; destruct (mode c); try tauto;
      destruct A2 as (_ & Y & Z); destruct (busy pr); try discriminate; auto. }
  split; auto. apply rids_nil. rewrite <- A1, H0. reflexivity.
Qed.

(** Drain mode (the repaired [_notify]): calls happen in registration order, always. *)
Theorem drain_called_prefix : forall p, mode c = Drain -> exists rest, regs s p = called s p ++ rest.
Proof.
  intros p Hm. unfold regs, called. destruct (in_heap_or_out p) as [(pr & Hp)|Ho].
  - destruct (inv_p _ _ _ I p pr Hp) as (_ & A2 & _). unfold settled_clause in A2. rewrite Hm in A2.
    destruct (st pr).
    + destruct A2 as (X1 & _ & _ & X4). rewrite X1. simpl. eauto.
    + destruct A2 as (A2 & _); rewrite A2; eauto.
    + destruct A2 as (A2 & _); rewrite A2; eauto.
  - destruct (inv_out _ _ _ I p Ho) as (B1 & B2 & _). rewrite B1, B2. exists []. auto.
Qed.

Theorem drain_quiescent_order : forall p, mode c = Drain -> quiescent s -> settled (state_of s p) ->
  called s p = regs s p.
Proof.
  unfold quiescent, settled, state_of, regs, called. intros p Hm Q H.
  destruct (in_heap_or_out p) as [(pr & Hp)|Ho].
  - rewrite Hp in H. destruct (inv_p _ _ _ I p pr Hp) as (_ & A2 & _). unfold settled_clause in A2.
    rewrite Q, Hm in A2. simpl in A2.
    destruct (st pr); [congruence| |]; destruct A2 as (A2 & Y & Z); (destruct (busy pr); [discriminate|]);
      rewrite (Z eq_refl) in A2; simpl in A2; rewrite app_nil_r in A2; auto.
  - destruct (inv_out _ _ _ I p Ho) as (B1 & B2 & _). rewrite B1, B2. auto.
Qed.
End Thms.
