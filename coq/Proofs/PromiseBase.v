(** Basic facts about the Promise machine: reachability, list helpers, ghost projections. *)
From Coq Require Import List ZArith Bool Arith Lia Permutation.
From RV Require Import Model.Promise.
Import ListNotations.
Open Scope list_scope.

(* ------------------------------------------------------------------ reachability *)
Inductive reach (c : cfg) (prog : list act) : state -> Prop :=
| reach_init : reach c prog (init prog)
| reach_step : forall s s', reach c prog s -> step c s = Some s' -> reach c prog s'.

Definition quiescent (s : state) := stack s = [].

Lemma run_reach : forall c prog fuel s s' b, reach c prog s -> run c fuel s = (s', b) -> reach c prog s'.
Proof.
  induction fuel; simpl; intros s s' b R H.
  - inversion H; subst; exact R.
  - destruct (step c s) eqn:E.
    + eapply IHfuel; [|exact H]. eapply reach_step; eauto.
    + inversion H; subst; exact R.
Qed.

Lemma run_quiescent : forall c fuel s s', run c fuel s = (s', true) -> quiescent s'.
Proof.
  induction fuel; simpl; intros s s' H.
  - unfold quiescent. destruct (stack s) eqn:E; inversion H; subst; auto.
  - destruct (step c s) eqn:E.
    + eapply IHfuel; eauto.
    + inversion H; subst. unfold step in E. unfold quiescent. destruct (stack s'); [auto|discriminate].
Qed.

(** The stated class of configurations: the two pinned behaviours hold, the [_notify] mode is free. *)
Definition good (c : cfg) := guard_settled c = true /\ then_notifies c = true.
Lemma good_shipped : good shipped. Proof. split; reflexivity. Qed.
Lemma good_fixed : good fixed. Proof. split; reflexivity. Qed.

(* ------------------------------------------------------------------ upd *)
Lemma length_upd : forall A (f : A -> A) l n, length (upd n f l) = length l.
Proof. induction l; destruct n; simpl; auto. Qed.

Lemma nth_error_upd_same : forall A (f : A -> A) l n x, nth_error l n = Some x -> nth_error (upd n f l) n = Some (f x).
Proof. induction l; destruct n; simpl; intros; try discriminate; auto. inversion H; auto. Qed.

Lemma nth_error_upd_other : forall A (f : A -> A) l n m, n <> m -> nth_error (upd n f l) m = nth_error l m.
Proof. induction l; destruct n, m; simpl; intros; auto; try congruence. Qed.

Lemma nth_error_upd_none : forall A (f : A -> A) l n m, nth_error l m = None -> nth_error (upd n f l) m = None.
Proof. intros. apply nth_error_None. rewrite length_upd. apply nth_error_None; auto. Qed.

Lemma nth_error_snoc_lt : forall A (l : list A) x n, n < length l -> nth_error (l ++ [x]) n = nth_error l n.
Proof. intros. apply nth_error_app1; auto. Qed.

Lemma nth_error_snoc_eq : forall A (l : list A) x, nth_error (l ++ [x]) (length l) = Some x.
Proof. intros. rewrite nth_error_app2; [|lia]. rewrite Nat.sub_diag. reflexivity. Qed.

(* ------------------------------------------------------------------ ghost projections of the stack *)
Definition rids (l : list cb) := map rid l.

Fixpoint inframes (p : nat) (stk : list frame) : list nat :=
  match stk with
  | [] => []
  | FNotify p' _ _ cbs :: r => if p' =? p then rids cbs ++ inframes p r else inframes p r
  | _ :: r => inframes p r
  end.

Fixpoint nframes (p : nat) (stk : list frame) : nat :=
  match stk with
  | [] => 0
  | FNotify p' _ _ _ :: r => if p' =? p then S (nframes p r) else nframes p r
  | _ :: r => nframes p r
  end.

Lemma nframes0_inframes : forall p stk, nframes p stk = 0 -> inframes p stk = [].
Proof.
  induction stk as [|f r IH]; simpl; auto. destruct f; auto.
  destruct (p0 =? p); [discriminate|auto].
Qed.

Lemma nframes0_notin : forall p stk isres arg cbs, nframes p stk = 0 -> ~ In (FNotify p isres arg cbs) stk.
Proof.
  induction stk as [|f r IH]; simpl; intros; auto. intros [E|I].
  - subst f. rewrite Nat.eqb_refl in H. discriminate.
  - destruct f; try (eapply IH; eauto; fail). destruct (p0 =? p); [discriminate|eapply IH; eauto].
Qed.

Definition is_notify (f : frame) := match f with FNotify _ _ _ _ => true | _ => false end.

Lemma rids_nil : forall l, rids l = [] -> l = [].
Proof. destruct l; simpl; auto; discriminate. Qed.

Lemma rids_app : forall a b, rids (a ++ b) = rids a ++ rids b.
Proof. intros. apply map_app. Qed.

(* ------------------------------------------------------------------ log projections *)
Lemma regs_l_in : forall p l r, In r (regs_l p l) <-> exists a b, In (EvReg r p a b) l.
Proof.
  induction l as [|e l IH]; simpl; intros.
  - split; [tauto|intros (a & b & [])].
  - destruct e; try (rewrite IH; split; intros (a & b & H); exists a, b; [right; auto|destruct H as [H|H]; [discriminate|auto]]; fail).
    destruct (p0 =? p) eqn:E.
    + apply Nat.eqb_eq in E. subst p0. rewrite in_app_iff, IH. simpl. split.
      * intros [(a & b & H)|[H|[]]]; [exists a, b; auto|subst; exists cres, crej; auto].
      * intros (a & b & [H|H]); [inversion H; subst; auto|left; eauto].
    + apply Nat.eqb_neq in E. rewrite IH. split; intros (a & b & H); exists a, b; [right; auto|].
      destruct H as [H|H]; [inversion H; congruence|auto].
Qed.

Lemma called_l_in : forall p l r, In r (called_l p l) <-> exists i a k, In (EvCall p r i a k) l.
Proof.
  induction l as [|e l IH]; simpl; intros.
  - split; [tauto|intros (a & b & k & [])].
  - destruct e; try (rewrite IH; split; intros (a & b & k' & H); exists a, b, k'; [right; auto|destruct H as [H|H]; [discriminate|auto]]; fail).
    destruct (p0 =? p) eqn:E.
    + apply Nat.eqb_eq in E. subst p0. rewrite in_app_iff, IH. simpl. split.
      * intros [(a & b & k' & H)|[H|[]]]; [exists a, b, k'; auto|subst; exists isres, arg, k; auto].
      * intros (a & b & k' & [H|H]); [inversion H; subst; auto|left; eauto].
    + apply Nat.eqb_neq in E. rewrite IH. split; intros (a & b & k' & H); exists a, b, k'; [right; auto|].
      destruct H as [H|H]; [inversion H; congruence|auto].
Qed.
